#!/bin/sh
# Build the overlay venv (.venv): python 3.12 that sees /venv's site-packages (numpy,
# npstructures, the editable bionumpy -> /repo) plus z3-solver, cvc5, icontract, deal,
# jsonschema from the offline wheelhouse.  Idempotent.  Offline only.
set -e
cd "$(dirname "$0")/.."
V=.venv
if [ -x $V/bin/python ] && $V/bin/python -c "import z3, numpy, bionumpy, jsonschema" 2>/dev/null; then
  exit 0
fi
rm -rf $V
PY=$(readlink -f /venv/bin/python)
$PY -m venv --without-pip $V
SP=$($V/bin/python -c "import sysconfig; print(sysconfig.get_paths()['purelib'])")
echo "import site; site.addsitedir('/venv/lib/python3.12/site-packages')" > $SP/verif_overlay.pth
PIP_NO_INDEX=1 /venv/bin/python -m pip --python $V/bin/python install -q --no-index \
   --find-links /opt/veriftools/wheels z3-solver cvc5 icontract deal jsonschema >/dev/null
$V/bin/python -c "import z3, numpy, bionumpy, jsonschema; print('venv ok', z3.get_version_string())"
