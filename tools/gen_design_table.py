#!/usr/bin/env python3
"""prints the 'what each check proves' table of DESIGN.md section 9.4 from the evidence files of the last run"""
import json, os, re
ROOT = os.path.dirname(os.path.dirname(os.path.abspath(__file__)))
print("| id | engine P: contracts (function under contract [instance]) | obligations discharged | solver s | engine B evaluations (bounded) | known findings |")
print("|----|------|------|------|------|------|")
for i in range(1, 21):
    pid = "C%02d" % i
    e = json.load(open(os.path.join(ROOT, "evidence", pid + ".json")))
    c = e["coverage"]
    names = []
    for r in c.get("contracts", []):
        n = r["contract"].split(".", 1)[1]
        names.append(n)
    # collapse instances
    groups = {}
    for n in names:
        base = re.sub(r"\[.*\]$", "", n)
        groups.setdefault(base, 0)
        groups[base] += 1
    txt = "; ".join("%s%s" % (k, " (x%d)" % v if v > 1 else "") for k, v in groups.items()) or "-"
    b = c.get("bounded", c)
    print("| %s | %s | %s/%s | %s | %s | %d |" % (pid, txt, c.get("discharged", "-"), c.get("obligations", "-"), c.get("solver_time_s", "-"),
                                                 b.get("evaluations", "-"), len(c.get("known_findings_reported", []))))
