#!/usr/bin/env python3
"""HAND TOOL (never run by a check): re-derive the status=known entries of known_findings.json for the given properties from
the failures the bounded enumerators report on the current tree.  Review the result before committing."""
import json, os, re, subprocess, sys
ROOT = os.path.dirname(os.path.dirname(os.path.abspath(__file__)))
pids = sys.argv[1:]
kf = json.load(open(os.path.join(ROOT, "known_findings.json")))
for pid in pids:
    keep = [f for f in kf["findings"] if not (f["property"] == pid and f["status"] == "known")]
    kf["findings"] = keep
    json.dump(kf, open(os.path.join(ROOT, "known_findings.json"), "w"), indent=1)
    code = ("import json,sys; sys.path.insert(0,%r); import importlib; m=importlib.import_module('rtc.enum_%s'); r=m.run(tier='quick', seed=0); "
            "print('@@@'+json.dumps({f['signature']: {'case': f.get('case'), 'message': f.get('message')} for f in r['failures']}, default=str))" % (ROOT, pid.lower()))
    env = dict(os.environ, PYTHONPATH="/repo:" + ROOT, PYTHONDONTWRITEBYTECODE="1", PYTHONWARNINGS="ignore")
    out = subprocess.run([os.path.join(ROOT, ".venv/bin/python"), "-c", code], cwd=ROOT, capture_output=True, text=True, env=env).stdout
    sigs = json.loads(out.split("@@@")[-1])
    new = []
    if pid == "C05":
        groups = {}
        for s, d in sigs.items():
            fmt, rest = s.split(":", 1)
            groups.setdefault(rest, []).append((fmt, d))
        for rest, lst in sorted(groups.items()):
            fmts = sorted({x[0] for x in lst})
            new.append({"property": pid, "status": "known", "match": "^bounded:(%s):%s$" % ("|".join(re.escape(x) for x in fmts), re.escape(rest)),
                        "what": "lazy/eager divergence '%s' for formats %s: %s" % (rest, ",".join(fmts), (lst[0][1].get("message") or "")[:200].replace("\n", " ")),
                        "example_case": lst[0][1].get("case")})
    else:
        for s, d in sorted(sigs.items()):
            new.append({"property": pid, "status": "known", "match": "^bounded:%s$" % re.escape(s),
                        "what": "%s: %s" % (s, (d.get("message") or "")[:220].replace("\n", " ")), "example_case": d.get("case")})
    kf["findings"] += new
    json.dump(kf, open(os.path.join(ROOT, "known_findings.json"), "w"), indent=1, default=str)
    print(pid, len(new), "known entries")
