#!/usr/bin/env python3
"""HAND TOOL (never run by a check): derive status=known entries of known_findings.json for the given properties from the
failures the bounded enumerators report on the current tree.  Review the result before committing.

  tools/regen_known.py C07 C12            re-derive (replace) the known entries from the QUICK tier
  tools/regen_known.py --add --tier thorough C05
                                          keep the existing entries and ADD entries for the signatures of that tier which no
                                          existing entry matches (thorough scopes reach more program shapes / formats)
"""
import json, os, re, subprocess, sys
ROOT = os.path.dirname(os.path.dirname(os.path.abspath(__file__)))
args = sys.argv[1:]
add = "--add" in args
tier = "quick"
if "--tier" in args:
    tier = args[args.index("--tier") + 1]
pids = [a for a in args if re.fullmatch(r"C\d\d", a)]
kfp = os.path.join(ROOT, "known_findings.json")
kf = json.load(open(kfp))
for pid in pids:
    if not add:
        kf["findings"] = [f for f in kf["findings"] if not (f["property"] == pid and f["status"] == "known")]
        json.dump(kf, open(kfp, "w"), indent=1)
    code = ("import json,sys; sys.path.insert(0,%r); import importlib; m=importlib.import_module('rtc.enum_%s'); r=m.run(tier=%r, seed=0); "
            "print('@@@'+json.dumps({f['signature']: {'case': f.get('case'), 'message': f.get('message')} for f in r['failures']}, default=str))" % (ROOT, pid.lower(), tier))
    env = dict(os.environ, PYTHONPATH="/repo:" + ROOT, PYTHONDONTWRITEBYTECODE="1", PYTHONWARNINGS="ignore")
    out = subprocess.run([os.path.join(ROOT, ".venv/bin/python"), "-c", code], cwd=ROOT, capture_output=True, text=True, env=env).stdout
    sigs = json.loads(out.split("@@@")[-1])
    if add:
        have = [re.compile(f["match"]) for f in kf["findings"] if f["property"] == pid and f["status"] == "known"]
        sigs = {s: d for s, d in sigs.items() if not any(h.search("bounded:" + s) for h in have)}
    new = []
    if pid == "C05":
        groups = {}
        for s, d in sigs.items():
            fmt, rest = s.split(":", 1)
            groups.setdefault(rest, []).append((fmt, d))
        for rest, lst in sorted(groups.items()):
            fmts = sorted({x[0] for x in lst})
            new.append({"property": pid, "status": "known", "match": "^bounded:(%s):%s$" % ("|".join(re.escape(x) for x in fmts), re.escape(rest)),
                        "what": "lazy/eager divergence '%s' for formats %s: %s" % (rest, ",".join(fmts), (lst[0][1].get("message") or "")[:200].replace("\n", " ")),
                        "example_case": lst[0][1].get("case"), "tier": tier})
    else:
        for s, d in sorted(sigs.items()):
            new.append({"property": pid, "status": "known", "match": "^bounded:%s$" % re.escape(s),
                        "what": "%s: %s" % (s, (d.get("message") or "")[:220].replace("\n", " ")), "example_case": d.get("case"), "tier": tier})
    kf["findings"] += new
    json.dump(kf, open(kfp, "w"), indent=1, default=str)
    print(pid, len(new), "known entries", "added" if add else "re-derived", "from tier", tier)
    for e in new:
        print("   ", e["match"])
