#!/bin/bash
# usage: tools/run_seeded.sh C01-m1   -> applies seeded/C01-m1/patch.diff to a scratch worktree of /repo's HEAD (outside /repo and /verif),
# runs the property's quick check against it (BIONUMPY_REPO), prints one summary line, removes the worktree.
S=$1; P=${S%%-*}
WT=/tmp/seedrun/$S
rm -rf $WT; mkdir -p /tmp/seedrun /tmp/seedrun/out; git -C /repo worktree prune
git -C /repo worktree add --detach $WT HEAD -q 2>/dev/null || { echo "$S worktree-failed"; exit 0; }
PATCH=/verif/seeded/$S/patch.diff
[ -f /verif/seeded/$S/patch_rebased_on_fixed_tree.diff ] && PATCH=/verif/seeded/$S/patch_rebased_on_fixed_tree.diff
if ! git -C $WT apply $PATCH 2>/tmp/seedrun/out/$S.apply; then
  echo "$S patch-does-not-apply"; git -C /repo worktree remove --force $WT; exit 0; fi
cd /verif
# separate evidence/replay dirs are not needed: the check writes evidence/<P>.json; run sequentially per property
VERIF_EVIDENCE_DIR=/tmp/seedrun/ev/$S BIONUMPY_REPO=$WT timeout 1500 ./check $P ${2:-} > /tmp/seedrun/out/$S.out 2>&1; rc=$?
nv=$(grep -c '^VIOLATION' /tmp/seedrun/out/$S.out); nu=$(grep -c '^UNDECIDED' /tmp/seedrun/out/$S.out)
first=$(grep '^VIOLATION' /tmp/seedrun/out/$S.out | head -2 | sed 's/VIOLATION property=[A-Z0-9]* replay=[^ ]* //' | tr '\n' ';' | cut -c1-220)
echo "$S exit=$rc violations=$nv undecided=$nu :: $first"
git -C /repo worktree remove --force $WT
