#!/bin/sh
# re-freeze baseline_obligations.json for all properties, 6 in parallel (run by hand on the reference tree, then commit)
cd "$(dirname "$0")/.."
D=$(mktemp -d /tmp/freeze.XXXXXX)
for i in 01 02 03 04 05 06 07 08 09 10 11 12 13 14 15 16 17 18 19 20; do echo C$i; done | \
  xargs -P 6 -I{} sh -c "VERIF_FREEZE_PART=$D/{}.json timeout 3000 ./check {} --freeze > $D/{}.log 2>&1; tail -1 $D/{}.log"
.venv/bin/python - "$D" <<'P'
import json, sys, glob, os
base = json.load(open("baseline_obligations.json"))
for f in sorted(glob.glob(sys.argv[1] + "/C*.json")):
    base.update(json.load(open(f)))
json.dump(base, open("baseline_obligations.json", "w"), indent=1)
print({k: len(v) for k, v in base.items()})
P
rm -rf "$D"
