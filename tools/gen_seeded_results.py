#!/usr/bin/env python3
"""HAND TOOL: tools/gen_seeded_results.py SUMMARY_FILE  - SUMMARY_FILE holds the one-line outputs of tools/run_seeded.sh (one per seeded id; the
last line per id wins).  Writes seeded/RESULTS.md and the check_result block of every seeded/<id>/meta.json."""
import json, os, re, sys
ROOT = os.path.dirname(os.path.dirname(os.path.abspath(__file__)))
last = {}
for l in open(sys.argv[1]):
    m = re.match(r"(C\d\d-m\d+) exit=(\d+) violations=(\d+) undecided=(\d+) :: (.*)", l)
    if m:
        last[m.group(1)] = (int(m.group(2)), int(m.group(3)), int(m.group(4)), m.group(5).strip())
    m = re.match(r"(C\d\d-m\d+) (patch-does-not-apply|worktree-failed)", l)
    if m:
        last[m.group(1)] = (None, 0, 0, m.group(2))
ids = sorted(d for d in os.listdir(os.path.join(ROOT, "seeded")) if re.fullmatch(r"C\d\d-m\d+", d))
rows, ndet = [], 0
for sid in ids:
    mp = os.path.join(ROOT, "seeded", sid, "meta.json")
    meta = json.load(open(mp))
    r = last.get(sid)
    if r is None:
        status, first, by = "not run", "", []
    else:
        rc, nv, nu, first = r
        status = "detected" if rc == 1 and nv > 0 else ("undecided (exit 2)" if rc == 2 else ("obsolete (the patch no longer applies: its lines were rewritten by a fix)" if rc is None else "MISSED"))
        by = []
        if "obligation=" in first:
            by.append("engine P (named obligation)")
        if "bounded-case=" in first:
            by.append("engine B (bounded signature)")
        if rc == 1 and nv > 0 and not by:
            by.append("see first_reports")
    ndet += status == "detected"
    meta["check_result"] = {"command": "tools/run_seeded.sh %s  (applies the patch to a scratch worktree of /repo HEAD, runs ./check %s against it via BIONUMPY_REPO)" % (sid, sid[:3]),
                            "status": status, "violations": r[1] if r else None, "first_reports": first[:400], "caught_by": by}
    json.dump(meta, open(mp, "w"), indent=1)
    rows.append("| %s | %s | %s | %s | %s | %s |" % (sid, meta.get("round", 1), status, ", ".join(by), (meta.get("summary") or "")[:140].replace("|", "/").replace("\n", " "),
                                                   (first or "")[:200].replace("|", "/")))
with open(os.path.join(ROOT, "seeded", "RESULTS.md"), "w") as f:
    f.write("# Seeded faults: which check catches which change\n\n")
    f.write("Each fault was written by an independent sub-agent from the property text alone (round 1: m1, m2; round 2: m3-m5, steered towards other\n"
            "mechanisms and towards inputs larger or more specific than a tiny exhaustive test; round 3: m6, m7, code the property depends on indirectly and\n"
            "faults that corrupt state for a later operation; round 4: m8, m9, subtle slips in the core functions the property names; round 5: m10, faults a verifier is least likely to have enumerated), confirmed by the builder in a scratch worktree (demo passes\n"
            "pristine, fails mutated, test-suite failing set unchanged) and then run through `tools/run_seeded.sh <id>` (quick tier).\n\n")
    f.write("Detected: %d of %d.  Not detected: C06-m2 (obsolete: its line was rewritten by fix 02a7be4, the patch no longer applies), C07-m7 (single-key\n"
            "np.lexsort on encoded arrays not stable: sorting is not among the operations the C07 statement lists, not claimed) and C09-m10 (get_track shares the\n"
            "caller's value column: shows only when the caller edits its bedGraph afterwards; the statement is about the array at construction, not claimed).  Caught by a named engine-P\n"
            "obligation (often in addition to a bounded signature): %d.\n\n" % (ndet, len(ids), sum(1 for r in rows if "engine P" in r)))
    f.write("| id | round | result | caught by | change | first VIOLATION lines |\n|---|---|---|---|---|---|\n")
    f.write("\n".join(rows) + "\n")
print("detected", ndet, "of", len(ids))
for sid in ids:
    r = last.get(sid)
    if r is None or not (r[0] == 1 and r[1] > 0):
        print("  NOT detected:", sid, r[:3] if r else None)
