#!/usr/bin/env python3
"""regenerates MANIFEST.json (run by hand after changing the set of checks)"""
import json, os
ROOT = os.path.dirname(os.path.dirname(os.path.abspath(__file__)))
P = "engine P: contracts on the real functions (source re-read from /repo on every run), symbolic execution to verification conditions, z3 5.1 (cvc5 for z3-unknowns) - unbounded"
B = "engine B: the same kind of contracts checked at run time on the real functions over exhaustively enumerated small scopes with an independent oracle - BOUNDED stand-in, never counted as proved"
KERNELS = {
 "C01": "NumpyFileReader.read_chunk/_get_buffer/__add_newline_to_end/__read_raw_chunk byte conservation (loop invariant; seek and gzip-carry modes; with and without entry marker) for an abstract cut function, incl. the line-number offset of a propagated format error; cut points of DelimitedBuffer.from_raw_buffer (last newline), OneLineBuffer.from_raw_buffer (two-line FASTA, FASTQ: last newline completing an entry) and MultiLineFastaBuffer.from_raw_buffer (last '>' at a line start)",
 "C02": "DelimitedBuffer._get_buffer_extractor / _modify_for_carriage_return: the field table (starts, ends, CR exclusion, entry starts/ends) for any rows x columns, LF and CRLF; OneLineBuffer._get_buffer_extractor for FASTA2/FASTQ (line roles, marker offset, CR stripped per line); VCFBuffer._get_field_by_number (POS-1 for column 1 only); TextBufferExtractor.get_digit_array: the digits-only matrix is chosen only when no field of the column starts with '+' or '-', sign masks per row",
 "C03": "MultiLineFastaBuffer.from_data wrapping arithmetic and line table for any width W>=1 (prefix of the function); NpBufferedWriter.write: header emitted iff due and the class invariant 'flag set iff header emitted' (8 instances) - hence the header is written exactly once over any sequence of writes; VCFBuffer.from_data / process_field_for_write (POS+1 on a new column, table untouched); OneLineBuffer.join_fields for 2 and 4 lines per entry (marker, field text and newline of every line at the prefix sums of the line lengths, written through the ragged view into the returned buffer)",
 "C04": "TextThroughputExtractor._make_contigous / __getitem__ / get_fields_by_range / concatenate (2 and 3 buffers): rows and fields kept, offsets re-based; BamBufferExtractor.__getitem__ / _make_contigous (binary records: selection and compaction keep every record's bytes; memoised field-offset tables held by the instance are those of the CURRENT layout after compaction)",
 "C05": "the store bookkeeping of the lazy table class built by create_lazy_class for a real entry type (__replace__, __setattr__, __getitem__, __getattr__) as finite-map VCs over every set/cached configuration: overlay and cache stay aligned, the operand is never modified",
 "C06": "AlphabetEncoding._initialize for an arbitrary alphabet of 1, 2 and 4 symbolic symbols against the spec lookup for every byte; _encode (raises iff a foreign byte) and _decode against that contract; DigitEncodingFactory._encode/_decode for every offset; the alphabet re-target rule of as_encoded_array",
 "C07": "strops.split (single separator): rows are exactly the text between consecutive separators (telescoping lemma by induction); strops.join (its inverse: row i at C(i)+i followed by the separator, final separator dropped unless keep_last); the re-target rule applied to an operand of another alphabet encoding by ==, != and assignment",
 "C08": "merge_intervals for sorted input and any distance >= 0: the result is the list of maximal runs (groups tile the input, every member lies inside its output row, no gap larger than the distance inside a group, consecutive rows more than the distance apart; the function's final assert is discharged); extend_to_size and clip (pointwise clauses); get_pileup: the run-length builder receives the caller's start / stop columns unchanged (every row) and the contig size, the empty table gives one zero run",
 "C09": "GenomicRunLengthArray.from_intervals event/value layout for all four prefix/postfix combinations; from_bedgraph (n >= 1, with and without size): gap, leading and trailing zero runs, row i becomes run i + gaps before i + [start_0 != 0]",
 "C10": "GlobalOffset: to_local_coordinates is the inverse of from_local_coordinates on valid positions, bounds errors, start_ends_from_intervals, to_local_interval never attributes a boundary-crossing interval; GenomicLocationGlobal.get_windows (flank / window_size) and GenomicIntervalsFull.clip stay inside the location's own chromosome; GenomicIntervalsFull.get_location (start / stop / center, stranded and unstranded) and extended_to_size (each row extended within its own chromosome's size)",
 "C11": "_chunk_entries generator: order and content preserved, every in-loop chunk has exactly n entries (obligations at every yield); io.parser.chunk_lines (nested loops) with the same clauses on the line abstraction; bincount_reduce (padded sum); streamable._args_stream (5 argument shapes): each stream's chunk goes into that stream's own argument slot, one call per chunk of the shortest stream",
 "C12": "GenomeContext._included_groups and GenomeContext.iter_chromosomes as generators with obligations at every yield: j-th table is the group named order(j) or empty, each group consumed once in order, completion implies nothing left over; streams.left_join (one triple per left group, right data joined only under the same name, left-overs raise); SynchedStream.__iter__ (k-th yield is contig k's group or the default, subscript in range, completion implies every group reached its own contig)",
 "C13": "trimming/row-locality arithmetic of RollableFunction.rolling_window and kmers.convolution for ragged input and any window >= 1; KmerEncoder.__call__/inverse: code = little-endian base-|A| number and renders back, for 14 concrete (|A|, k) pairs (each a full-domain proof); KmerEncoding.to_string: the digits taken out of a scalar code are the window's letters (8 pairs incl. |A| = 2, 3)",
 "C14": "ASCII complement table (both cases, involution), complement(ragged), get_reverse_complement(ragged), WindowFunction.windowed: translation goes codon by codon within a row (row starts are multiples of 3: lemma by induction); GenomicSequence.extract_intervals: row i is the extracted sequence on '+' and its reverse complement otherwise (row-wise np.where on ragged operands: assumed primitive)",
 "C15": "OneLineBuffer._validate (2 and 4 lines per entry) and FastQBuffer._validate: raises iff a record lacks its marker / '+' line, line number of the FIRST offender; NumpyFileReader.read_chunk adds the chunk's base line exactly once to a propagated format error; DelimitedBuffer._get_field_by_number: the row reported for a column encoding error contains the offending character (digit matrix and ragged text)",
 "C16": "BamBufferExtractor fixed-offset fields and derived variable-field offsets against the SAM spec table, _get_sequences (4-bit unpacking, high nibble first, trimmed to l_seq), _get_quality, _get_read_name (NUL dropped), _get_cigar (uint32 words, op = low 4 bits, length = word >> 4) - these four modularly over abstract offset arrays -, split_cigar, BamBuffer._find_starts (block_size chaining, maximality), count_reference_length (exactly M,D,N,=,X), alignment_to_interval (stop, strand bit 0x10)",
 "C17": "IndexedFasta.__getitem__ (row/column reshape against the faidx layout predicate), get_contig_lengths, create_index offset accumulation (2 and 3 chunks), get_interval_sequences: row lengths, allocation offsets, deleted positions = newline bytes (the content clause itself is bounded); _get_interval_sequences_fast: the same accounting clauses for the vectorised path; FastaIdxBuffer.get_data: name / offset / lenc / lenb / byte_size columns of the per-chunk index rows (partial correctness; the length column is bounded)",
 "C18": "the exact decimal digit count (_n_decimal_digits) for every magnitude below 2**63 (19-case split over the real table); str_to_int on a fixed-width digit matrix (widths 1, 2, 7, 19); _build_power_array for every batch; ints_to_strings (row length = digits + sign, '-' first, character k is the digit of its own row's exponent) modularly over those two; TextBufferExtractor.get_digit_array (dispatcher in front of the digit matrix: signed columns never reach the digits-only path)",
 "C19": "BNPDataClass.sort_by (one sorting permutation applied to every column, operand unmodified, given np.argsort's partial contract and the assumed column-wise indexing); add_fields (constructor receives the operand's columns plus the given ones, a given column wins); the re-target rule for pre-encoded columns; everything else of this property is npstructures / run-time class construction and is bounded",
 "C20": "frame conditions (heap model): str_to_int, str_to_float (callees that overwrite their argument only receive copies), merge_intervals; frame conditions of extend_to_size and clip (no write reaches a column of the caller's table, the result's start / stop columns are new arrays)",
}
BOUNDED_ONLY = {
}
checks = []
for i in range(1, 21):
    pid = "C%02d" % i
    if pid in KERNELS:
        level = {"category": "proof", "design_ref": "DESIGN.md section 4, %s; section 9 (as built)" % pid,
                 "text": "Proved for all inputs (obligations == discharged on every run, else the check does not exit 0): %s. "
                         "The clauses of the property outside these kernels are decided only by the bounded stand-in (evidence key coverage.bounded, "
                         "labelled bounded, not counted as proved) and are listed under coverage.not_proved." % KERNELS[pid]}
        note = ("trusted: the pyvc VC generator and its Python/NumPy subset semantics (DESIGN.md section 3), z3/cvc5, the assumed primitive contracts "
                "for NumPy/npstructures/io listed in the evidence, mathematical integers, no floats, termination not proved; callee/decorator "
                "assumptions are listed per contract file (contracts/%s.py ASSUMPTIONS)." % pid.lower())
        tech = "contract-based deductive verification (sidecar contracts -> VCs -> z3) of the listed kernels + bounded run-time contracts for the rest"
    else:
        level = {"category": "exploration", "design_ref": "DESIGN.md section 4, %s; section 5" % pid,
                 "text": "BOUNDED ONLY - nothing is proved for this property: %s. Run-time contracts (pre/postconditions from the property statement) on the "
                         "real functions over an exhaustively enumerated scope with an independent oracle. No function this property depends on could be "
                         "brought within the deductive engine's reach (object protocols / dynamic classes / npstructures internals / floating point): "
                         "see DESIGN.md section 5." % BOUNDED_ONLY[pid]}
        note = "bounded stand-in only; trusted: the reference models in rtc/ (written from the property statement and public format specs), enumeration bounds stated in the evidence"
        tech = "run-time contracts on the real functions over enumerated scopes (bounded stand-in of contract verification; labelled bounded)"
    checks.append({"property_id": pid, "quick_cmd": "./check %s" % pid, "thorough_cmd": "./check %s --tier thorough" % pid,
                   "evidence_file": "evidence/%s.json" % pid, "replay_cmd_template": "./check %s --replay {path}" % pid,
                   "engine": "pyvc+rtc" if pid in KERNELS else "rtc", "level_claimed": level, "level_note": note, "technique": tech})
m = {"version": 1, "setup_cmd": "./tools/setup.sh",
     "hooks": {"guard": "BIONUMPY_VERIF", "enable": "no hooks are needed: contracts are sidecar files (contracts/*.py); the functions are re-read from /repo's working tree on every run",
               "baseline_off_cmd": "cd /repo && /venv/bin/python -m pytest -ra -q -p no:cacheprovider --timeout=900 --continue-on-collection-errors",
               "source_commits": [], "add_only": True},
     "engines": [{"name": "pyvc", "path": "pyvc/", "serves_properties": sorted(KERNELS), "kind_free_text": P},
                 {"name": "rtc", "path": "rtc/", "serves_properties": ["C%02d" % i for i in range(1, 21)], "kind_free_text": B}],
     "checks": checks, "not_applicable": [],
     "notes": "exit codes of ./check: 0 held / 1 violation / 2 undecided (never mapped to a violation) / 3 checker crash. Genuine defects repaired in /repo: "
              "10 'fix:' commits (known_findings.json, status fixed). Recorded, unrepaired findings: known_findings.json (status known)."}
json.dump(m, open(os.path.join(ROOT, "MANIFEST.json"), "w"), indent=1)
print("wrote MANIFEST.json with", len(checks), "checks")
