"""Models of Python builtins, numpy functions, array/file methods and a few wrapper classes.

Each numpy / npstructures entry is an ASSUMED contract (listed by name in the evidence through
npmodel.USED); validated bounded against the real primitive by rtc/validate_prims.py.
"""
import builtins
import types
import z3
import numpy as _np

from . import core, npmodel as M
from .core import (I, B, conc, And, Or, Not, Implies, Ite, Min, Max, in_range, Forall, SArr, SArr2, SRagged,
                   SRec, SFile, SymList, Opaque, Buf, Unsupported, PathEnd, is_sym)

BUILTINS = {len, range, zip, int, bool, sum, all, any, isinstance, hasattr, min, max, ord, enumerate, list,
            tuple, str, abs, getattr, setattr, sorted, reversed, dict, set, bytes, chr, float, print, type, iter, next}
FUNC_MODELS = {}
CLASS_MODELS = {}


def func_model(qn):
    def deco(f):
        FUNC_MODELS[qn] = f
        return f
    return deco


def class_model(qn):
    def deco(f):
        CLASS_MODELS[qn] = f
        return f
    return deco


def ctx():
    return core.CUR


# =======================================================================================
def call_builtin(ip, fn, args, kwargs, lineno):
    from .interp import SymRange, SymZip, Closure
    c = ip.ctx
    if fn is len:
        (x,) = args
        if isinstance(x, (list, tuple, dict, str, bytes)):
            return len(x)
        if isinstance(x, SArr):
            return x.length
        if isinstance(x, SArr2):
            return x.rows
        if isinstance(x, SRagged):
            return x.n
        if isinstance(x, SymList):
            return x.count
        if isinstance(x, SRec):
            return ip.call_method(x, "__len__", [], {}, lineno)
        if hasattr(x, "sym_len"):
            return x.sym_len(ip)
        if isinstance(x, _np.ndarray):
            return len(x)
        raise Unsupported("len of %r" % (x,))
    if fn is range:
        vals = [conc(a) for a in args]
        if all(isinstance(v, int) for v in vals):
            return range(*vals)
        if len(vals) == 1:
            return SymRange(0, vals[0])
        if len(vals) == 2:
            return SymRange(vals[0], vals[1])
        raise Unsupported("range with symbolic step")
    if fn is vars:
        (x,) = args
        if isinstance(x, SRec):
            return {k: v for k, v in x._f.items() if not k.startswith("__lru__")}      # the instance dict (ghost memo entries are not in it)
        raise Unsupported("vars of %r" % (x,))
    if fn is zip:
        items = [ip.concrete_items(a) for a in args]
        if all(i is not None for i in items):
            n = min(len(i) for i in items) if items else 0
            if kwargs.get("strict") and any(len(i) != n for i in items):
                raise PathEnd("raise", "ValueError")
            return [tuple(i[k] for i in items) for k in range(n)]
        return SymZip(list(args))
    if fn is enumerate:
        items = ip.concrete_items(args[0])
        if items is None:
            n, at = ip.sym_iter(args[0])
            return SymList(n, lambda j: (j, at(j)))
        return list(enumerate(items))
    if fn in (int, bool):
        (x,) = args
        if isinstance(x, (bool, int)):
            return fn(x)
        if isinstance(x, z3.BoolRef):
            return x if fn is bool else I(x)
        if isinstance(x, z3.ArithRef):
            return x if fn is int else B(x)
        if isinstance(x, str) and fn is int:
            return int(x)
        if isinstance(x, SArr) and conc(x.length) == 1:
            return x.at(0)
        if hasattr(x, "item"):
            return fn(x)
        return ip.to_bool(x, lineno) if fn is bool else Unsupported
    if fn is sum:
        xs = ip.concrete_items(args[0])
        if xs is None:
            raise Unsupported("sum over a symbolic iterable")
        r = args[1] if len(args) > 1 else 0
        for x in xs:
            r = ip.binop("Add", r, x, lineno)
        return r
    if fn in (all, any):
        xs = ip.concrete_items(args[0])
        if xs is None:
            if isinstance(args[0], SymList):
                L = args[0]
                if fn is all:
                    return Forall(lambda k: Implies(in_range(k, L.count), B(L.at(k))))
            raise Unsupported("all/any over a symbolic iterable")
        bs = [ip.to_bool(x, lineno) for x in xs]
        if all(not is_sym(b) for b in bs):
            return fn(bs)
        return And(*bs) if fn is all else Or(*bs)
    if fn is isinstance:
        return model_isinstance(ip, args[0], args[1])
    if fn is hasattr:
        o, name = args
        if isinstance(o, SRec):
            if o.has(name):
                return True
            return o._cls is not None and hasattr(o._cls, name)
        if isinstance(o, type):
            return hasattr(o, name)
        if isinstance(o, SFile):
            return name in ("read", "seek", "readinto", "mode", "name") and (name != "name")
        if hasattr(o, "sym_hasattr"):
            return o.sym_hasattr(name)
        raise Unsupported("hasattr on %r" % (o,))
    if fn is getattr:
        try:
            return ip.getattr(args[0], args[1], lineno)
        except PathEnd:
            if len(args) > 2:
                return args[2]
            raise
    if fn is setattr:
        o, name, v = args
        if isinstance(o, SRec):
            custom = ip.custom_setattr(o)
            if custom is not None:
                return ip.call_real(custom[0], [o, name, v], {}, lineno, owner=custom[1])
            o.set(name, v)
            return None
        if hasattr(o, "setattr"):
            o.setattr(name, v)
            return None
        raise Unsupported("setattr on %r" % (o,))
    if fn in (min, max):
        xs = args if len(args) > 1 else ip.concrete_items(args[0])
        if xs is None:
            raise Unsupported("min/max of symbolic iterable")
        r = xs[0]
        for x in xs[1:]:
            if not is_sym(r) and not is_sym(x):
                r = fn(r, x)
            else:
                r = Min(r, x) if fn is min else Max(r, x)
        return r
    if fn is next:
        it = args[0]
        if not isinstance(it, SymIter):
            raise Unsupported("next() on %r" % (it,))
        if c.branch(I(it.pos) < I(it.n), lineno):
            v = it.pull(ip, it.pos)
            it.pos = conc(I(it.pos) + 1)
            return v
        if len(args) > 1:
            return args[1]
        raise PathEnd("raise", "StopIteration")
    if fn is ord:
        return args[0] if is_sym(args[0]) else ord(args[0])      # a symbolic character is represented by its code
    if fn is chr:
        return chr(args[0]) if not is_sym(args[0]) else Opaque("chr")
    if fn is abs:
        x = args[0]
        return abs(x) if not is_sym(x) else Ite(I(x) >= 0, x, -I(x))
    if fn in (list, tuple):
        if not args:
            return fn()
        xs = ip.concrete_items(args[0])
        if xs is None:
            if isinstance(args[0], (SymList, SArr)):
                return args[0]
            raise Unsupported("list() of symbolic iterable")
        return fn(xs)
    if fn is dict:
        return dict(*args, **kwargs)
    if fn is str:
        return Opaque("str")
    if fn is print:
        return None
    if fn is type:
        x = args[0]
        if isinstance(x, SRec):
            return x._cls
        raise Unsupported("type()")
    if fn is reversed:
        xs = ip.concrete_items(args[0])
        if xs is None:
            raise Unsupported("reversed symbolic")
        return list(reversed(xs))
    if fn is bytes:
        return args[0]
    if fn is set:
        xs = [] if not args else ip.concrete_items(args[0])
        if xs is None or any(is_sym(x) for x in xs):
            raise Unsupported("set() of symbolic content")
        return set(xs)
    raise Unsupported("builtin %s" % getattr(fn, "__name__", fn))


def model_isinstance(ip, v, cls):
    if isinstance(cls, tuple) and len(cls) == 2 and cls[0] == "np":
        cls = getattr(_np, cls[1])
    if isinstance(cls, tuple):
        rs = [model_isinstance(ip, v, k) for k in cls]
        return any(rs)
    if isinstance(v, SRec):
        return v._cls is not None and issubclass(v._cls, cls)
    if cls is int:
        return isinstance(v, (int, z3.ArithRef)) and not isinstance(v, bool)
    if cls is str:
        return isinstance(v, str)
    if cls in (list, tuple, dict, slice, bool):
        return isinstance(v, cls)
    if cls is _np.ndarray:
        return isinstance(v, (SArr, SArr2)) and getattr(v, "enc", None) is None
    name = getattr(cls, "__qualname__", "")
    if name == "EncodedArray":
        return isinstance(v, (SArr, SArr2)) and v.enc is not None
    if name in ("EncodedRaggedArray",):
        return isinstance(v, SRagged) and v.enc is not None
    if name in ("RaggedArray",):
        return isinstance(v, SRagged)
    if name in ("Number", "Integral"):
        return isinstance(v, (int, z3.ArithRef))
    if hasattr(v, "sym_isinstance"):
        return v.sym_isinstance(cls)
    if isinstance(v, (int, str, float, type(None), list, tuple, dict)):
        return isinstance(v, cls)
    raise Unsupported("isinstance(%r, %s)" % (v, name))


# =======================================================================================
# numpy functions

def as_arr(ip, x):
    if isinstance(x, (SArr, SArr2)):
        return x
    if isinstance(x, (list, tuple)):
        return ip.list_to_arr(x)
    if isinstance(x, SymList):
        return SArr.fresh(x.count, x.at, "int")
    if isinstance(x, _np.ndarray) and x.ndim == 1:
        return ip.list_to_arr([v.item() for v in x])
    raise Unsupported("array expected, got %r" % (x,))


NARROW = {"int8": (-2 ** 7, 2 ** 7), "int16": (-2 ** 15, 2 ** 15), "int32": (-2 ** 31, 2 ** 31), "uint16": (0, 2 ** 16), "uint32": (0, 2 ** 32)}


def _narrow(arr, kwargs):
    """np.empty/zeros/ones/full(..., dtype=np.int32 ...): the heap cell remembers its narrow integer type; every later store into it
    obliges "the value fits" (NumPy would wrap or raise: either breaks the mathematical-integer reading of the code)"""
    dt = kwargs.get("dtype")
    if isinstance(dt, tuple) and len(dt) == 2 and dt[0] == "np" and dt[1] in NARROW and isinstance(arr, SArr):
        arr.buf.dtype = dt[1]
    return arr


def call_np(ip, name, args, kwargs, lineno):
    c = ip.ctx
    fn = c.fname
    if name in ("empty", "zeros", "ones", "full"):
        shape = args[0] if args else kwargs["shape"]
        val = {"empty": None, "zeros": 0, "ones": 1}.get(name, args[1] if name == "full" else None)
        M.use("np.%s" % name)
        if isinstance(shape, tuple) and len(shape) == 2:
            if val is None:
                u = c.fresh_fun("uninit", 2)
                return SArr2.fresh(shape[0], shape[1], lambda i, j: u(I(i), I(j)))
            return SArr2.fresh(shape[0], shape[1], lambda i, j: val)
        if isinstance(shape, tuple):
            (shape,) = shape
        c.check("%s:alloc.nonneg@L%s" % (fn, lineno), I(shape) >= 0, "safety", lineno, "array size is non-negative")
        if val is None:
            u = c.fresh_fun("uninit")
            return _narrow(SArr.fresh(shape, lambda i: u(I(i))), kwargs)
        kind = "bool" if isinstance(val, bool) or kwargs.get("dtype") is bool else "int"
        return _narrow(SArr.fresh(shape, lambda i: val, kind), kwargs)
    if name == "arange":
        M.use("np.arange")
        vals = list(args)
        if len(vals) == 1:
            n = vals[0]
            c.check("%s:arange.nonneg@L%s" % (fn, lineno), I(n) >= 0, "safety", lineno) if is_sym(n) else None
            dt = kwargs.get("dtype")
            if isinstance(dt, tuple) and len(dt) == 2 and dt[0] == "np" and (dt[1] in NARROW or dt[1] == "uint8") and is_sym(n):
                hi = 256 if dt[1] == "uint8" else NARROW[dt[1]][1]
                c.check("%s:arange.fits.%s@L%s" % (fn, dt[1], lineno), I(n) <= hi, "safety", lineno, "np.arange(n, dtype=%s): every value fits the type" % dt[1])
            return SArr.fresh(n if not is_sym(n) else n, lambda i: I(i))
        if len(vals) == 2:
            lo, hi = vals
            return SArr.fresh(conc(Max(I(hi) - I(lo), 0)), lambda i: I(lo) + I(i))
        raise Unsupported("arange with step")
    if name in ("asanyarray", "asarray", "array", "atleast_1d", "ascontiguousarray"):
        x = args[0]
        if isinstance(x, (int, z3.ArithRef, bool, z3.BoolRef)):
            if name == "atleast_1d":
                return SArr.fresh(1, lambda i: x, "bool" if isinstance(x, (bool, z3.BoolRef)) else "int")
            return x
        a = as_arr(ip, x)
        if name == "array" and isinstance(x, (SArr, SArr2)):
            a = M.map1(lambda v: v, a)       # copy
        if kwargs.get("dtype") == ("np", "uint8") and isinstance(a, SArr):
            a.dtype = "uint8"
        return a
    if name == "frombuffer":
        return args[0]
    if name in ("uint8", "int64", "int32", "int8", "int16", "uint16", "uint32", "uint64", "int_", "intp"):
        return args[0] if args else Opaque("dtype")
    if name == "insert":
        a, pos, v = args[:3]
        a = as_arr(ip, a)
        p = conc(pos)
        M.use("np.insert (scalar position)")
        if isinstance(pos, list):
            pos = ip.list_to_arr(pos)
        if isinstance(v, list):
            v = ip.list_to_arr(v)
        if isinstance(pos, SArr):
            return np_insert_multi(ip, a, pos, v, lineno)
        if isinstance(v, SArr):
            raise Unsupported("np.insert of an array at a scalar position")
        f = a.snapshot()
        if isinstance(p, int) and p == 0:
            if hasattr(a, "prefix") and conc(v) == 0:
                C = a.prefix[0]           # insert(cumsum(x), 0, 0)[i] = C(i): the exclusive prefix sums themselves
                r = SArr.fresh(I(a.length) + 1, lambda i: C(I(i)), a.kind, a.enc)
                r.prefix_fn = a.prefix
                return r
            r = SArr.fresh(I(a.length) + 1, lambda i: Ite(I(i) == 0, v, f(I(i) - 1)), a.kind, a.enc)
            return r
        c.check("%s:insert.inbounds@L%s" % (fn, lineno), And(I(pos) >= 0, I(pos) <= I(a.length)), "safety", lineno)
        return SArr.fresh(I(a.length) + 1, lambda i: Ite(I(i) < I(pos), f(i), Ite(I(i) == I(pos), v, f(I(i) - 1))), a.kind, a.enc)
    if name == "append":
        a, v = args[:2]
        a = as_arr(ip, a)
        if isinstance(v, (list, tuple)):
            v = ip.list_to_arr(list(v))
        M.use("np.append")
        f = a.snapshot()
        if isinstance(v, SArr):
            g = v.snapshot()
            return SArr.fresh(I(a.length) + I(v.length), lambda i: Ite(I(i) < I(a.length), f(i), g(I(i) - I(a.length))), a.kind, a.enc)
        return SArr.fresh(I(a.length) + 1, lambda i: Ite(I(i) < I(a.length), f(i), v), a.kind, a.enc)
    if name == "cumsum":
        a = as_arr(ip, args[0])
        r = M.cumsum(a, lineno)
        dt = kwargs.get("dtype")
        if isinstance(dt, tuple) and len(dt) == 2 and dt[0] == "np" and dt[1] in NARROW:
            lo, hi = NARROW[dt[1]]
            fr = r.snapshot()
            c.oblige("%s:cumsum.fits.%s@L%s" % (fn, dt[1], lineno), Forall(lambda k: Implies(in_range(k, r.length), And(I(fr(k)) >= lo, I(fr(k)) < hi))), "safety", lineno,
                     "np.cumsum(..., dtype=%s): every partial sum fits the type" % dt[1])
        if kwargs.get("out") is not None:
            out = kwargs["out"]
            ip.store_view(out, r.snapshot(), lineno)
            return out
        return r
    if name == "concatenate":
        xs = args[0]
        if isinstance(xs, (list, tuple)) and xs and all(isinstance(x, STable) for x in xs):
            # np.concatenate of tables: column-wise concatenation (bnpdataclass, assumed - C19)
            M.use("np.concatenate(list of tables) concatenates every column (bnpdataclass, assumed)")
            cols = {}
            for k in xs[0].cols:
                vals = [x.cols[k] for x in xs]
                cols[k] = concat_list(vals) if all(isinstance(v, SArr) for v in vals) else Opaque("concatenated column " + k)
            n = xs[0].n
            for x in xs[1:]:
                n = conc(I(n) + I(x.n))
            return STable(cols, n, xs[0].cls)
        if isinstance(xs, (list, tuple)):
            arrs = [as_arr(ip, x) for x in xs]
            return concat_list(arrs)
        if hasattr(xs, "cat"):
            return xs.cat          # abstract list of arrays tracked by its concatenation (contracts/c01.py CatList)
        raise Unsupported("np.concatenate of a symbolic list (needs contract support)")
    if name in ("all", "any") and isinstance(args[0], SRagged) and kwargs.get("axis") == -1:
        M.use("np.any/np.all over the rows of a ragged boolean array (row-wise, abstract)")
        u = c.fresh_fun("row_" + name, rng="bool")
        return SArr.fresh(args[0].n, lambda i: u(I(i)), "bool")
    if name == "maximum.accumulate":
        a = as_arr(ip, args[0])
        M.use("np.maximum.accumulate (running maximum: a NEW array)")
        fa = a.snapshot()
        R = c.fresh_fun("runmax")
        c.assume(Forall(lambda t: Implies(in_range(t, a.length), R(t) == Ite(I(t) == 0, I(fa(0)), Max(R(I(t) - 1), I(fa(t))))), triggers=[R], name="runmax.rec"))
        return SArr.fresh(a.length, lambda t: R(I(t)))
    if name in ("all", "any"):
        a = args[0]
        if isinstance(a, (bool, z3.BoolRef)):
            return a
        if isinstance(a, SArr):
            f = a.snapshot()
            n = a.length
            cn = conc(n)
            if isinstance(cn, int) and cn <= 16:
                bs = [B(f(i)) for i in range(cn)]
                return (And(*bs) if name == "all" else Or(*bs)) if bs else (name == "all")
            if name == "all":
                M.use("np.all (universal quantifier)")
                return Forall(lambda k: Implies(in_range(k, n), B(f(k))))
            M.use("np.any (Skolem witness)")
            r = c.fresh_bool("any")
            w = c.fresh_int("anyw")
            # r <-> exists k. f(k):  r -> f(w) for a witness w;  f(k) -> r for every k (instantiated at the
            # skolem constants of the goal and at the indices the query mentions)
            c.assume(Implies(r, And(in_range(w, n), B(f(w)))))
            c.assume(Forall(lambda k: Implies(And(in_range(k, n), B(f(k))), r), triggers=[], name="any.intro"))
            c.ghost.setdefault("any_witness", []).append((r, w))
            c.index_terms.append(w)
            return r
        if isinstance(a, SArr2):
            f = a.snapshot2()
            if name == "all":
                return Forall(lambda i, j: Implies(And(in_range(i, a.rows), in_range(j, a.cols)), B(f(i, j))), nvars=2)
        raise Unsupported("np.%s on %r" % (name, a))
    if name in ("minimum", "maximum"):
        a, b = args
        op = Min if name == "minimum" else Max
        if M.is_arr(a) or M.is_arr(b):
            return M.elementwise(lambda x, y: op(x, y), a, b, "int", lineno)
        return op(a, b)
    if name == "clip" and len(args) == 3 and not kwargs:
        # np.clip(a, lo, hi) = minimum(maximum(a, lo), hi)  (NumPy's definition, also when lo > hi); None = no bound on that side
        a, lo, hi = args
        r = a
        if lo is not None:
            r = M.elementwise(lambda x, y: Max(x, y), r, lo, "int", lineno) if (M.is_arr(r) or M.is_arr(lo)) else Max(r, lo)
        if hi is not None:
            r = M.elementwise(lambda x, y: Min(x, y), r, hi, "int", lineno) if (M.is_arr(r) or M.is_arr(hi)) else Min(r, hi)
        return r
    if name == "where" and len(args) == 3 and isinstance(args[0], SArr2) and isinstance(args[1], SRagged) and isinstance(args[2], SRagged):
        # np.where((n,1) boolean column, ragged, ragged): the column chooses ROW by row between two ragged arrays of the same shape
        # (npstructures broadcasts the column along each row; both operands must have the same row lengths: obligation).  A new array.
        cnd, a, b = args
        if conc(cnd.cols) != 1:
            raise Unsupported("np.where on ragged operands needs an (n, 1) condition")
        M.use("np.where((n,1) mask, ragged, ragged): row-wise choice between two ragged arrays of the same shape")
        M.same_len(cnd.rows, a.n, "where.rows", lineno)
        M.same_len(a.n, b.n, "where.rows", lineno)
        la, lb, fc = a.lens, b.lens, cnd.snapshot2()
        ip.ctx.oblige("%s:where.same.row.lengths@L%s" % (ip.ctx.fname, lineno), Forall(lambda i: Implies(in_range(i, a.n), I(la(i)) == I(lb(i)))), "safety", lineno)
        fa, fb = a.at, b.at
        out = SRaggedObj(None, a.n, a.starts, a.lens, a.enc if a.enc is not None else b.enc, a.total, a.contiguous, getattr(a, "C", None))
        out.at = lambda i, k: Ite(B(fc(i, 0)), fa(i, k), fb(i, k))
        return out
    if name == "where":
        if len(args) == 3:
            cnd, a, b = args
            if isinstance(cnd, SArr):
                fc = cnd.snapshot()
                fa = a.snapshot() if isinstance(a, SArr) else (lambda i: a)
                fb = b.snapshot() if isinstance(b, SArr) else (lambda i: b)
                for x in (a, b):
                    if isinstance(x, SArr):
                        M.same_len(cnd.length, x.length, "where", lineno)
                kind = "bool" if all(getattr(x, "kind", None) == "bool" or isinstance(x, (bool, z3.BoolRef)) for x in (a, b)) else "int"
                enc = getattr(a, "enc", None) or getattr(b, "enc", None)
                return SArr.fresh(cnd.length, lambda i: Ite(B(fc(i)), fa(i), fb(i)), kind, enc)
            return Ite(B(cnd), a, b)
        raise Unsupported("np.where with one argument")
    if name == "flatnonzero":
        return M.flatnonzero(as_arr(ip, args[0]), lineno)
    if name == "abs" or name == "absolute":
        a = args[0]
        if M.is_arr(a):
            return M.map1(lambda x: Ite(I(x) >= 0, x, -I(x)), a)
        return Ite(I(a) >= 0, a, -I(a))
    if name == "sum":
        a = args[0]
        if isinstance(a, SArr):
            return arr_sum(a)
        raise Unsupported("np.sum")
    if name == "hstack":
        parts = args[0]
        if isinstance(parts, (list, tuple)) and parts and all(isinstance(x, SArr2) and conc(x.cols) == 1 for x in parts):
            M.use("np.hstack of column vectors")
            for x in parts[1:]:
                M.same_len(parts[0].rows, x.rows, "hstack.rows", lineno)
            fs = [x.snapshot2() for x in parts]
            F = len(fs)

            def at2(i, j, fs=fs, F=F):
                cj = conc(j)
                if isinstance(cj, int):
                    return fs[cj](i, 0) if 0 <= cj < F else 0
                r = fs[-1](i, 0)
                for t in range(F - 2, -1, -1):
                    r = Ite(I(j) == t, fs[t](i, 0), r)
                return r
            return SArr2.fresh(parts[0].rows, F, at2)
        raise Unsupported("np.hstack")
    if name == "diff":
        a = as_arr(ip, args[0])
        f = a.snapshot()
        return SArr.fresh(conc(Max(I(a.length) - 1, 0)), lambda i: I(f(I(i) + 1)) - I(f(i)))
    if name == "count_nonzero":
        a = as_arr(ip, args[0])
        _, m = M.flatnonzero_facts(a if a.kind == "bool" else M.map1(lambda x: I(x) != 0, a, "bool"))
        return m
    if name == "delete":
        return np_delete(ip, args[0], args[1], lineno)
    if name == "broadcast_to":
        v, shape = args
        if isinstance(shape, tuple) and len(shape) == 1:
            return SArr.fresh(shape[0], lambda i: v)
        raise Unsupported("broadcast_to")
    if name == "searchsorted":
        return searchsorted(ip, args[0], args[1], kwargs.get("side", args[2] if len(args) > 2 else "left"), lineno)
    if name == "lib.stride_tricks.sliding_window_view":
        a, w = args[0], args[1]
        M.use("sliding_window_view(a, w): windows[p, j] = a[p + j], N-w+1 windows (w <= N else ValueError)")
        if not c.branch(I(w) <= I(a.length), lineno):
            raise PathEnd("raise", "ValueError")
        c.check("%s:window.positive@L%s" % (fn, lineno), I(w) >= 1, "safety", lineno, "window size >= 1")
        f = a.snapshot()
        return SArr2.fresh(conc(I(a.length) - I(w) + 1), w, lambda p, j: f(I(p) + I(j)), a.kind, a.enc)
    if name == "argsort" and len(args) == 1 and isinstance(args[0], SArr):
        # PARTIAL contract: some permutation p of 0..n-1 (bijection via an inverse Skolem function) with a[p] non-decreasing.
        # (which permutation among equal keys is chosen - stability - is not specified)
        M.use("np.argsort: a sorting permutation (PARTIAL: tie order unspecified)")
        a = args[0]
        fa, n = a.snapshot(), a.length
        p, inv = c.fresh_fun("argsort"), c.fresh_fun("argsort_inv")
        c.assume(Forall(lambda i: Implies(in_range(i, n), And(in_range(p(i), n), inv(p(i)) == i,
                                                             Implies(I(i) + 1 < I(n), I(fa(p(i))) <= I(fa(p(I(i) + 1)))))), triggers=[p], name="argsort.perm"))
        c.assume(Forall(lambda j: Implies(in_range(j, n), And(in_range(inv(j), n), p(inv(j)) == j)), triggers=[inv], name="argsort.onto"))
        r = SArr.fresh(n, lambda i: p(I(i)))
        r.argsort_of = (p, inv, fa, n)
        return r
    if name == "lexsort" and isinstance(args[0], (list, tuple)) and 1 <= len(args[0]) <= 4 and all(isinstance(k, SArr) for k in args[0]):
        # PARTIAL contract: a permutation p of 0..n-1 (bijection via an inverse Skolem function) such that consecutive rows are in non-decreasing
        # lexicographic order of (keys[-1], ..., keys[0]) - the LAST key is the primary one (NumPy).  Tie order (stability) is not specified.
        M.use("np.lexsort: a lexicographically sorting permutation, last key primary (PARTIAL: tie order unspecified)")
        keys = list(args[0])
        n = keys[0].length
        for k in keys[1:]:
            M.same_len(n, k.length, "lexsort.keys", lineno)
        fs = [k.snapshot() for k in reversed(keys)]           # primary first
        p, inv = c.fresh_fun("lexsort"), c.fresh_fun("lexsort_inv")

        def leq(a, b):
            r = z3.BoolVal(True)
            for f in reversed(fs):
                r = Or(I(f(a)) < I(f(b)), And(I(f(a)) == I(f(b)), r))
            return r
        c.assume(Forall(lambda i: Implies(in_range(i, n), And(in_range(p(i), n), inv(p(i)) == i, Implies(I(i) + 1 < I(n), leq(p(i), p(I(i) + 1))))), triggers=[p], name="lexsort.perm"))
        c.assume(Forall(lambda j: Implies(in_range(j, n), And(in_range(inv(j), n), p(inv(j)) == j)), triggers=[inv], name="lexsort.onto"))
        r = SArr.fresh(n, lambda i: p(I(i)))
        r.argsort_of = (p, inv, fs[0], n)
        return r
    if name == "lexsort" or name == "argsort" or name == "sort":
        raise Unsupported("np.%s (partial contract only; bounded)" % name)
    if name == "logical_and":
        return ip.binop("BitAnd", args[0], args[1], lineno)
    if name == "logical_or":
        return ip.binop("BitOr", args[0], args[1], lineno)
    if name == "logical_not":
        return M.map1(lambda x: Not(x), args[0], "bool")
    raise Unsupported("numpy function np.%s" % name)


class AnyResult:
    """np.any(mask): a boolean r with  r -> mask[w] for a witness w, and  mask[k] -> r  for all k
    (the second half is instantiated at every index the query mentions)."""

    def __init__(self, r, f, n):
        self.r, self.f, self.n = r, f, n


def arr_sum(a):
    """np.sum / .sum(): T(n) of the exclusive prefix-sum function. EXACT (recurrence)."""
    M.use("sum (recurrence)")
    f = a.snapshot()
    C = M.exclusive_prefix(f, a.length, a)
    M.maybe_monotone(C, f, a.length)
    ctx().ghost.setdefault("sums", []).append((C, f, a.length))
    return C(I(a.length))


def array_extreme(ip, a, name, lineno):
    """a.max() / a.min() / np.max(a) of a non-empty 1-D array (obligation): an element of the array (Skolem witness) that bounds every
    element.  EXACT under the obligation (NumPy raises ValueError for an empty array)."""
    M.use("ndarray.%s (attained bound, witness)" % name)
    c = ip.ctx
    f, n = a.snapshot(), a.length
    c.check("%s:%s.of.nonempty@L%s" % (c.fname, name, lineno), I(n) >= 1, "safety", lineno, "max/min of an empty array raises")
    r, w = c.fresh_int("arr" + name), c.fresh_int(name + "_at")
    c.assume(in_range(w, n), I(f(w)) == r)
    c.index_terms.append(w)
    sch = Forall(lambda k: Implies(in_range(k, n), (I(f(k)) <= r) if name == "max" else (I(f(k)) >= r)), triggers=[], name="array.%s.bounds" % name)
    c.assume(sch)
    return r


def concat_list2(arrs, lineno):
    """row-wise concatenation of 2-D arrays with equal column counts (obligation)"""
    M.use("np.concatenate (list of fixed count)")
    cols = arrs[0].cols
    for a in arrs[1:]:
        M.same_len(cols, a.cols, "concatenate.cols", lineno)
    fs = [a.snapshot2() for a in arrs]
    offs = [0]
    for a in arrs:
        offs.append(conc(I(offs[-1]) + I(a.rows)))

    def at2(i, j):
        r = fs[-1](I(i) - I(offs[len(fs) - 1]), j)
        for k in range(len(fs) - 2, -1, -1):
            r = Ite(I(i) < I(offs[k + 1]), fs[k](I(i) - I(offs[k]), j), r)
        return r
    return SArr2.fresh(offs[-1], cols, at2, arrs[0].kind, arrs[0].enc)


def concat_list(arrs):
    M.use("np.concatenate (list of fixed count)")
    if arrs and all(isinstance(a, SArr2) for a in arrs):
        return concat_list2(arrs, None)
    if not arrs:
        return SArr.fresh(0, lambda i: 0)
    fs = [a.snapshot() for a in arrs]
    lens = [a.length for a in arrs]
    offs = [0]
    for l in lens:
        offs.append(conc(I(offs[-1]) + I(l)))

    def at(i):
        r = fs[-1](I(i) - I(offs[len(fs) - 1]))
        for k in range(len(fs) - 2, -1, -1):
            r = Ite(I(i) < I(offs[k + 1]), fs[k](I(i) - I(offs[k])), r)
        return r
    kind = arrs[0].kind
    r = SArr.fresh(offs[-1], at, kind, arrs[0].enc)
    # ghost: the parts (frozen content) - flatnonzero / boolean indexing with a concatenated mask is defined part by part
    r.concat_parts = [SArr.fresh(l, f, a.kind) for a, f, l in zip(arrs, fs, lens)]
    return r


def np_insert_multi(ip, a, idxs, vals, lineno):
    """np.insert(a, idxs, vals) for a strictly increasing index array idxs in [0, n] (both obligations) and vals a scalar or an array of
    the same length: result length n + m; inserted element j sits at position idxs[j] + j; the originals keep their order.
    Given through a Skolem function e(q) = number of inserted positions strictly before q (unique because idxs[j] + j is strictly
    increasing):  result[q] = vals[e(q)] if idxs[e(q)] + e(q) == q else a[q - e(q)].  EXACT under the obligations."""
    M.use("np.insert (strictly increasing index array)")
    c = ip.ctx
    fi, m, n = idxs.snapshot(), idxs.length, a.length
    fn = c.fname
    c.oblige("%s:insert.inbounds@L%s" % (fn, lineno), Forall(lambda k: Implies(in_range(k, m), And(I(fi(k)) >= 0, I(fi(k)) <= I(n)))), "safety", lineno,
             "insertion points are inside the array")
    c.oblige("%s:insert.increasing@L%s" % (fn, lineno), Forall(lambda k: Implies(And(in_range(k, m), k + 1 < I(m)), I(fi(k)) < I(fi(k + 1)))), "safety", lineno,
             "insertion points strictly increasing (equal points would be inserted in argument order: not modelled)")
    fa = a.snapshot()
    if isinstance(vals, SArr):
        M.same_len(m, vals.length, "insert.values", lineno)
        fv = vals.snapshot()
    else:
        fv = lambda k: vals
    e = c.fresh_fun("inse")
    total = conc(I(n) + I(m))
    c.assume(Forall(lambda q: Implies(in_range(q, total),
                                      And(e(q) >= 0, e(q) <= I(m),
                                          Implies(e(q) > 0, I(fi(e(q) - 1)) + e(q) - 1 < I(q)),
                                          Implies(e(q) < I(m), I(fi(e(q))) + e(q) >= I(q)))),
                    triggers=[e], name="insert.count"))
    is_ins = lambda q: And(e(I(q)) < I(m), I(fi(e(I(q)))) + e(I(q)) == I(q))
    r = SArr.fresh(total, lambda q: Ite(is_ins(q), fv(e(I(q))), fa(I(q) - e(I(q)))), a.kind, a.enc)
    r.insert_of = (e, fi, m, n)
    return r


def np_delete(ip, a, idxs, lineno):
    """np.delete(a, idxs) for a strictly increasing, in-bounds index list idxs (both obligations):
    result length n-m; survivor p is a[p + d(p)] where d(p) = number of deleted positions <= p + d(p),
    characterised by a Skolem function.  EXACT under the two obligations."""
    M.use("np.delete (strictly increasing index list)")
    c = ip.ctx
    a = as_arr(ip, a)
    if isinstance(idxs, list):
        idxs = ip.list_to_arr(idxs)
    if isinstance(idxs, SymList):
        idxs = SArr.fresh(idxs.count, idxs.at)
    if not isinstance(idxs, SArr):
        raise Unsupported("np.delete index")
    fi, m, n = idxs.snapshot(), idxs.length, a.length
    fn = c.fname
    c.oblige("%s:delete.inbounds@L%s" % (fn, lineno),
             Forall(lambda k: Implies(in_range(k, m), in_range(fi(k), n))), "safety", lineno,
             "deleted positions are inside the array")
    c.oblige("%s:delete.increasing@L%s" % (fn, lineno),
             Forall(lambda k: Implies(And(in_range(k, m), k + 1 < I(m)), I(fi(k)) < I(fi(k + 1)))), "safety", lineno,
             "deleted positions strictly increasing (no duplicates)")
    fa = a.snapshot()
    d = c.fresh_fun("deld")     # d(p): number of deleted positions before survivor p  (0..m)
    # survivor p sits at original position p + d(p):  idx[d(p)-1] < p + d(p) < idx[d(p)]
    c.assume(Forall(lambda p: Implies(in_range(p, I(n) - I(m)),
                                      And(d(p) >= 0, d(p) <= I(m),
                                          Implies(d(p) > 0, I(fi(d(p) - 1)) < I(p) + d(p)),
                                          Implies(d(p) < I(m), I(p) + d(p) < I(fi(d(p)))))),
                    triggers=[d], name="delete.survivor"))
    r = SArr.fresh(I(n) - I(m), lambda p: fa(I(p) + d(I(p))), a.kind, a.enc)
    r.delete_of = (d, fi, m, n)
    return r


def searchsorted(ip, table, x, side, lineno):
    """np.searchsorted(table, x, side): bracketing contract for a non-decreasing table.
    side='right': r in [0,n], table[r-1] <= x < table[r];  side='left': table[r-1] < x <= table[r].
    Adjacent sortedness of the table (table[k] <= table[k+1]) is an OBLIGATION; from it the engine lemma
    "adjacent-monotone on an integer interval implies monotone" (induction on the distance) gives
    table[a] <= table[b] for a <= b, instantiated for the occurrences in the query.  EXACT."""
    M.use("np.searchsorted (bracketing; needs sorted table)")
    from .core import PairForall
    c = ip.ctx
    table = as_arr(ip, table)
    ft, n = table.snapshot(), table.length
    T = getattr(table, "_sorted_T", None)
    if T is None:
        c.oblige("%s:searchsorted.sorted@L%s" % (c.fname, lineno),
                 Forall(lambda k: Implies(And(in_range(k, n), k + 1 < I(n)), I(ft(k)) <= I(ft(k + 1)))), "safety", lineno,
                 "table passed to searchsorted is non-decreasing")
        T = c.fresh_fun("sortedtab")
        c.assume(Forall(lambda k: Implies(in_range(k, n), T(k) == I(ft(k))), triggers=[T], name="sortedtab.def"))
        c.assume(PairForall(T, lambda a, b: Implies(And(in_range(a, n), in_range(b, n), a <= b), T(a) <= T(b)),
                            name="sortedtab.monotone (engine lemma: adjacent => global)"))
        table._sorted_T = T
    R = c.fresh_fun("ssorted")

    def one(v):
        r = R(I(v))
        if side == "right":
            c.assume(And(r >= 0, r <= I(n), Implies(r > 0, T(r - 1) <= I(v)), Implies(r < I(n), I(v) < T(r))))
        else:
            c.assume(And(r >= 0, r <= I(n), Implies(r > 0, T(r - 1) < I(v)), Implies(r < I(n), I(v) <= T(r))))
        return r
    if isinstance(x, SArr):
        fx = x.snapshot()
        return SArr.fresh(x.length, lambda i: one(fx(i)))
    return one(x)


# =======================================================================================
# methods

def call_method(ip, obj, fam, name, args, kwargs, lineno):
    c = ip.ctx
    if fam == "arr":
        a = obj
        if name == "ravel" or name == "flatten":
            return a if name == "ravel" else M.map1(lambda v: v, a)
        if name == "copy":
            return M.map1(lambda v: v, a)
        if name == "view" and args and isinstance(args[0], tuple) and args[0][0] == "np" and args[0][1] in VIEW_DTYPES:
            return view_as(ip, a, args[0][1], lineno)
        if name == "astype" or name == "view":
            t = args[0] if args else None
            if t is bool or t is builtins.bool:
                if a.kind == "bool":
                    return a
                return M.map1(lambda v: I(v) != 0, a, "bool")
            if a.kind == "bool" and t is int:
                return M.map1(lambda v: I(v), a, "int")
            return a if name == "view" else M.map1(lambda v: v, a)
        if name == "reshape":
            shape = args[0] if len(args) == 1 and isinstance(args[0], tuple) else tuple(args)
            return reshape1(ip, a, shape, lineno)
        if name == "sum":
            return arr_sum(a)
        if name == "raw":
            return a.with_(enc=None)
        if name == "tolist":
            items = ip.concrete_items(a)
            if items is None:
                raise Unsupported("tolist of symbolic array")
            return items
        if name in ("any", "all"):
            return call_np(ip, name, [a], {}, lineno)
        if name == "max" or name == "min":
            return array_extreme(ip, a, name, lineno)
        raise Unsupported("array method %s" % name)
    if fam == "arr2":
        a = obj
        if name == "dot":
            # (n, k) matrix . vector of concrete length k: row-wise dot product.  EXACT.
            v = args[0]
            k = conc(a.cols)
            if not (isinstance(v, SArr) and isinstance(k, int) and conc(v.length) == k):
                raise Unsupported("dot with a vector of symbolic length")
            M.use("ndarray.dot (matrix . vector of concrete length)")
            f2, fv = a.snapshot2(), v.snapshot()
            def at(i):
                r = z3.IntVal(0)
                for j in range(k):
                    r = r + I(f2(i, j)) * I(fv(j))
                return r
            return SArr.fresh(a.rows, at)
        if name == "data":
            return a
        if name == "sum":
            ax = kwargs.get("axis", args[0] if args else None)
            k = conc(a.cols)
            if conc(ax) in (-1, 1) and isinstance(k, int) and k <= 16:
                M.use("2-D sum over a concrete number of columns (axis=-1)")
                f2 = a.snapshot2()

                def at(i, f2=f2, k=k):
                    r = z3.IntVal(0)
                    for j in range(k):
                        r = r + I(f2(i, j))
                    return r
                return SArr.fresh(a.rows, at)
            raise Unsupported("2-D sum with axis %r" % (ax,))
        if name == "ravel":
            return ravel2(ip, a, lineno)
        if name == "copy":
            f = a.snapshot2()
            return SArr2.fresh(a.rows, a.cols, f, a.kind, a.enc)
        if name == "reshape":
            raise Unsupported("reshape of 2-D")
        if name == "raw":
            r = SArr2(a.buf, a.rows, a.cols, a.start, a.rstride, a.cstride, a.kind, None)
            if a.buf is None:
                r._at2 = a._at2
            return r
        raise Unsupported("2-D array method %s" % name)
    if fam == "file":
        return file_method(ip, obj, name, args, kwargs, lineno)
    if fam == "py":
        if isinstance(obj, list):
            if name == "append":
                obj.append(args[0]); return None
            if name == "extend":
                obj.extend(ip.concrete_items(args[0])); return None
            if name == "pop":
                return obj.pop(*args)
        if isinstance(obj, dict):
            if name == "items":
                return list(obj.items())
            if name == "keys":
                return list(obj.keys())
            if name == "values":
                return list(obj.values())
            if name == "get":
                return obj.get(ip.hashable(args[0]), args[1] if len(args) > 1 else None)
            if name == "update":
                for a in args:
                    obj.update(a)
                obj.update(kwargs)
                return None
            if name == "copy":
                return dict(obj)
            if name == "pop":
                return obj.pop(ip.hashable(args[0]), *args[1:])
        if isinstance(obj, str):
            return getattr(obj, name)(*args)
        raise Unsupported("method %s on %s" % (name, type(obj).__name__))
    raise Unsupported("method family %s" % fam)


VIEW_DTYPES = {"uint16": (2, False), "int16": (2, True), "uint32": (4, False), "int32": (4, True), "uint64": (8, False), "int64": (8, True)}


def view_as(ip, a, dtype, lineno):
    """uint8 array .view(<intN>): little-endian composition of nb consecutive bytes (host is little-endian: ASSUMED);
    signed types by two's complement.  Bytes are values 0..255 (type invariant of uint8 arrays)."""
    M.use("ndarray.view(intN) of a byte array = little-endian composition (little-endian host)")
    c = ip.ctx
    nb, signed = VIEW_DTYPES[dtype]
    q, r = c.divmod_(a.length, nb, lineno)
    c.check("%s:view.size@L%s" % (c.fname, lineno), I(r) == 0, "safety", lineno, "byte count divisible by the item size")
    f = a.snapshot()

    def at(i):
        v = z3.IntVal(0)
        for b in range(nb):
            v = v + I(f(nb * I(i) + b)) * (256 ** b)
        if signed:
            v = z3.If(v >= 2 ** (8 * nb - 1), v - 2 ** (8 * nb), v)
        return v
    return SArr.fresh(q, at, "int", None)


def reshape1(ip, a, shape, lineno):
    """1-D -> 2-D reshape (a VIEW for a contiguous array): size compatibility is an obligation. EXACT."""
    M.use("reshape (structural row-major view)")
    c = ip.ctx
    if len(shape) == 1:
        return a
    if len(shape) != 2:
        raise Unsupported("reshape to %d-D" % len(shape))
    r, cc = shape
    if conc(r) == -1:
        q, rem = c.divmod_(a.length, cc, lineno)
        c.check("%s:reshape.size@L%s" % (c.fname, lineno), I(rem) == 0, "safety", lineno,
                "array size divisible by the number of columns")
        r = q
    elif conc(cc) == -1:
        q, rem = c.divmod_(a.length, r, lineno)
        c.check("%s:reshape.size@L%s" % (c.fname, lineno), I(rem) == 0, "safety", lineno)
        cc = q
    else:
        c.check("%s:reshape.size@L%s" % (c.fname, lineno), I(r) * I(cc) == I(a.length), "safety", lineno,
                "rows*cols equals the array size")
    if not (isinstance(a.step, int) and a.step == 1):
        f = a.snapshot()
        return SArr2.fresh(r, cc, lambda i, j: f(I(i) * I(cc) + I(j)), a.kind, a.enc)
    return SArr2(a.buf, r, cc, a.start, cc, 1, a.kind, a.enc)


def ravel2(ip, a, lineno):
    """ravel of a 2-D array: element p is (p // cols, p % cols); a copy unless contiguous. EXACT."""
    M.use("ravel (row-major)")
    c = ip.ctx
    n = conc(I(a.rows) * I(a.cols))
    if a.buf is not None and conc(a.cstride) == 1:
        same = conc(I(a.rstride) == I(a.cols)) if is_sym(I(a.rstride) == I(a.cols)) else (a.rstride == a.cols)
        if same is True:
            return SArr(a.buf, n, a.start, 1, a.kind, a.enc)
    f2 = a.snapshot2()
    cols = a.cols
    ccols = conc(cols)
    if isinstance(ccols, int) and ccols == 1:
        r1 = SArr.fresh(a.rows, lambda p: f2(p, 0), a.kind, a.enc)
        return r1

    cache = c.ghost.setdefault("ravel2_cache", {})
    key = (id(f2), z3.simplify(I(cols)).get_id())
    if key in cache:
        at = cache[key][0]                 # the same element function for the same (unmodified) matrix: prefix sums etc. are shared
    else:
        def at(p):
            q, r = M._divmod_noassert(p, cols)
            return f2(q, r)
        cache[key] = (at, f2)
    r = SArr.fresh(n, at, a.kind, a.enc)
    r.ravel_of = (f2, a.rows, cols)
    return r


def file_method(ip, f, name, args, kwargs, lineno):
    """CPython io contract (ASSUMED): see core.SFile."""
    c = ip.ctx
    M.use("io read/seek/readinto on a ghost byte function")
    if name == "seek":
        off = args[0]
        whence = args[1] if len(args) > 1 else 0
        if conc(whence) == 0:
            c.check("%s:seek.nonneg@L%s" % (c.fname, lineno), I(off) >= 0, "safety", lineno, "seek target >= 0")
            f.pos = off
        elif conc(whence) == 1:
            f.pos = conc(I(f.pos) + I(off))
            c.check("%s:seek.nonneg@L%s" % (c.fname, lineno), I(f.pos) >= 0, "safety", lineno, "seek target >= 0")
        else:
            raise Unsupported("seek whence")
        return f.pos
    if name == "read":
        pos = f.pos
        avail = Max(I(f.length) - I(pos), 0)
        n = conc(Min(args[0], avail)) if args and args[0] is not None else conc(avail)
        if args and args[0] is not None:
            c.check("%s:read.nonneg@L%s" % (c.fname, lineno), I(args[0]) >= 0, "safety", lineno, "read size >= 0")
        fat = f.at_
        r = SArr.fresh(n, lambda i, pos=pos: fat(I(pos) + I(i)))
        f.pos = conc(I(pos) + I(n))
        f.reads.append((pos, n, args[0] if args else None))
        return r
    if name == "readinto":
        view = args[0]
        pos = f.pos
        n = conc(Min(view.length, Max(I(f.length) - I(pos), 0)))
        fat = f.at_
        sub = M.slice1(view, 0, n, None, lineno)
        ip.store_view(sub, lambda i, pos=pos: fat(I(pos) + I(i)), lineno)
        f.pos = conc(I(pos) + I(n))
        f.reads.append((pos, n, view.length))
        return n
    if name == "close":
        return None
    if name == "write":
        f.writes = getattr(f, "writes", []) + [args[0]]
        return None
    raise Unsupported("file method %s" % name)


# =======================================================================================
# transparent wrapper classes (assumption: EncodedArray / EncodedRaggedArray only re-wrap)

@class_model("bionumpy.encoded_array.EncodedArray")
def _encoded_array(ip, args, kwargs, lineno):
    data = args[0]
    enc = args[1] if len(args) > 1 else kwargs.get("encoding", "BaseEncoding")
    M.use("EncodedArray(raw, encoding) is a transparent wrapper")
    if isinstance(data, SArr):
        return data.with_(enc=enc)
    if isinstance(data, SArr2):
        r = SArr2(data.buf, data.rows, data.cols, data.start, data.rstride, data.cstride, data.kind, enc)
        if data.buf is None:
            r._at2 = data._at2
        return r
    if isinstance(data, (int, z3.ArithRef)):
        return data
    raise Unsupported("EncodedArray of %r" % (data,))


@class_model("bionumpy.encoded_array.EncodedRaggedArray")
def _encoded_ragged(ip, args, kwargs, lineno):
    data, shape = args[0], args[1]
    M.use("EncodedRaggedArray(data, shape) is a transparent wrapper around RaggedArray")
    enc = getattr(data, "enc", None) or "BaseEncoding"
    return make_ragged(ip, data, shape, enc, lineno)


@func_model("npstructures.util.unsafe_extend_right")
def _uer(ip, args, kwargs, lineno):
    M.use("npstructures.util.unsafe_extend_right(a) = a followed by one zero element")
    a = args[0]
    f = a.snapshot()
    return SArr.fresh(conc(I(a.length) + 1), lambda i: Ite(I(i) < I(a.length), f(i), 0), a.kind, a.enc)


@func_model("npstructures.util.unsafe_extend_left")
def _uel(ip, args, kwargs, lineno):
    M.use("npstructures.util.unsafe_extend_left(a) = one zero element followed by a")
    a = args[0]
    f = a.snapshot()
    return SArr.fresh(conc(I(a.length) + 1), lambda i: Ite(I(i) == 0, 0, f(I(i) - 1)), a.kind, a.enc)


@func_model("npstructures.raggedarray.raggedslice.ragged_slice")
def _ragged_slice(ip, args, kwargs, lineno):
    """ragged_slice(flat, starts, ends) for a 1-D array: row i = flat[starts[i] : e_i) with e_i = size+ends[i] if ends[i] < 0 else
    min(ends[i], size); empty when e_i <= starts[i].  A copy (fancy indexing).  ASSUMED (npstructures), validated by the self-check."""
    data, starts, ends = args[0], args[1] if len(args) > 1 else kwargs.get("starts"), args[2] if len(args) > 2 else kwargs.get("ends")
    if not (isinstance(data, SArr) and isinstance(starts, SArr) and isinstance(ends, SArr)):
        raise Unsupported("ragged_slice of %r" % (data,))
    M.use("ragged_slice(flat, starts, ends): row i = flat[starts[i] : clamp(ends[i]))")
    M.same_len(starts.length, ends.length, "ragged_slice", lineno)
    fd, fs, fe = data.snapshot(), starts.snapshot(), ends.snapshot()
    size = data.length
    eff = lambda i: Ite(I(fe(i)) < 0, I(size) + I(fe(i)), Min(I(fe(i)), I(size)))
    fl = lambda i: Max(eff(i) - I(fs(i)), 0)
    n = starts.length
    ip.ctx.oblige("%s:ragged_slice.inbounds@L%s" % (ip.ctx.fname, lineno),
                  Forall(lambda i: Implies(And(in_range(i, n), I(fl(i)) > 0), I(fs(i)) >= 0)), "safety", lineno,
                  "non-empty rows start inside the data")
    view = SRaggedObj(fd, n, fs, fl, getattr(data, "enc", None), size)
    # the result is a NEW contiguous ragged array: its data is the concatenation of the rows, its shape has starts = prefix sums
    flat = ragged_ravel(ip, view, lineno)
    row, C, _ = flat.ravel_ragged
    out = SRaggedObj(flat.snapshot(), n, lambda i: C(I(i)), fl, getattr(data, "enc", None), flat.length, contiguous=True, C=C)
    out.sliced_from = view            # ghost: where each row came from (contracts may name it)
    return out


@class_model("npstructures.raggedarray.RaggedArray")
def _ragged(ip, args, kwargs, lineno):
    return make_ragged(ip, args[0], args[1], None, lineno)


class RView:
    def __init__(self, starts, lens):
        self.starts, self.lens = starts, lens


@class_model("npstructures.raggedshape.RaggedShape")
def _rshape(ip, args, kwargs, lineno):
    """RaggedShape(lengths): contiguous rows, starts = exclusive prefix sums of the lengths"""
    M.use("RaggedShape(lengths): row starts are the prefix sums of the lengths")
    lens = as_arr(ip, args[0])
    fl = lens.snapshot()
    C = M.exclusive_prefix(fl, lens.length, lens)
    return RShape(lens.length, lambda i: C(I(i)), fl, C=C, contiguous=True)


@class_model("npstructures.raggedshape.RaggedView2")
def _rv2(ip, args, kwargs, lineno):
    M.use("RaggedView2(starts, lens): row i = data[starts[i] : starts[i]+lens[i])")
    return RView(args[0], args[1])


@class_model("npstructures.raggedshape.RaggedView")
def _rv(ip, args, kwargs, lineno):
    M.use("RaggedView(starts, lens): row i = data[starts[i] : starts[i]+lens[i])")
    return RView(args[0], args[1])


def make_ragged(ip, data, shape, enc, lineno):
    c = ip.ctx
    fd = data.snapshot()
    if isinstance(shape, RView):
        M.same_len(shape.starts.length, shape.lens.length, "raggedview", lineno)
        fs, fl = shape.starts.snapshot(), shape.lens.snapshot()
        return SRaggedObj(fd, shape.starts.length, fs, fl, enc, data.length)
    if isinstance(shape, RShape):
        M.use("RaggedArray(data, shape, safe_mode=False): rows index the data at the shape's starts/lengths, unchecked")
        return SRaggedObj(fd, shape.n, shape.starts, shape.lens, enc, data.length, contiguous=False, C=shape.C)
    if isinstance(shape, (SArr, list, SymList)):
        lens = as_arr(ip, shape)
        fl = shape.at if isinstance(shape, SymList) else lens.snapshot()      # stable identity: contracts can name the same prefix sums
        C = M.exclusive_prefix(fl, lens.length, lens)
        c.check("%s:ragged.size@L%s" % (c.fname, lineno), C(I(lens.length)) == I(data.length), "safety", lineno,
                "row lengths sum to the data size")
        if getattr(c, "ragged_heap", False) and isinstance(data, SArr) and conc(data.start) == 0 and conc(data.step) == 1:
            # (requested by the contract) the ragged array shares the flat buffer: writes through either are seen by both
            return SRaggedObj(None, lens.length, lambda i: C(I(i)), fl, enc, data.length, contiguous=True, C=C, buf=data.buf)
        return SRaggedObj(fd, lens.length, lambda i: C(I(i)), fl, enc, data.length, contiguous=True, C=C)
    raise Unsupported("ragged shape %r" % (shape,))


class RShape:
    """ragged shape object (npstructures RaggedShape / RaggedView): row starts and lengths"""

    def __init__(self, n, starts, lens, C=None, contiguous=False):
        self.n, self.starts, self.lens, self.C, self.contiguous = n, starts, lens, C, contiguous

    def getitem(self, ip, idx, lineno):
        k = conc(idx)
        if k in (-1, 1):
            return SArr.fresh(self.n, self.lens)     # shape[-1] (= shape[1]) is the array of row lengths
        if k == 0:
            return self.n
        raise Unsupported("ragged shape index %r" % (idx,))

    def getattr(self, ip, name, lineno):
        if name == "lengths":
            return SArr.fresh(self.n, self.lens)
        if name == "starts":
            return SArr.fresh(self.n, self.starts)
        if name == "ends":
            st0, ln0 = self.starts, self.lens
            return SArr.fresh(self.n, lambda i: conc(I(st0(i)) + I(ln0(i))))
        raise Unsupported("ragged shape attribute %s" % name)


class SRaggedObj(SRagged):
    def __init__(self, data_at, n, starts, lens, enc, total, contiguous=False, C=None, buf=None):
        if buf is not None:
            data_at = lambda p, buf=buf: buf.at(p)         # reads go through the heap cell (aliases see writes)
        SRagged.__init__(self, data_at, n, starts, lens, enc, contiguous, total)
        self.C = C
        self.is_contigous = contiguous
        self.buf = buf

    def setattr(self, name, v):
        # bionumpy tags ragged views with `is_contigous = False` (a hint, not the layout): accepted when it does not claim more than the model knows
        if name == "is_contigous" and (v is False or (v is True and self.contiguous)):
            self.is_contigous = v
            return
        raise Unsupported("attribute assignment %s = %r on a ragged array" % (name, v))

    def fresh_copy(self):
        """.copy() / boolean or fancy row selection: a NEW heap cell holding the current content"""
        f = self.data_at if self.buf is None else self.buf.at
        b = Buf(self.total, f)
        return SRaggedObj(None, self.n, self.starts, self.lens, self.enc, self.total, self.contiguous, self.C, buf=b)

    def setitem(self, ip, idx, value, lineno):
        """ragged item assignment: the written cells belong to THIS array's heap cell; the new content is not tracked
        (havoc) - enough for frame conditions, which is what the engine uses it for."""
        if self.exact_setitem(ip, idx, value, lineno):
            return
        M.use("ragged item assignment writes into the array's own buffer (content abstracted)")
        if self.buf is None:
            raise Unsupported("item assignment on a ragged value without heap identity")
        h = ip.ctx.fresh_fun("ragged_written")
        self.buf.at = lambda p, h=h: h(I(p))
        ip.ctx.ghost.setdefault("writes", []).append((self.buf.name, lineno))

    def rowof(self, ip):
        """Skolem function: the row of a flat position of a CONTIGUOUS ragged array (C(row(p)) <= p < C(row(p)+1)); needs lens >= 0"""
        if getattr(self, "_rowof", None) is None:
            c = ip.ctx
            C, n, fl = self.C, self.n, self.lens
            c.oblige("%s:ragged.lens.nonneg" % c.fname, Forall(lambda i: Implies(in_range(i, n), I(fl(i)) >= 0)), "safety", None, "row lengths >= 0")
            M.prefix_monotone(C, fl, n, "ragged.lens.nonneg.lemma")
            row = c.fresh_fun("rowof")
            total = C(I(n))
            c.assume(Forall(lambda p: Implies(in_range(p, total), And(in_range(row(p), n), C(row(p)) <= I(p), I(p) < C(row(p) + 1))), triggers=[row], name="ragged.rowof"))
            self._rowof = row
        return self._rowof

    def exact_setitem(self, ip, idx, value, lineno):
        """r[rows, cols] = value, exactly, for the selections the verified code uses:
             rows:  ':'  |  a::s (literal a >= 0, s >= 1)  |  boolean row mask (scalar value only)
             cols:  literal int (negative: from the row's end)  |  lo:hi with literal lo >= 0 and hi in {None, negative literal}
             value: scalar / character  |  ragged (row t of the value goes to the t-th selected row)  |  1-D array for a single column.
        Supported on a ragged VALUE without aliases (its element function is replaced) and on a CONTIGUOUS ragged array over a heap cell
        (the cell is rewritten through the row-of-position Skolem function, so every alias - the flat buffer - sees the write)."""
        if not (isinstance(idx, tuple) and len(idx) == 2):
            return False
        rs, cs = idx
        n, ln0 = self.n, self.lens
        full = slice(None, None, None)
        lit = lambda x: isinstance(conc(x), int) and not isinstance(conc(x), bool)
        # ---- rows
        if isinstance(rs, slice) and (rs == full or ((rs.start is None or (lit(rs.start) and conc(rs.start) >= 0)) and rs.stop is None and (rs.step is None or (lit(rs.step) and conc(rs.step) >= 1)))):
            a0 = 0 if rs.start is None else conc(rs.start)
            s0 = 1 if rs.step is None else conc(rs.step)
            if s0 == 1:
                rowsel, rowidx = (lambda i: I(i) >= a0), (lambda i: I(i) - a0)
            else:
                rowsel = lambda i: And(I(i) >= a0, M._divmod_noassert(I(i) - a0, s0)[1] == 0)
                rowidx = lambda i: M._divmod_noassert(I(i) - a0, s0)[0]
            nsel = conc(Ite(I(n) > a0, M._divmod_noassert(I(n) - a0 + s0 - 1, s0)[0], 0))
            mask_rows = False
        elif isinstance(rs, SArr) and rs.kind == "bool":
            fm = rs.snapshot()
            M.same_len(n, rs.length, "ragged.maskstore", lineno)
            rowsel, rowidx, nsel, mask_rows = (lambda i: B(fm(i))), None, None, True
        else:
            return False
        # ---- columns
        if lit(cs):
            cc = conc(cs)
            col_of = (lambda i: cc) if cc >= 0 else (lambda i: I(ln0(i)) + cc)
            colsel = lambda i, k: I(k) == I(col_of(i))
            colidx = lambda i, k: 0
            width = None
            need = lambda i: (I(ln0(i)) > cc) if cc >= 0 else (I(ln0(i)) >= -cc)
        elif isinstance(cs, slice) and cs.step is None and (cs.start is None or (lit(cs.start) and conc(cs.start) >= 0)) and (cs.stop is None or (lit(cs.stop) and conc(cs.stop) < 0)):
            lo = 0 if cs.start is None else conc(cs.start)
            hi = 0 if cs.stop is None else conc(cs.stop)
            colsel = lambda i, k: And(I(k) >= lo, I(k) < I(ln0(i)) + hi)
            colidx = lambda i, k: I(k) - lo
            width = lambda i: conc(Max(I(ln0(i)) + hi - lo, 0))
            need = None
        else:
            return False
        # ---- value
        c = ip.ctx
        if isinstance(value, str) and len(value) == 1:
            value = ord(value)
        if isinstance(value, SRagged):
            if mask_rows or width is None:
                return False
            M.same_len(value.n, nsel, "ragged.store.rows", lineno)
            vl, vat = value.lens, value.at
            c.oblige("%s:ragged.store.row.widths@L%s" % (c.fname, lineno),
                     Forall(lambda i: Implies(And(in_range(i, n), B(rowsel(i))), I(vl(rowidx(i))) == I(width(i)))), "safety", lineno, "every value row fits its target slice exactly")
            val = lambda i, k: vat(rowidx(i), colidx(i, k))
        elif isinstance(value, SArr):
            if mask_rows or width is not None:
                return False
            M.same_len(value.length, nsel, "ragged.store.rows", lineno)
            fv = value.snapshot()
            val = lambda i, k: fv(rowidx(i))
        elif isinstance(value, (int, z3.ArithRef)) and not isinstance(value, bool):
            val = lambda i, k: value
        else:
            return False
        if need is not None:
            c.oblige("%s:ragged.column.inbounds@L%s" % (c.fname, lineno), Forall(lambda i: Implies(And(in_range(i, n), B(rowsel(i))), need(i))), "safety", lineno, "selected rows have that column")
        cell = lambda i, k: And(in_range(i, n), B(rowsel(i)), in_range(k, ln0(i)), B(colsel(i, k)))
        if self.buf is None:
            M.use("ragged[rows, cols] = value (exact, on a ragged value without aliases)")
            old_at = self.at
            self.at = lambda i, k, old_at=old_at: Ite(cell(i, k), val(i, k), old_at(i, k))
            return True
        if self.contiguous and self.C is not None:
            M.use("ragged[rows, cols] = value (exact, written through to the flat buffer of a contiguous ragged array)")
            row, C = self.rowof(ip), self.C
            old = self.buf.at
            total = C(I(n))
            self.buf.at = lambda p, old=old: Ite(And(in_range(p, total), cell(row(I(p)), I(p) - C(row(I(p))))), val(row(I(p)), I(p) - C(row(I(p)))), old(p))
            c.ghost.setdefault("writes", []).append((self.buf.name, lineno))
            return True
        return False

    def getattr(self, ip, name, lineno):
        if name == "ravel":
            return _RaggedMethod(self, "ravel")
        if name == "is_contigous":
            return self.is_contigous
        if name in ("shape", "_shape"):
            return RShape(self.n, self.starts, self.lens, self.C, self.contiguous)
        if name == "lengths":
            return SArr.fresh(self.n, self.lens)
        if name == "encoding":
            return self.enc
        if name == "raw":
            return _RaggedMethod(self, "raw")
        if name == "copy":
            return _RaggedMethod(self, "copy")
        if name == "__class__":
            import bionumpy.encoded_array as _ea
            import npstructures as _nps
            return _ea.EncodedRaggedArray if self.enc is not None else _nps.RaggedArray      # (the wrappers are transparent: class models)
        raise Unsupported("ragged attribute %s" % name)

    def sym_len(self, ip):
        return self.n

    def getitem(self, ip, idx, lineno):
        """row-wise column slicing  r[..., lo:hi] / r[:, lo:hi]: every row is sliced with CPython slice semantics
        against ITS OWN length (npstructures; assumed, validated bounded).  A VIEW of the same data."""
        full = slice(None, None, None)
        if isinstance(idx, tuple) and len(idx) == 2 and (idx[0] is Ellipsis or idx[0] == full) and isinstance(idx[1], slice):
            sl = idx[1]
            if sl.step not in (None, 1):
                if sl.start is None and sl.stop is None and conc(sl.step) == -1:
                    st0, ln0, d0 = self.starts, self.lens, self.data_at
                    M.use("ragged[:, ::-1] reverses every row")
                    r = SRaggedObj(None, self.n, st0, ln0, self.enc, self.total)
                    r.at = lambda i, k: d0(I(st0(i)) + I(ln0(i)) - 1 - I(k))
                    return r
                raise Unsupported("strided ragged column slice")
            M.use("ragged[..., lo:hi] slices every row against its own length")
            st0, ln0 = self.starts, self.lens

            def bounds(i):
                return M.norm_slice(sl.start, sl.stop, ln0(i))
            new_starts = lambda i: I(st0(i)) + I(bounds(i)[0])
            new_lens = lambda i: M.slice_len(*bounds(i))
            return SRaggedObj(self.data_at, self.n, new_starts, new_lens, self.enc, self.total)
        if isinstance(idx, RView):
            # ragged[RaggedView(starts, lens)]: rows cut out of THIS array's flattened data (npstructures: ravel()[flat indices]); a copy
            M.use("ragged[RaggedView(starts, lens)]: row i = ravel(ragged)[starts[i] : starts[i]+lens[i])")
            flat = ragged_ravel(ip, self, lineno)
            f, fs, fl = flat.snapshot(), idx.starts.snapshot(), idx.lens.snapshot()
            M.same_len(idx.starts.length, idx.lens.length, "raggedview", lineno)
            m = idx.starts.length
            ip.ctx.oblige("%s:raggedview.inbounds@L%s" % (ip.ctx.fname, lineno),
                          Forall(lambda i: Implies(And(in_range(i, m), I(fl(i)) > 0), And(I(fs(i)) >= 0, I(fs(i)) + I(fl(i)) <= I(flat.length), I(fl(i)) >= 0))),
                          "safety", lineno, "every row of the view lies inside the flattened data")
            return SRaggedObj(f, m, fs, fl, self.enc, flat.length)
        if isinstance(idx, (int, z3.ArithRef)):
            i = M.wrapneg(idx, self.n)
            ip.ctx.check("%s:index.inbounds@L%s" % (ip.ctx.fname, lineno), in_range(i, self.n), "safety", lineno)
            d0, s0 = self.data_at, self.starts(i)
            return SArr.fresh(self.lens(i), lambda k: d0(I(s0) + I(k)), "int", self.enc)
        if isinstance(idx, tuple) and len(idx) == 2 and isinstance(idx[0], slice) and idx[0] == full and isinstance(idx[1], (int, z3.ArithRef)):
            # r[:, c]: column c of every row (rows must be long enough: obligation)
            cc = idx[1]
            d0, st0, ln0 = (self.data_at if self.buf is None else self.buf.at), self.starts, self.lens     # a COPY: frozen at the current heap state
            ip.ctx.oblige("%s:ragged.column.inbounds@L%s" % (ip.ctx.fname, lineno),
                          Forall(lambda i: Implies(in_range(i, self.n), And(I(cc) < I(ln0(i)), I(cc) >= -I(ln0(i))))), "safety", lineno)
            return SArr.fresh(self.n, lambda i: d0(I(st0(i)) + I(M.wrapneg(cc, ln0(i)))), "int", self.enc)
        if isinstance(idx, SArr) and idx.kind == "bool":
            # boolean row selection: a COPY (new heap cell); rows by the flatnonzero Skolem function
            M.use("ragged[bool mask] selects rows into a NEW buffer")
            pos, m = M.flatnonzero_facts(idx)
            src = self.fresh_copy()
            st0, ln0 = self.starts, self.lens
            return SRaggedObj(None, m, lambda t: st0(pos(I(t))), lambda t: ln0(pos(I(t))), self.enc, self.total, buf=src.buf)
        if isinstance(idx, SArr) and idx.kind != "bool":
            # integer row gather: a COPY; row t of the result is row idx[t] (negative indices wrap), every index in range (obligation)
            M.use("ragged[int index array] gathers rows into a NEW buffer")
            fi, m, n0 = idx.snapshot(), idx.length, self.n
            ip.ctx.oblige("%s:ragged.gather.inbounds@L%s" % (ip.ctx.fname, lineno),
                          Forall(lambda t: Implies(in_range(t, m), And(I(fi(t)) >= -I(n0), I(fi(t)) < I(n0)))), "safety", lineno)
            src = self.fresh_copy()
            st0, ln0 = self.starts, self.lens
            row = lambda t: M.wrapneg(fi(I(t)), n0)
            return SRaggedObj(None, m, lambda t: st0(row(t)), lambda t: ln0(row(t)), self.enc, self.total, buf=src.buf)
        if isinstance(idx, tuple) and len(idx) == 2 and isinstance(idx[0], SArr) and idx[0].kind != "bool" and isinstance(idx[1], slice):
            # r[rows, lo:hi] = r[rows][:, lo:hi]  (npstructures applies the row index first, then slices every selected row)
            return self.getitem(ip, idx[0], lineno).getitem(ip, (full, idx[1]), lineno)
        raise Unsupported("ragged index %r" % (idx,))


class _RaggedMethod:
    def __init__(self, r, name):
        self.r, self.name = r, name

    def sym_call(self, ip, args, kwargs, lineno):
        r = self.r
        if self.name == "ravel":
            return ragged_ravel(ip, r, lineno)
        if self.name == "raw":
            r2 = SRaggedObj(r.data_at, r.n, r.starts, r.lens, None, r.total, r.contiguous, r.C, buf=r.buf)
            return r2
        if self.name == "copy":
            M.use("RaggedArray.copy(): a new buffer with the same content")
            return r.fresh_copy()
        raise Unsupported("ragged method")


def ragged_ravel(ip, r, lineno):
    """RaggedArray.ravel(): concatenation of the rows. With C the exclusive prefix sum of the row
    lengths: |result| = C(n) and result[C(i)+k] = row_i[k] for 0 <= k < lens(i).
    Given through a Skolem row-of-position function.  Requires lens >= 0 (obligation).  EXACT."""
    M.use("RaggedArray.ravel (concatenation of rows)")
    c = ip.ctx
    if r.contiguous and r.total is not None and "at" not in r.__dict__:
        return SArr.fresh(r.total, r.data_at, "int", r.enc)
    n = r.n
    fl, fs, fd = r.lens, r.starts, r.data_at
    custom = "at" in r.__dict__                       # a VALUE ragged (elementwise result, reversed rows ...): defined per (row, column)
    c.oblige("%s:ragged.lens.nonneg@L%s" % (c.fname, lineno),
             Forall(lambda i: Implies(in_range(i, n), I(fl(i)) >= 0)), "safety", lineno, "row lengths >= 0")
    C = r.C if r.C is not None else M.exclusive_prefix(fl, n)
    M.prefix_monotone(C, fl, n, "ragged.lens.nonneg.lemma")
    row = c.fresh_fun("rowof")
    total = C(I(n))
    c.assume(Forall(lambda p: Implies(in_range(p, total), And(in_range(row(p), n), C(row(p)) <= I(p), I(p) < C(row(p) + 1))),
                    triggers=[row], name="ravel.rowof"))
    if custom:
        rat = r.at
        out = SArr.fresh(total, lambda p: rat(row(I(p)), I(p) - C(row(I(p)))), "int", r.enc)
    else:
        out = SArr.fresh(total, lambda p: fd(I(fs(row(I(p)))) + I(p) - C(row(I(p)))), "int", r.enc)
    out.ravel_ragged = (row, C, r)
    return out


# =======================================================================================
# tables (bnpdataclass objects): column-aligned records.  ASSUMED (C19, bounded): indexing a table
# indexes every column with the same index; replace() returns a new table with the given columns replaced.

class STable:
    def __init__(self, cols, n, cls=None):
        self.cols, self.n, self.cls = dict(cols), n, cls

    def getattr(self, ip, name, lineno):
        if name in self.cols:
            return self.cols[name]
        if name == "__replace__":
            raise PathEnd("raise", "AttributeError")
        raise Unsupported("table attribute %s" % name)

    def sym_hasattr(self, name):
        return name in self.cols

    def sym_len(self, ip):
        return self.n

    def sym_isinstance(self, cls):
        return getattr(cls, "__qualname__", "") in ("BNPDataClass", "Interval") or (self.cls is not None and issubclass(self.cls, cls))

    def getitem(self, ip, idx, lineno):
        M.use("table[idx] indexes every column alike (bnpdataclass, assumed)")
        new = {}
        n2 = None
        for k, v in self.cols.items():
            new[k] = ip.getitem(v, idx, lineno)
            if isinstance(new[k], SArr) and n2 is None:
                n2 = new[k].length
        if n2 is None:
            return SRec(None, **new)
        return STable(new, n2, self.cls)

    def sym_rows(self, ip):
        """iteration over a table yields one record per row (bnpdataclass, assumed)"""
        M.use("iterating a table yields its rows as records (bnpdataclass, assumed)")
        cols = self.cols

        def row(j):
            return SRec(None, **{k: (v.at(j) if isinstance(v, SArr) else (v.row(j) if hasattr(v, "row") else v)) for k, v in cols.items()})
        return self.n, row

    def replaced(self, kwargs):
        M.use("replace(table, col=value) returns a new table with that column replaced (assumed)")
        cols = dict(self.cols)
        for k, v in kwargs.items():
            if k not in cols:
                raise PathEnd("raise", "TypeError")
            cols[k] = v
        return STable(cols, self.n, self.cls)

    def setattr(self, name, v):
        self.cols[name] = v


@func_model("dataclasses.replace")
def _dc_replace(ip, args, kwargs, lineno):
    t = args[0]
    if isinstance(t, STable):
        return t.replaced(kwargs)
    raise Unsupported("dataclasses.replace on %r" % (t,))


# =======================================================================================
# itertools (ASSUMED, exact): accumulate(repeat(c), f) is the stream A(0)=c, A(k+1)=f(A(k), c);
# takewhile(pred, A) is the longest prefix on which pred holds (the prefix is finite: termination is ASSUMED)

class SymIter:
    """iterator over a symbolic sequence with a ghost position; pull(ip, p) may raise (PathEnd) to model a producer error"""

    def __init__(self, n, pull, pos=0):
        self.n, self.pull, self.pos = n, pull, pos


class SymStream:
    def __init__(self, at, const=None):
        self.at, self.const = at, const


@class_model("itertools.repeat")
def _repeat(ip, args, kwargs, lineno):
    v = args[0]
    return SymStream(lambda k: v, const=v)


@class_model("itertools.accumulate")
def _accumulate(ip, args, kwargs, lineno):
    src = args[0]
    f = args[1] if len(args) > 1 else kwargs.get("func")
    if not isinstance(src, SymStream) or src.const is None or f is None:
        raise Unsupported("accumulate over a non-constant stream")
    M.use("itertools.accumulate(repeat(c), f): A(0)=c, A(k+1)=f(A(k), c)")
    c = ip.ctx
    A = c.fresh_fun("accum")
    g = c.fresh_int("accum_generic")
    ip.call(f, [g, src.const], {}, lineno)      # collect f's own safety obligations once, for a generic argument
    c.assume(A(0) == I(src.const))
    c.assume(Forall(lambda k: Implies(I(k) >= 1, A(k) == I(ip.call(f, [A(I(k) - 1), src.const], {}, lineno))), triggers=[A], name="accumulate.rec"))
    return SymStream(lambda k: A(I(k)))


@class_model("itertools.takewhile")
def _takewhile(ip, args, kwargs, lineno):
    pred, src = args
    if not isinstance(src, SymStream):
        raise Unsupported("takewhile over %r" % (src,))
    M.use("itertools.takewhile(pred, stream): longest prefix satisfying pred (finite: termination assumed)")
    c = ip.ctx
    m = c.fresh_int("takewhile_n")
    c.assume(m >= 0)
    c.assume(Not(ip.to_bool(ip.call(pred, [src.at(m)], {}, lineno))))
    probe = src.at(z3.IntVal(0))
    trig = [probe.decl()] if is_sym(probe) and z3.is_app(probe) and probe.num_args() == 1 else []
    c.assume(Forall(lambda k: Implies(in_range(k, m), ip.to_bool(ip.call(pred, [src.at(k)], {}, lineno))), triggers=trig, name="takewhile.prefix"))
    return SymList(m, src.at)


class IntFromBytes:
    """int.from_bytes(b, byteorder='little') for a byte sequence of at most 8 bytes"""

    def sym_call(self, ip, args, kwargs, lineno):
        b = args[0]
        order = kwargs.get("byteorder", args[1] if len(args) > 1 else "big")
        if order != "little":
            raise Unsupported("big-endian from_bytes")
        if isinstance(b, (bytes, bytearray)):
            return int.from_bytes(b, "little")
        M.use("int.from_bytes(little): little-endian composition of the bytes present")
        n = conc(b.length)
        f = b.snapshot()
        v = z3.IntVal(0)
        for k in range(8):
            if isinstance(n, int):
                if k < n:
                    v = v + I(f(k)) * (256 ** k)
            else:
                v = v + z3.If(k < I(n), I(f(k)), 0) * (256 ** k)
        if not isinstance(n, int):
            ip.ctx.check("%s:from_bytes.width@L%s" % (ip.ctx.fname, lineno), I(n) <= 8, "safety", lineno)
        return v
