"""Engine P: symbolic executor over the *real* source of functions in /repo.

The AST is re-read from the working tree on every run (pyvc/extract.py).  Names are resolved
through the real module's globals, so `np`, `EncodedArray`, helper functions ... are the objects
the code really uses; each is then mapped to its model (npmodel) / its contract / its inlined source.
"""
import ast
import re
import functools
import builtins
import inspect
import types
import z3
import numpy as _np

from . import core, npmodel as M
from .core import (I, B, conc, And, Or, Not, Implies, Ite, Min, Max, in_range, Forall, SArr, SArr2, SRagged,
                   SRec, SFile, SymList, Opaque, Buf, Unsupported, PathEnd, is_sym, Ctx)
from .extract import function_ast, qualname_of

BINOPS = {ast.Add: "Add", ast.Sub: "Sub", ast.Mult: "Mult", ast.FloorDiv: "FloorDiv", ast.Mod: "Mod",
          ast.BitAnd: "BitAnd", ast.BitOr: "BitOr", ast.RShift: "RShift", ast.LShift: "LShift", ast.Pow: "Pow",
          ast.BitXor: "BitXor", ast.Div: "Div"}
CMPOPS = {ast.Eq: "Eq", ast.NotEq: "NotEq", ast.Lt: "Lt", ast.LtE: "LtE", ast.Gt: "Gt", ast.GtE: "GtE",
          ast.Is: "Is", ast.IsNot: "IsNot", ast.In: "In", ast.NotIn: "NotIn"}


class Closure:
    def __init__(self, node, env, interp, real=None, owner=None):
        self.node, self.env, self.interp, self.real, self.owner = node, env, interp, real, owner


class BoundMethod:
    def __init__(self, selfv, func):
        self.selfv, self.func = selfv, func


class Env:
    def __init__(self, parent=None, globs=None):
        self.vars, self.parent, self.globs = {}, parent, globs

    def lookup(self, name):
        e = self
        while e is not None:
            if name in e.vars:
                return e.vars[name]
            e = e.parent
        raise KeyError(name)

    def root_globs(self):
        e = self
        while e is not None:
            if e.globs is not None:
                return e.globs
            e = e.parent
        return {}


LRU_GHOST = "__lru__"


class _LruBound:
    """bound method wrapped in functools.lru_cache: a call without arguments is memoised per receiver in a ghost attribute
    (exactly lru_cache's behaviour for that key: nothing ever invalidates it); calls with arguments are run unmemoised
    (assumption recorded)."""

    def __init__(self, obj, name, func):
        self.obj, self.name, self.func = obj, name, func

    def sym_call(self, ip, args, kwargs, lineno):
        bm = BoundMethod(self.obj, self.func)
        if args or kwargs:
            M.use("functools.lru_cache with arguments = pure memoisation (receiver fields unmodified between calls)")
            return ip.call(bm, args, kwargs, lineno)
        key = LRU_GHOST + self.name + "()"
        if self.obj.has(key):
            return self.obj.get(key)
        v = ip.call(bm, args, kwargs, lineno)
        self.obj.set(key, v)
        return v


class SRecDict:
    """`obj.__dict__` of a modelled object: a live view of its instance attributes (pop / get / in / [] / []=)."""

    def __init__(self, rec):
        self.rec = rec

    def contains(self, ip, key, lineno=None):
        return key in self.rec._f

    def getattr(self, ip, name, lineno):
        rec = self.rec

        class _M:
            def sym_call(self_, ip, args, kwargs, lineno):
                if not isinstance(args[0], str):
                    raise Unsupported("__dict__.%s with a non-constant key" % name)
                if name == "pop":
                    if args[0] in rec._f:
                        return rec._f.pop(args[0])
                    if len(args) > 1:
                        return args[1]
                    raise PathEnd("raise", "KeyError")
                if name == "get":
                    return rec._f.get(args[0], args[1] if len(args) > 1 else None)
                raise Unsupported("__dict__.%s" % name)
        if name in ("pop", "get"):
            return _M()
        raise Unsupported("__dict__.%s" % name)


class Interp:
    def __init__(self, ctx, registry=None, max_inline_depth=12):
        self.ctx = ctx
        self.registry = registry or {}    # real function object (or qualname str) -> contract hook
        self.depth = 0
        self.max_inline_depth = max_inline_depth
        self.inlined = {}                 # qualname -> (file, sha) of every function body executed
        self.loop_specs = {}              # (qualname, ordinal) -> loop spec
        self.yields = None
        self.cur_fn = []
        self.class_models = {}
        self.stop_before = None
        self.ghost_before = []      # [(statement text prefix, fn(ip, env))]: lemma invocations at program points
        self.last_locals = {}
        self.stop_after = None      # contract hook: verify a PREFIX of the function (returns the locals at that point)
        ctx.locator = self.locate

    def locate(self, lineno):
        if not self.cur_fn or lineno in (None, "None"):
            return "?"
        q, _, node = self.cur_fn[-1][:3]
        return "%s#%s" % (q.split("::")[-1], self._stmt_key(node, int(lineno)))

    _STMT_KEYS = {}

    def _stmt_key(self, fnode, lineno):
        """Name of a program point that survives edits elsewhere in the function: the text of the innermost statement that
        covers the line (header only for compound statements), abbreviated, plus a hash of it and - when the same text occurs
        more than once in the function - its ordinal in source order.  Inserting, deleting or moving OTHER lines, comments and
        blank lines leave it unchanged; editing the statement itself changes it (then its obligations are new ones)."""
        import hashlib
        tab = self._STMT_KEYS.get(id(fnode))
        if tab is None or tab[0] is not fnode:
            stmts = [n for n in ast.walk(fnode) if isinstance(n, ast.stmt) and n is not fnode]
            stmts.sort(key=lambda n: (n.lineno, n.col_offset))
            seen, keys = {}, []
            # local variable names are written `_` in the key: renaming a local (consistently or not) keeps every id, and a statement that
            # merely uses another local keeps ITS ids - so its obligations are compared with the baseline instead of counting as new ones
            local = {a.arg for a in ast.walk(fnode) if isinstance(a, ast.arg)} | \
                    {x.id for x in ast.walk(fnode) if isinstance(x, ast.Name) and isinstance(x.ctx, (ast.Store, ast.Del))}
            import copy as _copy

            class _Anon(ast.NodeTransformer):
                def visit_Name(self_, node):
                    return ast.copy_location(ast.Name(id="_", ctx=node.ctx), node) if node.id in local else node

            def unparse(node):
                return ast.unparse(_Anon().visit(_copy.deepcopy(node)))
            for n in stmts:
                def header(un):
                    if isinstance(n, (ast.If, ast.While)):
                        return type(n).__name__.lower() + " " + un(n.test)
                    if isinstance(n, ast.For):
                        return "for " + un(n.target) + " in " + un(n.iter)
                    if isinstance(n, ast.With):
                        return "with " + ", ".join(un(i) for i in n.items)
                    if isinstance(n, ast.Try):
                        return "try"
                    if isinstance(n, ast.Assert):
                        return "assert " + un(n.test)          # (the message is not part of the identity)
                    if isinstance(n, (ast.FunctionDef, ast.ClassDef)):
                        return "def " + n.name
                    return un(n)
                text = header(unparse)                    # identity: locals anonymised
                k = seen.get(text, 0)
                seen[text] = k + 1
                slug = re.sub(r"[^A-Za-z0-9]+", "_", header(ast.unparse)).strip("_")[:28]      # readable only (not part of the identity)
                key = "%s~%s%s" % (slug, hashlib.sha1(text.encode()).hexdigest()[:5], (".%d" % k) if k else "")
                last = n.end_lineno if not isinstance(n, (ast.If, ast.While, ast.For, ast.With, ast.Try, ast.FunctionDef,
                                                          ast.ClassDef)) else None
                keys.append((n.lineno, last, n, key))
            tab = (fnode, keys)
            self._STMT_KEYS[id(fnode)] = tab
        best = None
        for lo, hi, n, key in tab[1]:
            end = hi if hi is not None else n.end_lineno
            if lo <= lineno <= end:
                best = key          # source order: later (inner) statements override outer ones
        return best or ("L+%d" % (lineno - fnode.lineno))

    # ==================================================================================
    # entry points
    def run_function(self, real_func, args, kwargs=None, selfv=None):
        """Symbolically execute the real function object's current source with the given values."""
        node, info = function_ast(real_func)
        self.inlined[info["qualname"]] = info
        env = Env(globs=getattr(real_func, "__globals__", {}))
        env.owner_class = getattr(real_func, "_pyvc_owner", None) or self.owner_from_qualname(real_func)
        self.bind_closure(real_func, env)
        self.bind_params(node, env, args, kwargs or {}, selfv)
        return self.exec_body_as_function(node, env, info["qualname"])

    def owner_from_qualname(self, fn):
        parts = getattr(fn, "__qualname__", "").split(".")
        if len(parts) < 2 or "<locals>" in parts:
            return None
        o = getattr(fn, "__globals__", {}).get(parts[0])
        for p in parts[1:-1]:
            o = getattr(o, p, None)
        return o if isinstance(o, type) else None

    def bind_closure(self, fn, env):
        """free variables of a nested real function (decorator closures) come from its closure cells"""
        cells = getattr(fn, "__closure__", None) or ()
        names = getattr(getattr(fn, "__code__", None), "co_freevars", ())
        for n, c in zip(names, cells):
            try:
                env.vars[n] = self.from_real(c.cell_contents)
            except ValueError:
                pass

    def run_ast(self, node, info, globs, args, kwargs=None):
        """execute a FunctionDef located by file + qualified name (decorated functions whose raw object is not reachable)"""
        self.inlined[info["qualname"]] = info
        env = Env(globs=globs)
        self.bind_params(node, env, list(args), dict(kwargs or {}))
        return self.exec_body_as_function(node, env, info["qualname"])

    def bind_params(self, node, env, args, kwargs, selfv=None):
        a = node.args
        params = [p.arg for p in a.posonlyargs + a.args]
        args = list(args)
        if selfv is not None:
            args = [selfv] + args
        defaults = a.defaults
        ndef = len(defaults)
        for k, name in enumerate(params):
            if k < len(args):
                env.vars[name] = args[k]
            elif name in kwargs:
                env.vars[name] = kwargs.pop(name)
            else:
                dk = k - (len(params) - ndef)
                if dk < 0:
                    raise Unsupported("missing argument %s" % name)
                env.vars[name] = self.eval(defaults[dk], env)
        if len(args) > len(params):
            if a.vararg is None:
                raise Unsupported("too many positional arguments")
            env.vars[a.vararg.arg] = tuple(args[len(params):])
        elif a.vararg is not None:
            env.vars[a.vararg.arg] = ()
        for p, d in zip(a.kwonlyargs, a.kw_defaults):
            if p.arg in kwargs:
                env.vars[p.arg] = kwargs.pop(p.arg)
            elif d is not None:
                env.vars[p.arg] = self.eval(d, env)
            else:
                raise Unsupported("missing kw-only argument")
        if a.kwarg is not None:
            env.vars[a.kwarg.arg] = dict(kwargs)
        elif kwargs:
            raise Unsupported("unexpected keyword arguments %s" % list(kwargs))

    def exec_body_as_function(self, node, env, qualname):
        self.cur_fn.append([qualname, 0, node])
        self.depth += 1
        if self.depth > self.max_inline_depth:
            raise Unsupported("inlining depth exceeded at %s" % qualname)
        try:
            self.exec_block(node.body, env)
            if self.depth == 1:
                self.last_locals = dict(env.vars)
            return None
        except PathEnd as e:
            if self.depth == 1:
                self.last_locals = dict(env.vars)
            if e.kind == "return":
                return e.value
            raise
        finally:
            self.depth -= 1
            self.cur_fn.pop()

    # ==================================================================================
    # statements
    def exec_block(self, stmts, env):
        for s in stmts:
            if self.stop_before is not None and self.depth == 1 and self.stop_before(s):
                raise PathEnd("return", dict(env.vars), s)
            if self.ghost_before and self.depth == 1:
                txt = ast.unparse(s).replace(" ", "").replace('"', "'")
                for pat, fn in self.ghost_before:
                    if txt.startswith(pat.replace(" ", "").replace('"', "'")):
                        fn(self, env)          # contract-supplied proof step (lemma invocation) at this program point
            self.exec_stmt(s, env)
            if self.stop_after is not None and self.depth == 1 and self.stop_after(s):
                raise PathEnd("return", dict(env.vars), s)

    def exec_stmt(self, s, env):
        c = self.ctx
        if isinstance(s, ast.Expr):
            if isinstance(s.value, ast.Constant):
                return                                   # docstring (dropped)
            if isinstance(s.value, ast.Call) and self.is_logging(s.value):
                return                                   # logger.* / print (dropped)
            if isinstance(s.value, (ast.Yield, ast.YieldFrom)):
                return self.do_yield(s.value, env)
            self.eval(s.value, env)
        elif isinstance(s, ast.Assign):
            v = self.eval(s.value, env)
            for t in s.targets:
                self.assign(t, v, env)
        elif isinstance(s, ast.AnnAssign):
            if s.value is not None:
                self.assign(s.target, self.eval(s.value, env), env)
        elif isinstance(s, ast.AugAssign):
            self.aug_assign(s, env)
        elif isinstance(s, ast.Return):
            raise PathEnd("return", None if s.value is None else self.eval(s.value, env), s)
        elif isinstance(s, ast.If):
            if self.truth(self.eval(s.test, env), s.lineno):
                self.exec_block(s.body, env)
            else:
                self.exec_block(s.orelse, env)
        elif isinstance(s, ast.Assert):
            self.do_assert(s, env)
        elif isinstance(s, ast.Raise):
            name = self.exc_name(s.exc, env)
            info = {}
            if isinstance(s.exc, ast.Call):          # keep keyword arguments such as line_number=...; messages are dropped
                for kw in s.exc.keywords:
                    if kw.arg is not None:
                        try:
                            info[kw.arg] = self.eval(kw.value, env)
                        except Unsupported:
                            pass
            if isinstance(s.exc, ast.Name):          # `raise e`: re-raise of a caught exception object with its (possibly updated) fields
                try:
                    ev = env.lookup(s.exc.id)
                    if isinstance(ev, Opaque):
                        info = dict(ev.fields)
                except KeyError:
                    pass
            self.ctx.last_raise = info
            raise PathEnd("raise", name, s, info=info)
        elif isinstance(s, ast.Pass):
            pass
        elif isinstance(s, ast.For):
            self.do_for(s, env)
        elif isinstance(s, ast.While):
            self.do_while(s, env)
        elif isinstance(s, ast.Delete):
            for t in s.targets:
                if isinstance(t, ast.Name):
                    env.vars.pop(t.id, None)
                elif isinstance(t, ast.Subscript):
                    obj = self.eval(t.value, env)
                    k = self.hashable(self.eval(t.slice, env))
                    if isinstance(obj, dict):
                        if k not in obj:
                            raise PathEnd("raise", "KeyError", s)
                        del obj[k]
                    else:
                        raise Unsupported("del on %r" % (obj,))
                else:
                    raise Unsupported("del target")
        elif isinstance(s, ast.Try):
            self.do_try(s, env)
        elif isinstance(s, ast.Import):
            # local import: binds the real module objects, exactly what the statement does at run time (import side effects are outside the model)
            import importlib
            for a in s.names:
                if a.asname:
                    env.vars[a.asname] = importlib.import_module(a.name)
                else:
                    importlib.import_module(a.name)
                    env.vars[a.name.split(".")[0]] = importlib.import_module(a.name.split(".")[0])
        elif isinstance(s, ast.ImportFrom):
            import importlib
            g = env
            while g is not None and getattr(g, "globs", None) is None:
                g = g.parent
            globs = g.globs if g is not None else {}
            pkg = globs.get("__package__") or (globs.get("__name__", "").rpartition(".")[0])
            try:
                mod = importlib.import_module("." * s.level + (s.module or ""), pkg) if s.level else importlib.import_module(s.module)
            except Exception as e:
                raise Unsupported("local import %s: %r" % (s.module, e))
            for a in s.names:
                if a.name == "*":
                    raise Unsupported("local star import")
                if hasattr(mod, a.name):
                    env.vars[a.asname or a.name] = getattr(mod, a.name)
                else:
                    env.vars[a.asname or a.name] = importlib.import_module(mod.__name__ + "." + a.name)
        elif isinstance(s, ast.FunctionDef):
            env.vars[s.name] = Closure(s, env, self)
        elif isinstance(s, ast.With):
            # context managers without an effect on the modelled semantics (floating-point error state, warning filters) are no-ops;
            # a ghost file / an object returned by a callee contract is bound to its `as` name (closing is outside the model)
            for item in s.items:
                ce = item.context_expr
                txt = ast.unparse(ce.func) if isinstance(ce, ast.Call) else ""
                if txt in ("np.errstate", "numpy.errstate", "warnings.catch_warnings", "np.printoptions", "contextlib.nullcontext", "nullcontext"):
                    val = Opaque("context manager " + txt)
                else:
                    val = self.eval(ce, env)
                    if not isinstance(val, (SFile, SRec, Opaque)):
                        raise Unsupported("with over %r" % (val,))
                if item.optional_vars is not None:
                    self.assign(item.optional_vars, val, env)
            self.exec_block(s.body, env)
        elif isinstance(s, ast.Break):
            raise PathEnd("break")
        elif isinstance(s, ast.Continue):
            raise PathEnd("continue")
        else:
            raise Unsupported("statement %s at line %s" % (type(s).__name__, getattr(s, "lineno", "?")))

    def is_logging(self, call):
        f = call.func
        if isinstance(f, ast.Attribute) and isinstance(f.value, ast.Name) and f.value.id in ("logger", "logging", "warnings"):
            return True
        if isinstance(f, ast.Name) and f.id == "print":
            return True
        if isinstance(f, ast.Attribute) and f.attr == "flush" and isinstance(f.value, ast.Attribute) and isinstance(f.value.value, ast.Name) \
                and f.value.value.id == "sys" and f.value.attr in ("stdout", "stderr"):
            return True                      # sys.stdout.flush() / sys.stderr.flush(): no effect on program state (dropped)
        return False

    def exc_name(self, node, env):
        if node is None:
            return "reraise"
        if isinstance(node, ast.Call):
            node = node.func
        if isinstance(node, ast.Name):
            try:
                v = env.lookup(node.id)
                if isinstance(v, Opaque):
                    return v.what
            except KeyError:
                pass
            return node.id
        if isinstance(node, ast.Attribute):
            return node.attr
        return "Exception"

    def rel_line(self, node):
        """line number relative to the enclosing function's first line (stable under edits elsewhere)"""
        if not self.cur_fn:
            return getattr(node, "lineno", 0)
        return getattr(node, "lineno", 0) - self.cur_fn[-1][2].lineno

    def fn_name(self):
        return self.cur_fn[-1][0] if self.cur_fn else self.ctx.fname

    def do_assert(self, s, env):
        """`assert c` is `if not c: raise AssertionError`.  When the contract does not permit an AssertionError the
        condition is a proof obligation (then assumed); when it does, both outcomes are explored."""
        v = self.eval(s.test, env)
        fn = self.fn_name()
        oid = "%s:assert@L%s" % (self.ctx.fname, s.lineno)       # named by the asserted condition (not by an ordinal: an added assert renames nothing)
        note = "source assert at line +%d: %s" % (self.rel_line(s), ast.unparse(s.test)[:80])
        allowed = "AssertionError" in getattr(self.ctx, "allowed_raises", ())
        if isinstance(v, Forall):
            if allowed:
                if self.ctx.branch(self.ctx.fresh_bool("assert_holds"), s.lineno):
                    self.ctx.assume(v)
                    return
                ws = [self.ctx.fresh_int("assert_cex") for _ in range(v.nvars)]
                self.ctx.index_terms.extend(ws)
                self.ctx.assume(Not(v.instantiate(*ws)))
                raise PathEnd("raise", "AssertionError", s)
            self.ctx.check(oid, v, "assert", s.lineno, note)
            return
        v = self.to_bool(v, s.lineno)
        cv = conc(v) if is_sym(v) else v
        if allowed:
            if self.ctx.branch(v, s.lineno):
                return
            raise PathEnd("raise", "AssertionError", s)
        if cv is False:
            self.ctx.oblige(oid, z3.BoolVal(False), "assert", s.lineno, note)
            raise PathEnd("raise", "AssertionError", s)
        self.ctx.check(oid, v, "assert", s.lineno, note)

    def next_ordinal(self, what):
        fr = self.cur_fn[-1]
        if len(fr) < 4:
            fr.append({})
        d = fr[3]
        d[what] = d.get(what, 0) + 1
        return d[what] - 1

    def loop_ordinal(self, s):
        """loops are numbered in SOURCE order within their function (0, 1, ...), whichever path reaches them"""
        node = self.cur_fn[-1][2]
        loops = sorted(((n.lineno, n.col_offset) for n in ast.walk(node) if isinstance(n, (ast.For, ast.While))))
        try:
            return loops.index((s.lineno, s.col_offset))
        except ValueError:
            return self.next_ordinal("loop")

    def truth(self, v, lineno=None):
        if isinstance(v, Forall):
            # branching on np.all(...) over a symbolic array: either the quantified fact holds (assumed as a hypothesis), or there is a
            # witness index where it fails (fresh Skolem constant)
            if self.ctx.branch(self.ctx.fresh_bool("forall_holds"), lineno):
                self.ctx.assume(v)
                return True
            ws = [self.ctx.fresh_int("forall_cex") for _ in range(v.nvars)]
            self.ctx.index_terms.extend(ws)
            self.ctx.assume(Not(v.instantiate(*ws)))
            return False
        return self.ctx.branch(self.to_bool(v, lineno), lineno)

    def to_bool(self, v, lineno=None):
        if v is None:
            return False
        if isinstance(v, (bool, z3.BoolRef)):
            return v
        if isinstance(v, (int, z3.ArithRef)):
            return B(v)
        if isinstance(v, (list, tuple, dict, str)):
            return len(v) > 0
        if isinstance(v, SymList):
            return I(v.count) > 0
        if hasattr(v, "sym_len") and not isinstance(v, (SArr, SArr2)):
            return I(v.sym_len(self)) > 0
        if isinstance(v, Forall):
            raise Unsupported("truth value of a quantified formula")
        if isinstance(v, SArr):
            n = conc(v.length)
            if isinstance(n, int) and n == 1:
                return B(v.at(0))
            raise Unsupported("truth value of an array")
        if isinstance(v, (SRec, Closure, Opaque, SFile)):
            return True
        if hasattr(v, "dtype") and hasattr(v, "item"):
            return bool(v)
        return bool(v)

    # ---- assignment ------------------------------------------------------------------
    def assign(self, t, v, env):
        if isinstance(t, ast.Name):
            env.vars[t.id] = v
        elif isinstance(t, (ast.Tuple, ast.List)):
            vals = self.unpack(v, len(t.elts))
            for tt, vv in zip(t.elts, vals):
                self.assign(tt, vv, env)
        elif isinstance(t, ast.Attribute):
            obj = self.eval(t.value, env)
            if isinstance(obj, SRec):
                name = self.mangle(t.attr, env)
                custom = self.custom_setattr(obj)
                if custom is not None:
                    self.call_real(custom[0], [obj, name, v], {}, t.lineno, owner=custom[1])
                else:
                    obj.set(name, v)
            elif hasattr(obj, "setattr"):
                obj.setattr(t.attr, v)
            elif isinstance(obj, (SArr, SArr2)) and t.attr == "encoding":
                obj.enc = v                      # re-tagging an EncodedArray wrapper (transparent)
            else:
                raise Unsupported("attribute assignment on %r" % (obj,))
        elif isinstance(t, ast.Subscript):
            obj = self.eval(t.value, env)
            self.store_subscript(obj, t.slice, v, env, t.lineno)
        else:
            raise Unsupported("assignment target %s" % type(t).__name__)

    def custom_setattr(self, obj):
        """the class-defined __setattr__ of a record's real class (None for object's own)"""
        cls = obj._cls
        if cls is None:
            return None
        for k in cls.__mro__:
            if "__setattr__" in k.__dict__:
                if k is object or not k.__module__.startswith("bionumpy"):
                    return None
                return (k.__dict__["__setattr__"], k)
        return None

    def unpack(self, v, n):
        if isinstance(v, (tuple, list)):
            if len(v) != n:
                raise PathEnd("raise", "ValueError")
            return list(v)
        if isinstance(v, SArr):
            ln = conc(v.length)
            if isinstance(ln, int) and ln == n:
                return [v.at(i) for i in range(n)]
        raise Unsupported("cannot unpack %r into %d" % (v, n))

    def aug_assign(self, s, env):
        op = BINOPS[type(s.op)]
        if isinstance(s.target, ast.Name):
            cur = env.lookup(s.target.id)
            rhs = self.eval(s.value, env)
            if isinstance(cur, (SArr, SArr2)):
                # in-place on the array object: every alias sees it (NumPy semantics)
                new = self.binop(op, cur, rhs, s.lineno)
                self.write_whole(cur, new, s.lineno)
                return
            if isinstance(cur, list) and op == "Add":
                cur.extend(rhs)
                return
            if isinstance(cur, set) and op in ("BitOr", "BitAnd", "Sub", "BitXor") and isinstance(rhs, (set, frozenset)):
                # augmented assignment on a set mutates THE OBJECT (every alias sees it), like list +=
                {"BitOr": cur.update, "BitAnd": cur.intersection_update, "Sub": cur.difference_update, "BitXor": cur.symmetric_difference_update}[op](rhs)
                return
            if isinstance(cur, dict) and op == "BitOr" and isinstance(rhs, dict):
                cur.update(rhs)
                return
            env.vars[s.target.id] = self.binop(op, cur, rhs, s.lineno)
        elif isinstance(s.target, ast.Attribute):
            obj = self.eval(s.target.value, env)
            cur = self.getattr(obj, s.target.attr, s.lineno)
            rhs = self.eval(s.value, env)
            if isinstance(cur, (SArr, SArr2)):
                new = self.binop(op, cur, rhs, s.lineno)
                self.write_whole(cur, new, s.lineno)
                return
            if isinstance(cur, set) and op in ("BitOr", "BitAnd", "Sub", "BitXor") and isinstance(rhs, (set, frozenset)):
                {"BitOr": cur.update, "BitAnd": cur.intersection_update, "Sub": cur.difference_update, "BitXor": cur.symmetric_difference_update}[op](rhs)
                return
            if isinstance(cur, list) and op == "Add":
                cur.extend(rhs)
                return
            if isinstance(obj, SRec):
                obj.set(s.target.attr, self.binop(op, cur, rhs, s.lineno))
            elif hasattr(obj, "setattr"):
                obj.setattr(s.target.attr, self.binop(op, cur, rhs, s.lineno))
            else:
                raise Unsupported("augmented attribute assignment")
        elif isinstance(s.target, ast.Subscript):
            obj = self.eval(s.target.value, env)
            cur = self.subscript(obj, s.target.slice, env, s.lineno)
            rhs = self.eval(s.value, env)
            self.store_subscript(obj, s.target.slice, self.binop(op, cur, rhs, s.lineno), env, s.lineno)
        else:
            raise Unsupported("augmented assignment target")

    def write_whole(self, arr, new, lineno):
        """arr[...] = new  through the view `arr` (in-place update of the heap cell)."""
        if isinstance(arr, SArr) and isinstance(new, SArr):
            self.store_view(arr, new.snapshot(), lineno)
        elif isinstance(arr, SArr2) and isinstance(new, SArr2):
            raise Unsupported("in-place 2-D update")
        else:
            raise Unsupported("in-place update")

    def store_view(self, view, src_at, lineno, written=None):
        """view[:] = src (elementwise, same length): rewrite the heap cell the view points into."""
        buf = view.buf
        old = buf.at
        start, step, n = view.start, view.step, view.length
        c = self.ctx
        dt = getattr(buf, "dtype", None)
        if dt is not None:
            from .pybuiltins import NARROW
            lo, hi = NARROW[dt]
            wr = written if written is not None else (lambda k: True)
            c.oblige("%s:store.fits.%s@L%s" % (c.fname, dt, lineno), Forall(lambda k: Implies(And(in_range(k, n), B(wr(k))), And(I(src_at(k)) >= lo, I(src_at(k)) < hi))),
                     "safety", lineno, "every value stored into the %s array fits its type" % dt)
        if isinstance(step, int) and step == 1:
            def new_at(p, old=old, start=start, n=n):
                k = I(p) - I(start)
                return Ite(And(k >= 0, k < I(n)), src_at(k), old(p))
        elif isinstance(step, int) and step > 1:
            def new_at(p, old=old, start=start, n=n, step=step):
                d = I(p) - I(start)
                q, r = M._divmod_noassert(d, step)
                return Ite(And(d >= 0, r == 0, q < I(n)), src_at(q), old(p))
        else:
            raise Unsupported("store through a view with symbolic/negative step")
        buf.at = new_at
        c.ghost.setdefault("writes", []).append((buf.name, lineno))

    def store_subscript(self, obj, sl, v, env, lineno):
        if isinstance(obj, dict):
            k = self.eval(sl, env)
            obj[self.hashable(k)] = v
            return
        if isinstance(obj, list):
            k = conc(self.eval(sl, env))
            if isinstance(k, int):
                obj[k] = v
                return
            raise Unsupported("list store with symbolic index")
        if hasattr(obj, "setitem"):
            return obj.setitem(self, self.eval(sl, env), v, lineno)
        if isinstance(obj, SArr2):
            idx = self.eval(sl, env)
            full = slice(None, None, None)
            if isinstance(idx, tuple) and len(idx) == 2 and idx[0] == full and isinstance(idx[1], (int, z3.ArithRef)) and obj.buf is None:
                # a[:, c] = v on a freshly allocated 2-D array (no other alias of a functional 2-D value exists)
                col = M.wrapneg(idx[1], obj.cols)
                self.ctx.check("%s:index.inbounds@L%s" % (self.ctx.fname, lineno), in_range(col, obj.cols), "safety", lineno)
                old = obj._at2
                if isinstance(v, SArr):
                    M.same_len(obj.rows, v.length, "setitem.column", lineno)
                    fv = v.snapshot()
                else:
                    fv = lambda i: v
                obj._at2 = lambda i, j, old=old, col=col, fv=fv: Ite(I(j) == I(col), fv(i), old(i, j))
                return
            raise Unsupported("2-D store %r" % (idx,))
        if isinstance(obj, SArr):
            if isinstance(sl, ast.Slice):
                lo = None if sl.lower is None else self.eval(sl.lower, env)
                hi = None if sl.upper is None else self.eval(sl.upper, env)
                st = None if sl.step is None else self.eval(sl.step, env)
                view = M.slice1(obj, lo, hi, st, lineno)
                if isinstance(v, SArr):
                    M.same_len(view.length, v.length, "setitem", lineno)
                    self.store_view(view, v.snapshot(), lineno)
                else:
                    self.store_view(view, lambda k: v, lineno)
                return
            idx = self.eval(sl, env)
            if isinstance(idx, list):
                idx = self.list_to_arr(idx)
            if isinstance(v, list):
                v = self.list_to_arr(v)
            if isinstance(idx, SArr) and idx.kind == "bool":
                M.same_len(obj.length, idx.length, "maskstore", lineno)
                fm = idx.snapshot()
                old = obj.snapshot()
                if isinstance(v, SArr):
                    # a[mask] = values: the written array is `obj`'s own heap cell; content abstracted (enough for frames)
                    M.use("a[mask] = array (content abstracted)")
                    h = self.ctx.fresh_fun("mask_written")
                    old2 = obj.snapshot()
                    self.store_view(obj.with_(), lambda k, fm=fm, h=h, old2=old2: Ite(B(fm(k)), h(I(k)), old2(k)), lineno, written=lambda k, fm=fm: B(fm(k)))
                    return
                self.store_view(obj.with_(), lambda k, fm=fm, old=old: Ite(B(fm(k)), self.elem_const(v), old(k)), lineno, written=lambda k, fm=fm: B(fm(k)))
                return
            if isinstance(idx, SArr):
                return self.scatter(obj, idx, v, lineno)
            if isinstance(idx, (int, z3.ArithRef)):
                j = M.wrapneg(idx, obj.length)
                self.ctx.check("%s:index.inbounds@L%s" % (self.ctx.fname, lineno), in_range(j, obj.length),
                               "safety", lineno)
                old = obj.snapshot()
                vv = self.elem_const(v)
                self.store_view(obj.with_(), lambda k, old=old, j=j, vv=vv: Ite(I(k) == I(j), vv, old(k)), lineno, written=lambda k, j=j: I(k) == I(j))
                return
        raise Unsupported("subscript store on %r" % (obj,))

    def elem_const(self, v):
        if isinstance(v, str) and len(v) == 1:
            return ord(v)
        return v

    def scatter(self, obj, idx, v, lineno):
        """a[idx] = v with an integer index array: position p receives v[k] for the k with idx[k] == p (targets pairwise
        distinct: obligation when v is an array; for a scalar v duplicates write the same value), all other positions
        keep their value.  Given through a Skolem function hit: position -> source index.  EXACT under the obligations."""
        M.use("scatter a[idx] = v (unique targets)")
        c = self.ctx
        fi = idx.snapshot()
        n = obj.length
        m = idx.length
        tgt = lambda k: M.wrapneg(fi(k), n)
        c.oblige("%s:scatter.inbounds@L%s" % (c.fname, lineno),
                 Forall(lambda k: Implies(in_range(k, m), And(I(fi(k)) >= -I(n), I(fi(k)) < I(n)))), "safety", lineno)
        old = obj.snapshot()
        hit = c.fresh_fun("scat_src")
        if isinstance(v, SArr):
            M.same_len(m, v.length, "scatter", lineno)
            fv = v.snapshot()
            c.oblige("%s:scatter.unique@L%s" % (c.fname, lineno),
                     Forall(lambda k1, k2: Implies(And(in_range(k1, m), in_range(k2, m), k1 != k2), I(tgt(k1)) != I(tgt(k2))), nvars=2),
                     "safety", lineno, "scatter targets are pairwise distinct (else NumPy's result is order dependent)")
            # with unique targets the source index of a written position is unique
            cm = conc(m)
            if isinstance(cm, int) and cm <= 16:
                for k in range(cm):                  # concrete, small index array: state the facts outright
                    c.assume(hit(I(tgt(k))) == k)
            else:
                c.assume(Forall(lambda k: Implies(in_range(k, m), hit(I(tgt(k))) == I(k)), triggers=[], name="scatter.hit.unique"))
            val = lambda p: fv(hit(I(p)))
        else:
            vv = self.elem_const(v)
            val = lambda p: vv
            cm = conc(m)
            if isinstance(cm, int) and cm <= 16:
                for k in range(cm):
                    c.assume(And(in_range(hit(I(tgt(k))), m), I(tgt(hit(I(tgt(k))))) == I(tgt(k))))
            else:
                c.assume(Forall(lambda k: Implies(in_range(k, m), And(in_range(hit(I(tgt(k))), m), I(tgt(hit(I(tgt(k))))) == I(tgt(k)))),
                                triggers=[], name="scatter.hit"))
        is_hit = lambda p: And(in_range(hit(I(p)), m), I(tgt(hit(I(p)))) == I(p))
        self.store_view(obj.with_(), lambda p: Ite(is_hit(p), val(p), old(p)), lineno, written=is_hit)

    # ---- loops -----------------------------------------------------------------------
    def do_for(self, s, env):
        it = self.eval(s.iter, env)
        items = self.concrete_items(it)
        if items is not None:
            for x in items:
                self.assign(s.target, x, env)
                try:
                    self.exec_block(s.body, env)
                except PathEnd as e:
                    if e.kind == "break":
                        break
                    if e.kind == "continue":
                        continue
                    raise
            else:
                self.exec_block(s.orelse, env)
            return
        self.loop_with_invariant(s, env, it)

    def concrete_items(self, it):
        if isinstance(it, (list, tuple, str)):
            return list(it)
        if isinstance(it, range):
            return list(it)
        if isinstance(it, dict):
            return list(it.keys())
        if isinstance(it, (set, frozenset)):
            return sorted(it, key=repr)
        if isinstance(it, SArr):
            n = conc(it.length)
            if isinstance(n, int) and n <= 64:
                return [it.at(i) for i in range(n)]
        return None

    def do_while(self, s, env):
        k = self.loop_ordinal(s)
        spec = self.loop_specs.get((self.fn_name().split("::")[-1], k))
        if spec is None:
            # bounded concrete unrolling only if the test is concrete on every iteration
            for _ in range(256):
                t = self.to_bool(self.eval(s.test, env), s.lineno)
                if is_sym(t):
                    raise Unsupported("while loop without invariant in %s" % self.fn_name())
                if not t:
                    return
                try:
                    self.exec_block(s.body, env)
                except PathEnd as e:
                    if e.kind == "break":
                        return
                    if e.kind == "continue":
                        continue
                    raise
            raise Unsupported("while loop did not terminate concretely")
        spec.run_while(self, s, env, k)

    def loop_with_invariant(self, s, env, it):
        k = self.loop_ordinal(s)
        spec = self.loop_specs.get((self.fn_name().split("::")[-1], k))
        if spec is None:
            raise Unsupported("for loop over a symbolic iterable without invariant (%s loop %d)" % (self.fn_name(), k))
        spec.run_for(self, s, env, it, k)

    def do_try(self, s, env):
        if s.finalbody:
            raise Unsupported("try/finally")
        try:
            self.exec_block(s.body, env)
        except PathEnd as e:
            if e.kind != "raise":
                raise
            for h in s.handlers:
                names = []
                if h.type is None:
                    names = None
                elif isinstance(h.type, ast.Tuple):
                    names = [self.exc_name(x, env) for x in h.type.elts]
                else:
                    names = [self.exc_name(h.type, env)]
                if names is None or e.value in names or "Exception" in names:
                    if h.name:
                        ex = Opaque(e.value)
                        ex.fields.update(e.info or {})
                        env.vars[h.name] = ex
                    self.exec_block(h.body, env)
                    return
            raise
        else:
            self.exec_block(s.orelse, env)

    def do_yield(self, node, env):
        if self.yields is None:
            raise Unsupported("yield outside a generator contract")
        if isinstance(node, ast.YieldFrom):
            raise Unsupported("yield from")
        v = None if node.value is None else self.eval(node.value, env)
        self.yields(self, v, node, env)

    # ==================================================================================
    # expressions
    def eval(self, e, env):
        m = getattr(self, "e_" + type(e).__name__, None)
        if m is None:
            raise Unsupported("expression %s at line %s" % (type(e).__name__, getattr(e, "lineno", "?")))
        return m(e, env)

    def e_Constant(self, e, env):
        return e.value

    def e_Name(self, e, env):
        try:
            return env.lookup(e.id)
        except KeyError:
            pass
        g = env.root_globs()
        if e.id in g:
            return self.from_real(g[e.id])
        if hasattr(builtins, e.id):
            return self.from_real(getattr(builtins, e.id))
        raise Unsupported("unknown name %s" % e.id)

    def e_Tuple(self, e, env):
        return tuple(self.eval_elts(e.elts, env))

    def e_List(self, e, env):
        return list(self.eval_elts(e.elts, env))

    def eval_elts(self, elts, env):
        out = []
        for x in elts:
            if isinstance(x, ast.Starred):
                v = self.eval(x.value, env)
                items = self.concrete_items(v)
                if items is None:
                    raise Unsupported("starred symbolic iterable")
                out.extend(items)
            else:
                out.append(self.eval(x, env))
        return out

    def e_Dict(self, e, env):
        d = {}
        for k, v in zip(e.keys, e.values):
            if k is None:
                d.update(self.eval(v, env))
            else:
                d[self.hashable(self.eval(k, env))] = self.eval(v, env)
        return d

    def hashable(self, k):
        if is_sym(k):
            ck = conc(k)
            if is_sym(ck):
                raise Unsupported("symbolic dict key")
            return ck
        return k

    def e_JoinedStr(self, e, env):
        return Opaque("fstring")

    def e_DictComp(self, e, env):
        if len(e.generators) != 1:
            raise Unsupported("nested comprehension")
        g = e.generators[0]
        items = self.concrete_items(self.eval(g.iter, env))
        if items is None:
            raise Unsupported("dict comprehension over a symbolic iterable")
        out = {}
        for x in items:
            env2 = Env(parent=env)
            self.assign(g.target, x, env2)
            if all(self.truth(self.eval(c, env2), e.lineno) for c in g.ifs):
                out[self.hashable(self.eval(e.key, env2))] = self.eval(e.value, env2)
        return out

    def e_Lambda(self, e, env):
        return Closure(e, env, self)

    def e_NamedExpr(self, e, env):
        # `(name := value)`: binds in the enclosing function scope and yields the value
        v = self.eval(e.value, env)
        self.assign(e.target, v, env)
        return v

    def e_IfExp(self, e, env):
        tv = self.eval(e.test, env)
        if isinstance(tv, Forall):
            return self.eval(e.body, env) if self.truth(tv, e.lineno) else self.eval(e.orelse, env)
        t = self.to_bool(tv, e.lineno)
        ct = conc(t) if is_sym(t) else t
        if ct is True:
            return self.eval(e.body, env)
        if ct is False:
            return self.eval(e.orelse, env)
        if self.ctx.branch(t, e.lineno):
            return self.eval(e.body, env)
        return self.eval(e.orelse, env)

    def e_BoolOp(self, e, env):
        """`a and b` / `a or b` return one of their OPERANDS (Python semantics), decided by the operand's truth value"""
        isand = isinstance(e.op, ast.And)
        v = None
        for k, x in enumerate(e.values):
            v = self.eval(x, env)
            if k == len(e.values) - 1:
                return v
            d = self.ctx.branch(self.to_bool(v, e.lineno), e.lineno)
            if isand and not d:
                return v
            if not isand and d:
                return v
        return v

    def e_UnaryOp(self, e, env):
        v = self.eval(e.operand, env)
        if isinstance(e.op, ast.Not):
            t = self.to_bool(v, e.lineno)
            return (not t) if not is_sym(t) else Not(t)
        if isinstance(e.op, ast.USub):
            if is_arr_like(v):
                return M.map1(lambda x: -I(x), v)
            return -v if not is_sym(v) else -I(v)
        if isinstance(e.op, ast.Invert):
            if is_arr_like(v) and v.kind == "bool":
                return M.map1(lambda x: Not(x), v, "bool")
            if isinstance(v, (bool, z3.BoolRef)):
                return Not(v) if is_sym(v) else (not v)
            if isinstance(v, int):
                return ~v
            if isinstance(v, z3.ArithRef):
                return -I(v) - 1
        if isinstance(e.op, ast.UAdd):
            return v
        raise Unsupported("unary op")

    def e_BinOp(self, e, env):
        a = self.eval(e.left, env)
        b = self.eval(e.right, env)
        return self.binop(BINOPS[type(e.op)], a, b, e.lineno)

    def ragged_binop(self, op, a, b, lineno):
        """elementwise arithmetic where at least one operand is ragged: ragged op ragged (same shape: obligation), ragged op scalar,
        (n,1) column op ragged (the column broadcasts along each row), scalar ** ragged with base 10 (uninterpreted pow10 with its recurrence).
        The result is a ragged VALUE with the shape of the ragged operand."""
        from .pybuiltins import SRaggedObj
        M.use("elementwise arithmetic on ragged arrays (row-wise, column vectors broadcast along rows)")
        c = self.ctx
        r = a if isinstance(a, SRagged) else b
        if isinstance(a, SRagged) and isinstance(b, SRagged):
            M.same_len(a.n, b.n, "ragged.binop.rows", lineno)
            la, lb = a.lens, b.lens
            c.oblige("%s:ragged.binop.same.row.lengths@L%s" % (c.fname, lineno), Forall(lambda i: Implies(in_range(i, a.n), I(la(i)) == I(lb(i)))), "safety", lineno)

        def elem(x, i, k):
            if isinstance(x, SRagged):
                return x.at(i, k)
            if isinstance(x, SArr2):
                return x.at2(i, 0)
            if isinstance(x, SArr):
                raise Unsupported("1-D array combined with a ragged array")
            return x
        if isinstance(a, SArr2):
            if conc(a.cols) != 1:
                raise Unsupported("2-D operand of a ragged operation must be a column")
            M.same_len(a.rows, r.n, "ragged.binop.column", lineno)
        if isinstance(b, SArr2):
            if conc(b.cols) != 1:
                raise Unsupported("2-D operand of a ragged operation must be a column")
            M.same_len(b.rows, r.n, "ragged.binop.column", lineno)
        if op == "Pow":
            if not (conc(a) == 10 and isinstance(b, SRagged)):
                raise Unsupported("power with ragged operands other than 10 ** ragged")
            P10 = M.pow10()
            fn = lambda i, k: P10(I(b.at(i, k)))
            lb0 = b.lens
            c.oblige("%s:pow10.exponent.nonneg@L%s" % (c.fname, lineno),
                     Forall(lambda i, k: Implies(And(in_range(i, b.n), in_range(k, lb0(i))), I(b.at(i, k)) >= 0), nvars=2), "safety", lineno, "10 ** e needs e >= 0 for integers")
        elif op in ("FloorDiv", "Mod"):
            lr = r.lens
            c.oblige("%s:div.positive@L%s" % (c.fname, lineno),
                     Forall(lambda i, k: Implies(And(in_range(i, r.n), in_range(k, lr(i))), I(elem(b, i, k)) > 0), nvars=2), "safety", lineno, "every divisor element > 0")
            idx = 0 if op == "FloorDiv" else 1
            fn = lambda i, k: M._divmod_noassert(elem(a, i, k), elem(b, i, k))[idx]
        else:
            fn = lambda i, k: M.scalar_binop(op, elem(a, i, k), elem(b, i, k), lineno)
        out = SRaggedObj(None, r.n, r.starts, r.lens, None, r.total, r.contiguous, getattr(r, "C", None))
        out.at = fn
        return out

    def binop(self, op, a, b, lineno=None):
        if isinstance(a, SRagged) or isinstance(b, SRagged):
            return self.ragged_binop(op, a, b, lineno)
        if isinstance(a, list) and isinstance(b, list) and op == "Add":
            return a + b
        if isinstance(a, tuple) and isinstance(b, tuple) and op == "Add":
            return a + b
        if isinstance(a, list) and isinstance(b, int) and op == "Mult":
            return a * b
        if isinstance(a, list) and len(a) == 1 and isinstance(b, z3.ArithRef) and op == "Mult":
            # [x] * n for symbolic n: n copies of x (an empty list for n <= 0)
            x = a[0]
            return SymList(conc(Max(I(b), 0)), lambda k, x=x: x)
        if isinstance(a, SRec) or isinstance(b, SRec):
            h = self.class_models.get(("binop", op))
            if h:
                return h(self, a, b, lineno)
            raise Unsupported("binary op on records")
        if is_arr_like(a) or is_arr_like(b):
            return M.array_binop(op, a, b, lineno)
        return M.scalar_binop(op, a, b, lineno)

    def e_Compare(self, e, env):
        left = self.eval(e.left, env)
        res = None
        for op, rn in zip(e.ops, e.comparators):
            right = self.eval(rn, env)
            r = self.compare(CMPOPS[type(op)], left, right, e.lineno)
            res = r if res is None else (And(res, r) if (is_sym(res) or is_sym(r)) else (res and r))
            left = right
        return res

    def compare(self, op, a, b, lineno=None):
        if op in ("In", "NotIn") and hasattr(b, "contains"):
            r = b.contains(self, a)
            return r if op == "In" else (Not(r) if is_sym(r) else (not r))
        if op in ("In", "NotIn") and isinstance(b, SymList):
            # membership in a list of symbolic length: r <-> exists k < count. b[k] == a   (Skolem witness + intro facts)
            c = self.ctx
            r, w = c.fresh_bool("member"), c.fresh_int("member_at")
            eq = lambda k: M.scalar_cmp("Eq", b.at(k), a)
            c.assume(Implies(r, And(in_range(w, b.count), B(eq(w)))))
            c.assume(Forall(lambda k: Implies(And(in_range(k, b.count), B(eq(k))), r), triggers=[], name="member.intro"))
            c.index_terms.append(w)
            return r if op == "In" else Not(r)
        if op in ("Eq", "NotEq") and isinstance(a, SymList) and isinstance(b, SymList):
            # list equality: same length and equal elements (a universally quantified condition: truth() forks on it)
            a0, b0 = SymList(a.count, a.at), SymList(b.count, b.at)
            trig = []
            for lst in (a0, b0):
                pr = lst.at(z3.Int("probe"))
                if is_sym(pr) and z3.is_app(pr) and pr.num_args() == 1 and pr.decl().kind() == z3.Z3_OP_UNINTERPRETED:
                    trig.append(pr.decl())
            eq = Forall(lambda k: And(I(a0.count) == I(b0.count), Implies(in_range(k, a0.count), B(M.scalar_cmp("Eq", a0.at(k), b0.at(k))))),
                        triggers=trig, name="list.equal")
            if op == "Eq":
                return eq
            raise Unsupported("!= on lists of symbolic length")
        if op in ("In", "NotIn"):
            if isinstance(b, (list, tuple, dict, str, set)) and not is_sym(a):
                r = a in b
                return r if op == "In" else not r
            if isinstance(b, (list, tuple)) and is_sym(a):
                r = Or(*[M.scalar_cmp("Eq", a, x) for x in b])
                return r if op == "In" else Not(r)
            raise Unsupported("membership test")
        if isinstance(a, SRagged) and op in ("Eq", "NotEq", "Lt", "LtE", "Gt", "GtE") and not isinstance(b, SRagged):
            bb = ord(b) if isinstance(b, str) and len(b) == 1 else b
            d0 = a.data_at
            from .pybuiltins import SRaggedObj
            r = SRaggedObj(lambda p: M.scalar_cmp(op, d0(p), bb), a.n, a.starts, a.lens, None, a.total, a.contiguous, getattr(a, "C", None))
            r.kind = "bool"
            return r
        if op in ("Is", "IsNot") and (a is None or b is None or is_arr_like(a) or is_arr_like(b)):
            r = a is b
            return r if op == "Is" else not r
        if is_arr_like(a) or is_arr_like(b):
            return M.array_cmp(op, a, b, lineno)
        if isinstance(a, (str, tuple, list)) and isinstance(b, (str, tuple, list)) and not (isinstance(a, str) and len(a) == 1 and is_sym(b)):
            import operator
            return {"Eq": operator.eq, "NotEq": operator.ne, "Lt": operator.lt, "LtE": operator.le,
                    "Gt": operator.gt, "GtE": operator.ge, "Is": operator.is_, "IsNot": operator.is_not}[op](a, b)
        if op in ("Eq", "NotEq") and all(isinstance(x, type) or type(x).__module__ == "typing" for x in (a, b)):
            r = (a == b)                      # declared field types: Python classes and typing aliases (List[int], Optional[int], ...)
            return r if op == "Eq" else not r
        if (isinstance(a, (SRec, Closure, Opaque, types.FunctionType, type)) or isinstance(b, (SRec, Closure, Opaque, types.FunctionType, type))) \
                and op in ("Is", "IsNot", "Eq", "NotEq"):
            if a is None or b is None:
                r = a is b
            else:
                r = a is b
                if not r and op in ("Eq", "NotEq") and not (isinstance(a, type) and isinstance(b, type)):
                    raise Unsupported("equality of objects")
            return r if op in ("Is", "Eq") else not r
        return M.scalar_cmp(op, a, b)

    # ---- subscripts ------------------------------------------------------------------
    def e_Subscript(self, e, env):
        obj = self.eval(e.value, env)
        return self.subscript(obj, e.slice, env, e.lineno)

    def e_Slice(self, e, env):
        return slice(None if e.lower is None else self.eval(e.lower, env),
                     None if e.upper is None else self.eval(e.upper, env),
                     None if e.step is None else self.eval(e.step, env))

    def subscript(self, obj, sl, env, lineno):
        idx = self.eval(sl, env)
        return self.getitem(obj, idx, lineno)

    def getitem(self, obj, idx, lineno=None):
        if isinstance(obj, dict):
            k = self.hashable(idx)
            if k not in obj:
                raise PathEnd("raise", "KeyError")
            return obj[k]
        if isinstance(obj, (list, tuple, str)):
            if isinstance(idx, slice):
                lo, hi, st = [None if x is None else self.need_int(x) for x in (idx.start, idx.stop, idx.step)]
                return obj[lo:hi:st]
            k = conc(idx)
            if isinstance(k, int):
                if not (-len(obj) <= k < len(obj)):
                    raise PathEnd("raise", "IndexError")
                return obj[k]
            raise Unsupported("sequence index is symbolic")
        if hasattr(obj, "getitem"):
            return obj.getitem(self, idx, lineno)
        if isinstance(obj, SArr):
            return self.getitem_arr(obj, idx, lineno)
        if isinstance(obj, SArr2):
            return self.getitem_arr2(obj, idx, lineno)
        if isinstance(obj, SRec):
            return self.call_method(obj, "__getitem__", [idx], {}, lineno)
        if isinstance(obj, SymList) and isinstance(idx, slice):
            if idx.start is None and idx.step is None and idx.stop is not None and conc(idx.stop) is not None and not isinstance(conc(idx.stop), bool):
                k = conc(idx.stop)
                if isinstance(k, int) and k >= 0:
                    return SymList(conc(Min(obj.count, k)), obj.at)
                if is_sym(k):
                    # lst[:k] for a symbolic k: CPython clamps (a negative k counts from the end)
                    return SymList(conc(Ite(I(k) >= 0, Min(obj.count, k), Max(I(obj.count) + I(k), 0))), obj.at)
            if idx.stop is None and idx.step is None and idx.start is not None:
                # lst[k:] / lst[-k:]: the tail (CPython clamping)
                k = idx.start
                n0, at0 = obj.count, obj.at
                lo = conc(Ite(I(k) >= 0, Min(I(k), I(n0)), Max(I(n0) + I(k), 0)))
                return SymList(conc(I(n0) - I(lo)), lambda j, at0=at0, lo=lo: at0(conc(I(lo) + I(j))))
            raise Unsupported("slice of a list of symbolic length")
        if isinstance(obj, SymList):
            k = idx
            self.ctx.check("%s:index.inbounds@L%s" % (self.ctx.fname, lineno), in_range(k, obj.count), "safety", lineno)
            return obj.at(k)
        if isinstance(obj, _np.ndarray):
            k = conc(idx)
            if isinstance(k, int):
                return obj[k].item() if obj.ndim == 1 else obj[k]
            if isinstance(k, slice):
                return obj[k]
            if is_sym(k) and obj.ndim == 1:
                # lookup table indexed by a symbolic value
                return self.table_lookup(obj, k, lineno)
        if type(obj).__module__ == "typing" and not is_sym(idx):
            return obj[idx]                   # typing.List[int] and friends (declared field types)
        raise Unsupported("subscript on %r with %r" % (obj, idx))

    def table_lookup(self, table, k, lineno):
        n = len(table)
        self.ctx.check("%s:index.inbounds@L%s" % (self.ctx.fname, lineno), in_range(k, n), "safety", lineno)
        r = z3.IntVal(int(table[n - 1]))
        for j in range(n - 2, -1, -1):
            r = z3.If(I(k) == j, z3.IntVal(int(table[j])), r)
        return r

    def need_int(self, x):
        k = conc(x)
        if not isinstance(k, int):
            raise Unsupported("concrete integer needed")
        return k

    def getitem_arr(self, a, idx, lineno):
        r = self._getitem_arr(a, idx, lineno)
        dt = getattr(a, "dtype", None)
        if dt is not None and isinstance(r, (SArr, SArr2)) and getattr(r, "dtype", None) is None:
            r.dtype = dt              # indexing keeps the element type (matters for uint8 arithmetic, which wraps)
        return r

    def _getitem_arr(self, a, idx, lineno):
        if isinstance(idx, slice):
            return M.slice1(a, idx.start, idx.stop, idx.step, lineno)
        if idx is Ellipsis:
            return a
        if isinstance(idx, SArr):
            if idx.kind == "bool":
                return M.compress(a, idx, lineno)
            return M.gather(a, idx, lineno)
        if isinstance(idx, SArr2):
            return M.gather(a, idx, lineno)
        if isinstance(idx, tuple):
            # a[..., None] / a[:, None] -> column vector ; a[None] not supported
            if len(idx) == 2 and idx[1] is None and (idx[0] is Ellipsis or (isinstance(idx[0], slice) and idx[0] == slice(None, None, None))):
                f = a.snapshot()
                return SArr2.fresh(a.length, 1, lambda i, j: f(i), a.kind, a.enc)
            if len(idx) == 2 and idx[0] is Ellipsis and isinstance(idx[1], slice):
                return M.slice1(a, idx[1].start, idx[1].stop, idx[1].step, lineno)
            raise Unsupported("1-D array tuple index %r" % (idx,))
        if isinstance(idx, list):
            idx = self.list_to_arr(idx)
            return M.gather(a, idx, lineno)
        if isinstance(idx, (int, z3.ArithRef)):
            return M.index1(a, idx, lineno)
        raise Unsupported("array index %r" % (idx,))

    def list_to_arr(self, xs):
        xs = list(xs)
        n = len(xs)

        def at(i):
            ci = conc(i)
            if isinstance(ci, int):
                return xs[ci] if 0 <= ci < n else 0       # total: out-of-range reads are guarded by the caller's range condition
            r = I(xs[-1]) if n else z3.IntVal(0)
            for j in range(n - 2, -1, -1):
                r = z3.If(I(i) == j, I(xs[j]), r)
            return r
        kind = "bool" if n and all(isinstance(x, (bool, z3.BoolRef)) for x in xs) else "int"
        return SArr.fresh(n, at, kind)

    def getitem_arr2(self, a, idx, lineno):
        c = self.ctx
        full = slice(None, None, None)
        if isinstance(idx, tuple) and len(idx) == 2:
            r, cc = idx
            if r is Ellipsis:
                r = full
            if isinstance(r, slice) and isinstance(cc, slice):
                if r.step not in (None, 1) or cc.step not in (None, 1):
                    if r == full and cc.start is None and cc.stop is None and conc(cc.step) == -1:
                        f = a.snapshot2()
                        return SArr2.fresh(a.rows, a.cols, lambda i, j: f(i, I(a.cols) - 1 - I(j)), a.kind, a.enc)
                    raise Unsupported("strided 2-D slicing")
                rlo, rhi = M.norm_slice(r.start, r.stop, a.rows)
                clo, chi = M.norm_slice(cc.start, cc.stop, a.cols)
                nr, nc = M.slice_len(rlo, rhi), M.slice_len(clo, chi)
                if a.buf is None:
                    f = a.snapshot2()
                    return SArr2.fresh(nr, nc, lambda i, j: f(I(rlo) + I(i), I(clo) + I(j)), a.kind, a.enc)
                return SArr2(a.buf, nr, nc, I(a.start) + I(rlo) * I(a.rstride) + I(clo) * I(a.cstride),
                             a.rstride, a.cstride, a.kind, a.enc)
            if isinstance(r, slice) and r != full and r.step in (None, 1) and isinstance(cc, (int, z3.ArithRef)):
                sub = self.getitem_arr2(a, (r, full), lineno)
                return self.getitem_arr2(sub, (full, cc), lineno)
            if isinstance(r, slice) and r == full and isinstance(cc, (int, z3.ArithRef)):
                j = M.wrapneg(cc, a.cols)
                c.check("%s:index.inbounds@L%s" % (c.fname, lineno), in_range(j, a.cols), "safety", lineno)
                if a.buf is None:
                    f = a.snapshot2()
                    return SArr.fresh(a.rows, lambda i: f(i, j), a.kind, a.enc)
                return SArr(a.buf, a.rows, I(a.start) + I(j) * I(a.cstride), a.rstride, a.kind, a.enc)
            if isinstance(r, (int, z3.ArithRef)) and isinstance(cc, slice) and cc == full:
                return self.getitem_arr2(a, r, lineno)
            if isinstance(r, (int, z3.ArithRef)) and isinstance(cc, (int, z3.ArithRef)):
                i, j = M.wrapneg(r, a.rows), M.wrapneg(cc, a.cols)
                c.check("%s:index.inbounds@L%s" % (c.fname, lineno), And(in_range(i, a.rows), in_range(j, a.cols)), "safety", lineno)
                return a.at2(i, j)
            if isinstance(r, slice) and r == full and cc is None:
                raise Unsupported("3-D arrays")
        if isinstance(idx, tuple) and len(idx) == 3 and idx[2] is None and isinstance(idx[0], slice) and idx[0] == full:
            # a[:, f, None] -> column vector of column f
            col = self.getitem_arr2(a, (idx[0], idx[1]), lineno)
            f = col.snapshot()
            return SArr2.fresh(col.length, 1, lambda i, j: f(i), a.kind, a.enc)
        if isinstance(idx, (int, z3.ArithRef)):
            i = M.wrapneg(idx, a.rows)
            c.check("%s:index.inbounds@L%s" % (c.fname, lineno), in_range(i, a.rows), "safety", lineno)
            if a.buf is None:
                f = a.snapshot2()
                return SArr.fresh(a.cols, lambda j: f(i, j), a.kind, a.enc)
            return SArr(a.buf, a.cols, I(a.start) + I(i) * I(a.rstride), a.cstride, a.kind, a.enc)
        if isinstance(idx, slice):
            return self.getitem_arr2(a, (idx, full), lineno)
        if isinstance(idx, SArr) and idx.kind == "int":
            # row gather: a COPY
            fi = idx.snapshot()
            f = a.snapshot2()
            c.oblige("%s:gather.inbounds@L%s" % (c.fname, lineno),
                     Forall(lambda k: Implies(in_range(k, idx.length), And(I(fi(k)) >= -I(a.rows), I(fi(k)) < I(a.rows)))),
                     "safety", lineno)
            return SArr2.fresh(idx.length, a.cols, lambda i, j: f(M.wrapneg(fi(i), a.rows), j), a.kind, a.enc)
        raise Unsupported("2-D index %r" % (idx,))

    # ---- attributes ------------------------------------------------------------------
    def mangle(self, attr, env):
        if attr.startswith("__") and not attr.endswith("__"):
            owner = self.cur_owner(env)
            if owner is not None:
                return "_%s%s" % (owner.__name__.lstrip("_"), attr)
        return attr

    def e_Attribute(self, e, env):
        obj = self.eval(e.value, env)
        return self.getattr(obj, self.mangle(e.attr, env), e.lineno)

    def getattr(self, obj, name, lineno=None):
        if isinstance(obj, tuple) and len(obj) == 2 and obj[0] == "np" and name == "newaxis":
            return None
        if isinstance(obj, types.ModuleType) and obj is _np and name == "newaxis":
            return None
        if isinstance(obj, SRec):
            if obj.has(name):
                return obj.get(name)
            cls = obj._cls
            if name == "__class__":
                return cls
            if name == "__dict__":
                return SRecDict(obj)
            if cls is not None:
                h = self.class_models.get((cls, name))
                if h is not None:
                    return h(self, obj)
                try:
                    raw = inspect.getattr_static(cls, name)
                except AttributeError:
                    raise PathEnd("raise", "AttributeError")
                if isinstance(raw, property):
                    if type(raw.fget).__name__ == "_lru_cache_wrapper" and hasattr(raw.fget, "__wrapped__"):
                        # property over lru_cache (bionumpy.util.cached_property): memoised per receiver and NEVER invalidated -
                        # carried as a ghost attribute of the object so that a later change of the receiver's fields is seen
                        key = LRU_GHOST + name
                        if obj.has(key):
                            return obj.get(key)
                        v = self.call_real(raw.fget.__wrapped__, [obj], {}, lineno, owner=self.owner_of(cls, name))
                        obj.set(key, v)
                        return v
                    return self.call_real(raw.fget, [obj], {}, lineno, owner=self.owner_of(cls, name))
                if isinstance(raw, functools.cached_property):
                    # CPython: a non-data descriptor - the first access runs the function and stores the value in the instance
                    # dict under the same name, later accesses find it there (obj.has above) until it is popped / deleted
                    v = self.call_real(raw.func, [obj], {}, lineno, owner=self.owner_of(cls, name))
                    obj.set(name, v)
                    return v
                if isinstance(raw, (classmethod,)):
                    return BoundMethod(cls, self.mark_owner(raw.__func__, self.owner_of(cls, name)))
                if isinstance(raw, staticmethod):
                    return self.from_real(raw.__func__)
                if isinstance(raw, types.FunctionType):
                    return BoundMethod(obj, self.mark_owner(raw, self.owner_of(cls, name)))
                if hasattr(raw, "__wrapped__") and type(raw).__name__ == "_lru_cache_wrapper":
                    return _LruBound(obj, name, self.mark_owner(raw.__wrapped__, self.owner_of(cls, name)))
                if hasattr(raw, "__wrapped__") and isinstance(getattr(raw, "__wrapped__"), types.FunctionType):
                    raise Unsupported("decorated attribute %s" % name)
                return self.from_real(raw)
            raise PathEnd("raise", "AttributeError")
        if isinstance(obj, SArr):
            if name == "size":
                return obj.length
            if name == "shape":
                return (obj.length,)
            if name == "T":
                return obj
            if name == "dtype":
                return Opaque("dtype")
            if name == "ndim":
                return 1
            if name == "encoding":
                return obj.enc
            return BoundMethod(obj, ("arr", name))
        if isinstance(obj, SArr2):
            if name == "size":
                return I(obj.rows) * I(obj.cols)
            if name == "shape":
                return (obj.rows, obj.cols)
            if name == "ndim":
                return 2
            if name == "data":
                return obj
            if name == "encoding":
                return obj.enc
            return BoundMethod(obj, ("arr2", name))
        if isinstance(obj, SFile):
            if name == "mode":
                return getattr(obj, "mode", "rb")
            return BoundMethod(obj, ("file", name))
        if isinstance(obj, tuple) and len(obj) == 2 and obj[0] == "np":
            return ("np", obj[1] + "." + name)
        if isinstance(obj, (list, dict, tuple, str)):
            return BoundMethod(obj, ("py", name))
        if hasattr(obj, "getattr"):
            return obj.getattr(self, name, lineno)
        if isinstance(obj, types.ModuleType):
            if obj is _np:
                return ("np", name)
            return self.from_real(getattr(obj, name))
        if isinstance(obj, tuple) and len(obj) == 2 and obj[0] == "np":
            return ("np", obj[1] + "." + name)
        if obj is int and name == "from_bytes":
            from .pybuiltins import IntFromBytes
            return IntFromBytes()
        if isinstance(obj, type):
            raw = inspect.getattr_static(obj, name)
            if isinstance(raw, classmethod):
                return BoundMethod(obj, self.mark_owner(raw.__func__, self.owner_of(obj, name)))
            if isinstance(raw, staticmethod):
                return self.from_real(raw.__func__)
            if isinstance(raw, types.FunctionType):
                return self.from_real(raw)
            return self.from_real(raw)
        if isinstance(obj, _np.ndarray):
            if name == "size":
                return obj.size
            if name == "shape":
                return obj.shape
        if isinstance(obj, (int, z3.ArithRef, z3.BoolRef)) and name == "dtype":
            return Opaque("dtype")
        if isinstance(obj, slice) and name in ("start", "stop", "step"):
            return getattr(obj, name)
        if isinstance(obj, (int, z3.ArithRef, z3.BoolRef)) and name == "ndim":
            return 0                    # a NumPy scalar / 0-d array (np.asanyarray of a scalar)
        if isinstance(obj, (int, z3.ArithRef)) and name == "astype":
            class _Id:
                def sym_call(self_, ip, args, kwargs, lineno):
                    return obj
            return _Id()
        raise Unsupported("attribute %s of %r" % (name, obj))

    def owner_of(self, cls, name):
        for k in cls.__mro__:
            if name in k.__dict__:
                return k
        return cls

    def mark_owner(self, f, owner):
        return (f, owner)

    def from_real_dummy(self):
        pass

    def from_real(self, obj):
        """map a real Python object found in the module's globals to its symbolic counterpart"""
        if isinstance(obj, (int, str, bool, float, type(None), bytes)):
            return obj
        if isinstance(obj, (tuple, list)) and all(isinstance(x, (int, str, bool, float, type(None))) for x in obj):
            return obj
        return obj

    # ---- calls -----------------------------------------------------------------------
    def e_Call(self, e, env):
        # super().__init__(...)
        if isinstance(e.func, ast.Attribute) and isinstance(e.func.value, ast.Call) and \
                isinstance(e.func.value.func, ast.Name) and e.func.value.func.id == "super":
            return self.call_super(e, env)
        f = self.eval(e.func, env)
        args = self.eval_elts(e.args, env)
        kwargs = {}
        for kw in e.keywords:
            if kw.arg is None:
                kwargs.update(self.eval(kw.value, env))
            else:
                kwargs[kw.arg] = self.eval(kw.value, env)
        return self.call(f, args, kwargs, e.lineno, env)

    def call_super(self, e, env):
        selfv = None
        for nm in ("self", "cls"):
            try:
                selfv = env.lookup(nm)
                break
            except KeyError:
                pass
        owner = self.cur_owner(env)
        if owner is None or selfv is None:
            raise Unsupported("super() outside a known class")
        name = e.func.attr
        mro = selfv._cls.__mro__ if isinstance(selfv, SRec) else (selfv.__mro__ if isinstance(selfv, type) else owner.__mro__)
        idx = list(mro).index(owner)
        for k in mro[idx + 1:]:
            if name in k.__dict__:
                raw = k.__dict__[name]
                args = self.eval_elts(e.args, env)
                kwargs = {kw.arg: self.eval(kw.value, env) for kw in e.keywords}
                if k is object:
                    if name == "__setattr__" and isinstance(selfv, SRec) and len(args) == 2:
                        selfv.set(args[0], args[1])          # object.__setattr__
                    return None
                if isinstance(raw, classmethod):
                    raw = raw.__func__
                return self.call_real(raw, [selfv] + args, kwargs, e.lineno, owner=k)
        raise Unsupported("super().%s not found" % name)

    def cur_owner(self, env):
        x = env
        while x is not None:
            if getattr(x, "owner_class", None) is not None:
                return x.owner_class
            x = x.parent
        return None

    def call(self, f, args, kwargs, lineno=None, env=None):
        from . import pybuiltins
        if isinstance(f, Closure):
            return self.call_closure(f, args, kwargs)
        if isinstance(f, BoundMethod):
            if isinstance(f.func, tuple) and isinstance(f.func[0], str):
                return pybuiltins.call_method(self, f.selfv, f.func[0], f.func[1], args, kwargs, lineno)
            fn, owner = f.func if isinstance(f.func, tuple) else (f.func, None)
            return self.call_real(fn, [f.selfv] + list(args), kwargs, lineno, owner=owner)
        if isinstance(f, tuple) and len(f) == 2 and f[0] == "np":
            return pybuiltins.call_np(self, f[1], args, kwargs, lineno)
        if isinstance(f, tuple) and len(f) == 2 and isinstance(f[0], types.FunctionType):
            return self.call_real(f[0], args, kwargs, lineno, owner=f[1])
        if hasattr(f, "sym_call"):
            return f.sym_call(self, args, kwargs, lineno)
        if isinstance(f, SRec):
            if f.has("__call__"):
                return self.call(f.get("__call__"), args, kwargs, lineno, env)
            return self.call_method(f, "__call__", args, kwargs, lineno)
        if isinstance(f, type):
            return self.construct(f, args, kwargs, lineno)
        if isinstance(f, (types.BuiltinFunctionType, types.FunctionType)) or callable(f):
            return self.call_real(f, args, kwargs, lineno)
        raise Unsupported("call of %r" % (f,))

    def call_closure(self, f, args, kwargs):
        env = Env(parent=f.env)
        node = f.node
        self.bind_params(node, env, args, dict(kwargs))
        if isinstance(node, ast.Lambda):
            return self.eval(node.body, env)
        try:
            self.cur_fn.append([self.fn_name() + "." + node.name, 0, node])
            self.exec_block(node.body, env)
            return None
        except PathEnd as e:
            if e.kind == "return":
                return e.value
            raise
        finally:
            self.cur_fn.pop()

    def construct(self, cls, args, kwargs, lineno):
        from . import pybuiltins
        h = self.class_models.get(cls) or pybuiltins.CLASS_MODELS.get(cls.__module__ + "." + cls.__qualname__)
        if h is not None:
            return h(self, args, kwargs, lineno)
        if cls.__module__.startswith("bionumpy"):
            obj = SRec(cls)
            init = None
            for k in cls.__mro__:
                if "__init__" in k.__dict__:
                    init, owner = k.__dict__["__init__"], k
                    break
            if init is not None and owner is not object:
                self.call_real(init, [obj] + list(args), kwargs, lineno, owner=owner)
            return obj
        if cls in pybuiltins.BUILTINS:
            return pybuiltins.call_builtin(self, cls, args, kwargs, lineno)
        raise Unsupported("construction of %s" % cls.__qualname__)

    def call_real(self, fn, args, kwargs, lineno=None, owner=None):
        """Call of a real Python function object: contract > model > inline source."""
        from . import pybuiltins
        key = getattr(fn, "__module__", "") or ""
        qn = key + "." + getattr(fn, "__qualname__", repr(fn))
        h = self.registry.get(qn)
        if h is not None:
            return h(self, args, kwargs, lineno)
        if qn in pybuiltins.FUNC_MODELS:
            return pybuiltins.FUNC_MODELS[qn](self, args, kwargs, lineno)
        nm = getattr(fn, "__name__", None)
        if nm and getattr(_np, nm, None) is fn:
            return pybuiltins.call_np(self, nm, args, kwargs, lineno)       # `from numpy import maximum` / a NumPy function held in a variable
        if isinstance(fn, types.BuiltinFunctionType) or fn in pybuiltins.BUILTINS or isinstance(fn, type):
            return pybuiltins.call_builtin(self, fn, args, kwargs, lineno)
        if isinstance(fn, types.FunctionType) and key.startswith("bionumpy"):
            node, info = function_ast(fn)
            self.inlined[info["qualname"]] = info
            env = Env(globs=fn.__globals__)
            env.owner_class = owner
            self.bind_closure(fn, env)
            self.bind_params(node, env, list(args), dict(kwargs))
            return self.exec_body_as_function(node, env, info["qualname"])
        if hasattr(fn, "__wrapped__") and type(fn).__name__ == "_lru_cache_wrapper":
            M.use("functools.lru_cache / cached_property = pure memoisation (receiver fields unmodified between calls)")
            return self.call_real(fn.__wrapped__, args, kwargs, lineno, owner)
        if hasattr(fn, "__wrapped__"):
            raise Unsupported("decorated callable %s" % qn)
        raise Unsupported("call to %s (no contract, no model)" % qn)

    def call_method(self, obj, name, args, kwargs, lineno):
        m = self.getattr(obj, name, lineno)
        return self.call(m, args, kwargs, lineno)

    # ---- comprehensions --------------------------------------------------------------
    def e_ListComp(self, e, env):
        return self.comprehension(e, env)

    def e_GeneratorExp(self, e, env):
        return self.comprehension(e, env)

    def comprehension(self, e, env):
        if len(e.generators) != 1:
            raise Unsupported("nested comprehension")
        g = e.generators[0]
        it = self.eval(g.iter, env)
        items = self.concrete_items(it)
        if items is not None:
            out = []
            for x in items:
                env2 = Env(parent=env)
                self.assign(g.target, x, env2)
                if all(self.truth(self.eval(c, env2), e.lineno) for c in g.ifs):
                    out.append(self.eval(e.elt, env2))
            return out
        if g.ifs:
            raise Unsupported("filtered comprehension over a symbolic iterable")
        # symbolic length: element function
        n, elem = self.sym_iter(it)

        def at(j):
            env2 = Env(parent=env)
            self.assign(g.target, elem(j), env2)
            return self.eval(e.elt, env2)
        return SymList(n, at)

    def sym_iter(self, it):
        if isinstance(it, SymRange):
            return it.n, (lambda j: I(it.lo) + I(j))
        if isinstance(it, SArr):
            return it.length, it.snapshot()
        if isinstance(it, SymList):
            return it.count, it.at
        if hasattr(it, "sym_rows"):
            return it.sym_rows(self)
        from .pybuiltins import SymIter
        if isinstance(it, SymIter):
            # `for x in iterator`: the remaining items; the ghost position advances with the loop and is n afterwards
            p0 = it.pos

            def elem(j, it=it, p0=p0):
                v = it.pull(self, conc(I(p0) + I(j)))
                it.pos = conc(I(p0) + I(j) + 1)
                return v
            return conc(Max(I(it.n) - I(p0), 0)), elem
        if isinstance(it, SymZip):
            parts = [self.sym_iter(p) for p in it.parts]
            n = parts[0][0]
            for q in parts[1:]:       # zip stops at the shortest operand
                n = conc(Min(I(n), I(q[0])))
            return n, (lambda j: tuple(p[1](j) for p in parts))
        raise Unsupported("symbolic iteration over %r" % (it,))


class SymRange:
    def __init__(self, lo, hi):
        self.lo, self.hi = lo, hi
        self.n = conc(Max(I(hi) - I(lo), 0))


class SymZip:
    def __init__(self, parts):
        self.parts = parts


def is_arr_like(v):
    return isinstance(v, (SArr, SArr2))
