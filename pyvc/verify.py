"""Driver of engine P: explore every path of a function under a contract, collect and discharge
obligations, aggregate per obligation id, run canaries (in-memory mutants that must fail)."""
import ast
import os
import time
import traceback
import z3

from . import core, extract, solve, npmodel
from .core import Ctx, PathEnd, Unsupported, Forall, B, conc, is_sym
from .interp import Interp


class Contract:
    """Sidecar contract for one function of /repo (the repository file is not edited).

    name      : short id, e.g. "C17.getitem"
    target    : () -> real function object (imported from /repo on every run)
    setup     : (ctx) -> state with .args (list), .kwargs (dict), .selfv (or None) and ghost fields
    requires  : (ctx, st) -> list of facts assumed on entry (z3 formulas, Forall with triggers)
    ensures   : (ctx, st, ret) -> list of (label, goal) checked on every normally returning path
    raises    : {exc name: (ctx, st) -> goal that must hold whenever that exception is raised}
                an exception not listed is an obligation `noraise` (= the path must be infeasible)
    loops     : {ordinal: LoopSpec}
    callees   : {qualified real name: handler(interp, args, kwargs, lineno)}  (modular calls)
    canaries  : [(label, old, new)] textual single-line patches of the function source that must make
                some obligation fail
    """

    def __init__(self, name, target, setup, requires=None, ensures=None, raises=None, loops=None, callees=None,
                 canaries=(), dropped=(), decorators=None, generator=None, on_exit=None, note="", max_paths=400,
                 class_models=None, timeout_ms=None, concretize=None, hints=None, stop_after=None, stop_before=None, rounds=None, ghost=None, lean=(), may_raise=()):
        self.name, self.target, self.setup = name, target, setup
        # partial correctness on named statements: [(exception, obligation kind, statement slug)] - the safety obligation of that kind at
        # that statement is NOT proved; the contract then says what holds WHENEVER the function returns (the real statement raises otherwise)
        self.may_raise = list(may_raise)
        self.requires = requires or (lambda ctx, st: [])
        self.ensures = ensures or (lambda ctx, st, ret: [])
        self.raises = raises or {}
        self.loops = loops or {}
        self.callees = callees or {}
        self.canaries = list(canaries)
        self.dropped = list(dropped)
        self.decorators = decorators or {}
        self.generator = generator
        self.note = note
        self.max_paths = max_paths
        self.class_models = class_models or {}
        self.timeout_ms = timeout_ms
        self.concretize = concretize
        self.stop_before = stop_before
        self.ghost = ghost or []      # [(statement text prefix, fn(ip, env, st))] lemma invocations at program points
        self.lean = list(lean)        # Lean lemma files whose statements the contract uses as arithmetic facts (checked on every run)
        self.rounds = rounds          # instantiation rounds for this contract (default: solve.ROUNDS)
        self.stop_after = stop_after    # text of the last statement of the verified prefix (ensures then receives the locals)
        self.hints = hints      # (ctx, st, skolem constants) -> terms to mention (guides hypothesis instantiation; adds no facts)


class Result:
    def __init__(self, contract):
        self.contract = contract
        self.obligations = {}       # oid -> dict(status, kind, paths, time_s, backend, note, models)
        self.paths = 0
        self.undecided = []         # (reason)
        self.functions = {}         # qualname -> info of every function body executed
        self.time_s = 0.0
        self.samples = []
        self.prims = set()
        self.path_outcomes = {}
        self.vacuity = None
        self.crashed = False

    def all_discharged(self):
        return not self.undecided and self.obligations and all(o["status"] == "unsat" for o in self.obligations.values())

    def failed(self):
        return {k: o for k, o in self.obligations.items() if o["status"] == "sat"}

    def unknown(self):
        return {k: o for k, o in self.obligations.items() if o["status"] not in ("sat", "unsat")}


def run_contract(con, timeout_ms=10000, keep_models=True, verbose=False):
    timeout_ms = con.timeout_ms or timeout_ms
    res = Result(con)
    t0 = time.time()
    fn = con.target()
    work = [[]]
    npmodel.USED.clear()
    while work:
        dec = work.pop()
        if res.paths >= con.max_paths:
            res.undecided.append("path budget (%d) exhausted" % con.max_paths)
            break
        ctx = Ctx(dec, fname=con.name)
        core.CUR = ctx
        ip = Interp(ctx, registry=dict(con.callees))
        ip.class_models.update(con.class_models)
        ip.ghost_before = [(pat, (lambda ip_, env_, fn=fn: fn(ip_, env_, holder_st["st"]))) for pat, fn in con.ghost]
        holder_st = {"st": None}
        if con.stop_before is not None:
            import ast as _ast
            ip.stop_before = (lambda stmt, t=con.stop_before: _ast.unparse(stmt).replace(" ", "").replace('"', "'").startswith(t.replace(" ", "").replace('"', "'")))
        if con.stop_after is not None:
            import ast as _ast
            ip.stop_after = (lambda stmt, t=con.stop_after: _ast.unparse(stmt).replace(" ", "").replace('"', "'").startswith(t.replace(" ", "").replace('"', "'")))
        for k, spec in con.loops.items():
            ip.loop_specs[k] = spec
        outcome = None
        ctx.ip = ip
        ctx.allowed_raises = set(con.raises)
        ctx.may_raise = list(con.may_raise)
        try:
            st = con.setup(ctx)
            ctx.assume(*con.requires(ctx, st))
            st.ctx, st.ip = ctx, ip
            holder_st["st"] = st
            if con.generator is not None:
                con.generator.install(ip, ctx, st)
            try:
                if isinstance(fn, tuple) and fn[0] == "ast":
                    import importlib
                    node, info, _src = extract.find_function(fn[1], fn[2])
                    ret = ip.run_ast(node, info, vars(importlib.import_module(fn[3])), list(st.args), dict(getattr(st, "kwargs", {})))
                else:
                    ret = ip.run_function(fn, list(st.args), dict(getattr(st, "kwargs", {})), getattr(st, "selfv", None))
                outcome = "return"
                if con.generator is not None:
                    con.generator.at_end(ip, ctx, st)
                try:
                    goals = list(con.ensures(ctx, st, ret))
                except (AttributeError, TypeError, KeyError, IndexError) as e:
                    # the result does not even have the shape the postcondition talks about
                    goals = [("result.has.the.contracted.shape (%s)" % type(e).__name__, z3.BoolVal(False))]
                for label, goal in goals:
                    ctx.oblige("%s:ensures.%s" % (con.name, label), goal, "ensures")
            except PathEnd as e:
                if e.kind == "raise":
                    outcome = "raise:%s" % e.value
                    site = "+%d" % (e.node.lineno - 0) if e.node is not None else "?"
                    allow = con.raises.get(e.value, con.raises.get("*"))
                    if allow is None:
                        ctx.oblige("%s:noraise.%s" % (con.name, e.value), z3.BoolVal(False), "raises",
                                   getattr(e.node, "lineno", None),
                                   "exception %s must be unreachable under the precondition" % e.value)
                    else:
                        for label, goal in allow(ctx, st):
                            ctx.oblige("%s:raises.%s.%s" % (con.name, e.value, label), goal, "raises",
                                       getattr(e.node, "lineno", None))
                elif e.kind == "infeasible":
                    outcome = "infeasible"
                elif e.kind == "stop":
                    outcome = "stop"
                else:
                    raise Unsupported("stray %s" % e.kind)
        except Unsupported as e:
            res.undecided.append("Unsupported: %s" % e)
            outcome = "unsupported"
            if verbose:
                traceback.print_exc()
        except Exception as e:
            res.undecided.append("engine error (checker defect, not a verdict about the code): %r" % (e,))
            res.crashed = True
            outcome = "engine-error"
            if verbose:
                traceback.print_exc()
        work.extend(ctx.pending)
        res.paths += 1
        res.path_outcomes[outcome] = res.path_outcomes.get(outcome, 0) + 1
        res.functions.update(ip.inlined)
        # discharge this path's obligations
        ctx.solving = True
        if con.rounds:
            solve.ROUNDS_OVERRIDE = con.rounds
        else:
            solve.ROUNDS_OVERRIDE = None
        for ob in list(ctx.obligations):
            if con.hints is not None and outcome != "unsupported":
                try:
                    for t in con.hints(ctx, st, list(ob.extra_terms)):
                        ob.path.append(t == t)          # a tautology: only makes the term visible to instantiation
                        if z3.is_int(t):
                            ob.extra_terms.append(t)    # ... and trigger-less hypotheses are instantiated at it
                except Exception as e:
                    res.undecided.append("hints failed: %r" % (e,))
            try:
                r = getattr(ob, "presolved", None) or solve.solve_obligation(ctx, ob, timeout_ms)
            except Exception as e:
                res.undecided.append("engine error while discharging %s: %r" % (ob.oid, e))
                res.crashed = True
                if verbose:
                    traceback.print_exc()
                r = {"status": "error", "backend": "none", "time_s": 0.0}
            agg = res.obligations.setdefault(ob.oid, {"status": "unsat", "kind": ob.kind, "paths": 0, "time_s": 0.0,
                                                      "backends": {}, "note": ob.note, "instances": 0})
            agg["paths"] += 1
            agg["time_s"] += r["time_s"]
            agg["instances"] += r.get("instances", 0)
            agg["backends"][r["backend"]] = agg["backends"].get(r["backend"], 0) + 1
            if r.get("crosscheck"):
                k = "cross-check " + r["crosscheck"]
                agg["backends"][k] = agg["backends"].get(k, 0) + 1
            if r["status"] == "sat":
                agg["status"] = "sat"
                if keep_models and "model" in r and "model" not in agg:
                    agg["model"] = r["model"]
                    agg["model_ctx"] = (ctx, st, ob)
            elif r["status"] != "unsat" and agg["status"] == "unsat":
                agg["status"] = "unknown"
            if len(res.samples) < 3 and r["status"] == "unsat" and ob.kind in ("ensures", "assert"):
                res.samples.append({"obligation": ob.oid, "smt2_head": solve.smt2_text(ob)[:1500]})
    res.prims = set(npmodel.USED)
    res.time_s = round(time.time() - t0, 3)
    return res


def vacuity_check(con, timeout_ms=5000):
    """requires must be satisfiable (with instantiated hypotheses at a few generic points)."""
    ctx = Ctx([], fname=con.name)
    core.CUR = ctx
    ip = Interp(ctx, registry=dict(con.callees))
    ip.class_models.update(con.class_models)
    ctx.ip = ip
    try:
        st = con.setup(ctx)
    except PathEnd:
        return "unknown"
    ctx.assume(*con.requires(ctx, st))
    s = z3.Solver()
    s.set("timeout", timeout_ms)
    s.add(*ctx.path)
    ks = [ctx.fresh_int("vac") for _ in range(2)]
    for sc in ctx.schemas:
        if sc.nvars == 1:
            for k in ks:
                s.add(sc.instantiate(k))
    s.add(*ctx.path)
    return str(s.check())


def run_canary(con, label, old, new, timeout_ms=10000, where=None):
    """apply a textual patch to the source (of the target, or of the inlined callee `where()`) IN MEMORY and re-verify:
    some obligation must fail"""
    fn = where() if where is not None else con.target()
    import inspect
    if isinstance(fn, tuple) and fn[0] == "ast":
        path = os.path.realpath(os.path.join(extract.REPO, fn[1]))
        src, tree = extract.parse_file(path)
        node, info, _ = extract.find_function(fn[1], fn[2])
    else:
        path = os.path.realpath(inspect.getsourcefile(fn))
        src, tree = extract.parse_file(path)
        node, info = extract.function_ast(fn)
    seg = ast.get_source_segment(src, node)
    if seg.count(old) != 1:
        return {"label": label, "status": "not-applicable", "reason": "pattern occurs %d times in %s" % (seg.count(old), info["qualname"])}
    new_seg = seg.replace(old, new)
    if new_seg.count("\n") != seg.count("\n"):
        return {"label": label, "status": "not-applicable", "reason": "patch changes line count"}
    start = src.index(seg)
    patched = src[:start] + new_seg + src[start + len(seg):]
    saved = extract._FILES[path]
    base = getattr(con, "_base_discharged", None)
    if base is None or getattr(con, "_base_all", None) is None:
        b = run_contract(con, timeout_ms, keep_models=False)
        base = con._base_discharged = {k for k, o in b.obligations.items() if o["status"] == "unsat"}
        con._base_all = set(b.obligations)
    base_all = con._base_all
    try:
        t2 = ast.parse(patched)
        for n in ast.walk(t2):
            for ch in ast.iter_child_nodes(n):
                ch._parent = n
        extract._FILES[path] = (patched, t2)
        r = run_contract(con, timeout_ms, keep_models=False)
    finally:
        extract._FILES[path] = saved
    # newly failing only: discharged on the unpatched source, or an obligation that the unpatched source does not even generate
    KEY = core.Ctx.oid_key
    kb, ka = {KEY(k) for k in base}, {KEY(k) for k in base_all}
    failed = sorted(k for k in r.failed() if KEY(k) in kb or KEY(k) not in ka or k.split(":")[-1].startswith("ensures.result.has.the.contracted.shape"))
    unk = sorted(r.unknown())
    status = "killed" if failed else ("undecided" if (unk or r.undecided) else "survived")
    return {"label": label, "status": status, "failed": failed[:4], "unknown": unk[:4], "undecided": r.undecided[:2]}
