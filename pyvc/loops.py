"""Loop contracts: an inductive invariant per loop, keyed by (function qualname, loop ordinal).

  inv(ip, env)   -> [(label, formula | Forall)]   evaluated over the current environment
  havoc(ip, env) -> None                          replaces everything the loop body may modify by fresh symbolic
                                                  values (variables, object fields, heap cells, ghost file position)
Obligations: the invariant holds on entry; it is preserved by one arbitrary iteration (from a havoc'ed state that
satisfies it); code after the loop runs from a havoc'ed state satisfying invariant and negated guard.
A `return`/`raise` inside the body is checked against the function contract from the havoc'ed state.
Termination is NOT proved.
"""
from .core import PathEnd, Unsupported, Forall, B, I, is_sym


def _named(fn, what):
    """loop specifications talk about the function's local variables BY NAME: after a rename the specification no longer applies -
    that is a contract to update (undecided), not a verdict about the code and not a checker crash"""
    def wrapped(ip, env):
        try:
            return fn(ip, env)
        except KeyError as e:
            raise Unsupported("the contract's loop %s refers to the local variable %s, which the function no longer has (renamed or removed): "
                              "update the contract file" % (what, e))
    return wrapped


class LoopSpec:
    def __init__(self, inv, havoc, name="loop"):
        self.inv, self.havoc, self.name = _named(inv, "invariant"), _named(havoc, "havoc"), name

    def _oblige(self, ip, env, k, phase):
        c = ip.ctx
        for label, g in self.inv(ip, env):
            c.oblige("%s:loop%d.invariant.%s.%s" % (c.fname, k, phase, label), g, "invariant")

    def _assume(self, ip, env):
        for label, g in self.inv(ip, env):
            ip.ctx.assume(g)

    def run_while(self, ip, s, env, k):
        c = ip.ctx
        self._oblige(ip, env, k, "init")
        self.havoc(ip, env)
        self._assume(ip, env)
        if ip.truth(ip.eval(s.test, env), s.lineno):
            try:
                ip.exec_block(s.body, env)
            except PathEnd as e:
                if e.kind == "continue":
                    pass
                elif e.kind == "break":
                    raise Unsupported("break inside a contracted while loop")
                else:
                    raise
            self._oblige(ip, env, k, "preserved")
            raise PathEnd("stop")
        if s.orelse:
            ip.exec_block(s.orelse, env)

    def run_for(self, ip, s, env, it, k):
        """for target in <symbolic iterable of n items>: the loop counter `_it` is a ghost available to inv/havoc as env.vars['_it']"""
        c = ip.ctx
        n, elem = ip.sym_iter(it)
        env.vars["_it"] = 0
        env.vars["_n"] = n
        self._oblige(ip, env, k, "init")
        j = c.fresh_int("it")
        env.vars["_it"] = j
        c.assume(j >= 0, j <= I(n))
        self.havoc(ip, env)
        self._assume(ip, env)
        if ip.ctx.branch(j < I(n), s.lineno):
            ip.assign(s.target, elem(j), env)
            try:
                ip.exec_block(s.body, env)
            except PathEnd as e:
                if e.kind == "continue":
                    pass
                elif e.kind == "break":
                    raise Unsupported("break inside a contracted for loop")
                else:
                    raise
            env.vars["_it"] = j + 1
            self._oblige(ip, env, k, "preserved")
            raise PathEnd("stop")
        # j == n: after the loop
        if hasattr(it, "pull") and hasattr(it, "pos"):
            it.pos = it.n                     # an iterator that was looped over is exhausted
        if s.orelse:
            ip.exec_block(s.orelse, env)


class GeneratorSpec:
    """generator functions: every `yield v` is reported to on_yield(ip, st, v, node, env), which records the value in ghost
    state and may raise obligations that must hold AT the yield (the consumer may stop pulling afterwards)"""

    def __init__(self, on_yield, at_end=None):
        self.on_yield, self._at_end = on_yield, at_end

    def install(self, ip, ctx, st):
        ip.yields = lambda ip_, v, node, env: self.on_yield(ip_, st, v, node, env)

    def at_end(self, ip, ctx, st):
        if self._at_end is not None:
            self._at_end(ip, st)


class CatList:
    """a Python list of arrays/tables abstracted to (number of items, their concatenation): exact for append, len,
    [0] of a singleton, np.concatenate, sizes, and passing on"""

    def __init__(self, count, cat):
        self.count, self.cat = count, cat

    def getattr(self, ip, name, lineno):
        if name == "append":
            return _Append(self)
        raise Unsupported("CatList.%s" % name)

    def sym_len(self, ip):
        return self.count

    def getitem(self, ip, idx, lineno):
        from .core import conc
        if conc(idx) == 0:
            ip.ctx.check("%s:catlist.singleton@L%s" % (ip.ctx.fname, lineno), I(self.count) == 1, "safety", lineno,
                         "list[0] is used as the whole data only when the list has one item")
            return self.cat
        raise Unsupported("CatList index")


class _Append:
    def __init__(self, cl):
        self.cl = cl

    def sym_call(self, ip, args, kwargs, lineno):
        from .core import conc, Ite, SArr
        a = args[0]
        cl = self.cl
        f, g, n0 = cl.cat.snapshot(), a.snapshot(), cl.cat.length
        cl.cat = SArr.fresh(conc(I(n0) + I(a.length)), lambda j: Ite(I(j) < I(n0), f(j), g(I(j) - I(n0))))
        cl.count = conc(I(cl.count) + 1)


def as_catlist(x):
    from .core import SArr
    if isinstance(x, CatList):
        return x
    if isinstance(x, list):
        cl = CatList(0, SArr.fresh(0, lambda j: 0))
        for a in x:
            _Append(cl).sym_call(None, [a], {}, None)
        return cl
    raise Unsupported("not a list of arrays: %r" % (x,))
