"""Loop contracts: an inductive invariant per loop, keyed by (function qualname, loop ordinal).

  inv(ip, env)   -> [(label, formula | Forall)]   evaluated over the current environment
  havoc(ip, env) -> None                          replaces everything the loop body may modify by fresh symbolic
                                                  values (variables, object fields, heap cells, ghost file position)
Obligations: the invariant holds on entry; it is preserved by one arbitrary iteration (from a havoc'ed state that
satisfies it); code after the loop runs from a havoc'ed state satisfying invariant and negated guard.
A `return`/`raise` inside the body is checked against the function contract from the havoc'ed state.
Termination is NOT proved.
"""
from .core import PathEnd, Unsupported, Forall, B, I, is_sym


class LoopSpec:
    def __init__(self, inv, havoc, name="loop"):
        self.inv, self.havoc, self.name = inv, havoc, name

    def _oblige(self, ip, env, k, phase):
        c = ip.ctx
        for label, g in self.inv(ip, env):
            c.oblige("%s:loop%d.invariant.%s.%s" % (c.fname, k, phase, label), g, "invariant")

    def _assume(self, ip, env):
        for label, g in self.inv(ip, env):
            ip.ctx.assume(g)

    def run_while(self, ip, s, env, k):
        c = ip.ctx
        self._oblige(ip, env, k, "init")
        self.havoc(ip, env)
        self._assume(ip, env)
        if ip.truth(ip.eval(s.test, env), s.lineno):
            try:
                ip.exec_block(s.body, env)
            except PathEnd as e:
                if e.kind == "continue":
                    pass
                elif e.kind == "break":
                    raise Unsupported("break inside a contracted while loop")
                else:
                    raise
            self._oblige(ip, env, k, "preserved")
            raise PathEnd("stop")
        if s.orelse:
            ip.exec_block(s.orelse, env)

    def run_for(self, ip, s, env, it, k):
        """for target in <symbolic iterable of n items>: the loop counter `_it` is a ghost available to inv/havoc as env.vars['_it']"""
        c = ip.ctx
        n, elem = ip.sym_iter(it)
        env.vars["_it"] = 0
        env.vars["_n"] = n
        self._oblige(ip, env, k, "init")
        j = c.fresh_int("it")
        env.vars["_it"] = j
        c.assume(j >= 0, j <= I(n))
        self.havoc(ip, env)
        self._assume(ip, env)
        if ip.ctx.branch(j < I(n), s.lineno):
            ip.assign(s.target, elem(j), env)
            try:
                ip.exec_block(s.body, env)
            except PathEnd as e:
                if e.kind == "continue":
                    pass
                elif e.kind == "break":
                    raise Unsupported("break inside a contracted for loop")
                else:
                    raise
            env.vars["_it"] = j + 1
            self._oblige(ip, env, k, "preserved")
            raise PathEnd("stop")
        # j == n: after the loop
        if s.orelse:
            ip.exec_block(s.orelse, env)
