"""Mechanical extraction of function source from /repo's current working tree.

The verified text IS the code that runs: for a real function object we take its source file
(inspect), re-read that file from disk on every run, parse it with `ast` and pick the FunctionDef
at the function's first line.  What the executor drops (and every evidence file lists): docstrings,
annotations, logger.*/print/warnings statements, message expressions of raise/assert, decorators
(each named with its assumed meaning in the contract).
"""
import ast
import hashlib
import inspect
import os

_FILES = {}
REPO = os.environ.get("BIONUMPY_REPO", "/repo")


def parse_file(path):
    path = os.path.realpath(path)
    if path not in _FILES:
        src = open(path).read()
        tree = ast.parse(src)
        for node in ast.walk(tree):
            for ch in ast.iter_child_nodes(node):
                ch._parent = node
        _FILES[path] = (src, tree)
    return _FILES[path]


def qualname_of(node):
    parts = []
    n = node
    while n is not None and not isinstance(n, ast.Module):
        if isinstance(n, (ast.FunctionDef, ast.ClassDef, ast.AsyncFunctionDef)):
            parts.append(n.name)
        n = getattr(n, "_parent", None)
    return ".".join(reversed(parts))


def function_ast(fn):
    """real function object -> (FunctionDef node from the file on disk, info dict)"""
    fn = inspect.unwrap(fn) if hasattr(fn, "__wrapped__") else fn
    code = fn.__code__
    path = inspect.getsourcefile(fn) or code.co_filename
    src, tree = parse_file(path)
    first = code.co_firstlineno
    best = None
    for node in ast.walk(tree):
        if isinstance(node, (ast.FunctionDef, ast.Lambda)) :
            ln = node.lineno
            if isinstance(node, ast.FunctionDef) and node.decorator_list:
                ln = min(ln, min(d.lineno for d in node.decorator_list))
            if ln == first and (isinstance(node, ast.Lambda) or node.name == fn.__name__):
                best = node
                break
    if best is None:
        raise LookupError("source of %s not found in %s" % (fn.__qualname__, path))
    seg = ast.get_source_segment(src, best) or ""
    rel = os.path.relpath(os.path.realpath(path), REPO)
    info = {"qualname": "%s::%s" % (rel, fn.__qualname__), "file": rel, "lineno": best.lineno,
            "sha256": hashlib.sha256(seg.encode()).hexdigest()[:16],
            "decorators": [ast.unparse(d) for d in getattr(best, "decorator_list", [])]}
    return best, info


def find_function(relpath, qualname):
    """locate by file + qualified name (used for nested defs that have no importable object)"""
    path = os.path.join(REPO, relpath)
    src, tree = parse_file(path)
    for node in ast.walk(tree):
        if isinstance(node, ast.FunctionDef) and qualname_of(node) == qualname:
            seg = ast.get_source_segment(src, node) or ""
            return node, {"qualname": "%s::%s" % (relpath, qualname), "file": relpath, "lineno": node.lineno,
                          "sha256": hashlib.sha256(seg.encode()).hexdigest()[:16],
                          "decorators": [ast.unparse(d) for d in node.decorator_list]}, src
    raise LookupError("%s::%s not found" % (relpath, qualname))
