"""Differential self-check of engine P's semantics against CPython/NumPy/npstructures.

Every snippet below is a small function in the verified subset.  It is (1) executed by CPython on concrete inputs and (2) executed
by the symbolic engine on the same inputs given as symbolic arrays with concrete content; the engine's result must be ENTAILED to
equal CPython's (the negated equality is discharged like any obligation: `unsat`).  A mismatch means the engine's model of a
primitive (slice normalisation, division, gather/scatter, flatnonzero, cumsum, delete, searchsorted, views, ragged arrays ...)
disagrees with the real library on that input: the run is reported as a checker defect (exit 3), never as a property violation.
The inputs are enumerated small cases (a bounded validation of the ASSUMED primitive contracts).
"""
import ast
import itertools
import textwrap
import numpy as np
import z3

from . import core, solve
from .core import Ctx, I, B, And, conc, SArr, SArr2, PathEnd, Unsupported
from .interp import Interp, Env

SNIPPETS = []


def snippet(name, src, inputs, exact=True):
    """exact=False: the primitive is modelled by Skolem functions plus axioms (flatnonzero, prefix sums, ...); there the check is
    that CPython's answer is CONSISTENT with the engine's facts (an unsound axiom makes it inconsistent), not that it is entailed"""
    SNIPPETS.append((name, textwrap.dedent(src), inputs, exact))


def ints(*xs):
    return np.array(xs, dtype=np.int64)


A5 = ints(3, -1, 4, 1, 5)
A6 = ints(0, 2, 2, 5, 7, 9)
_bounds = [None, 0, 1, 2, 4, 5, 7, -1, -2, -5, -6]
snippet("slice", "def f(a, lo, hi):\n    return a[lo:hi]", [(A5, lo, hi) for lo in _bounds for hi in _bounds])
snippet("slice-step", "def f(a, lo, st):\n    return a[lo::st]", [(A6, lo, st) for lo in (None, 0, 1, 3, 6, 7) for st in (1, 2, 3)])
snippet("slice-neg-stop-step", "def f(a, n):\n    return a[n - 1:-1:n]", [(A6, n) for n in (1, 2, 3, 4)])
snippet("reverse", "def f(a):\n    return a[::-1]", [(A5,), (ints(),), (ints(7),)])
snippet("trim-w", "def f(a, w):\n    return a[: (-w + 1) or None]", [(A5, w) for w in (1, 2, 3, 5, 6)])
snippet("neg-zero-slice", "def f(a, k):\n    return a[-k:]", [(A5, k) for k in (0, 1, 2, 5)])
snippet("index", "def f(a, i):\n    return a[i]", [(A5, i) for i in (0, 1, 4, -1, -5)])
snippet("floordiv-mod", "def f(a, c):\n    return a // c + 10 * (a % c)", [(ints(-7, -1, 0, 1, 6, 13), c) for c in (1, 2, 3, 7)])
snippet("bits", "def f(a):\n    return (a & 15) + 100 * (a >> 4) + 1000 * (a & 16)", [(ints(0, 1, 15, 16, 17, 31, 255, 256, 1000),)])
snippet("gather", "def f(a, idx):\n    return a[idx]", [(A5, ints(0, 4, 4, -1, 2)), (A5, ints())])
snippet("gather2d", "def f(a, s):\n    return a[s[:, None] + np.arange(2)].ravel()", [(A6, ints(0, 3, 4))])
snippet("mask", "def f(a):\n    return a[a > 1]", [(A5,), (ints(0, 0),), (ints(),)], exact=False)
snippet("flatnonzero", "def f(a):\n    return np.flatnonzero(a == 2)", [(A6,), (ints(1, 3),), (ints(2, 2, 2),)], exact=False)
snippet("mask-concat", "def f(a, b):\n    v = a[1:] > b[:-1]\n    s = np.concatenate(([True], v))\n    e = np.concatenate((v, [True]))\n    return np.concatenate([a[s], b[e]])",
        [(ints(1, 2, 5, 9), ints(3, 4, 6, 9)), (ints(1, 2), ints(0, 0)), (ints(4,), ints(7,))], exact=False)
snippet("count_nonzero", "def f(a):\n    return np.count_nonzero(a > 2)", [(A5,), (ints(),)], exact=False)
snippet("cumsum", "def f(a):\n    return np.insert(np.cumsum(a), 0, 0)", [(A5,), (ints(),), (ints(4),)])
snippet("sum", "def f(a):\n    return a.sum() + np.sum(a)", [(A5,), (ints(),)], exact=False)
snippet("diff", "def f(a):\n    return np.diff(a)", [(A5,), (ints(2),)])
snippet("walrus", "def f(a):\n    if (n := len(a)) > 2:\n        return a[:n - 1]\n    return a + n", [(A5,), (ints(1, 2),), (ints(),)])
snippet("with-noop-context", "def f(a):\n    import numpy\n    from numpy import maximum as mx\n    with np.errstate(all='ignore'):\n        b = mx(a, 2) + numpy.minimum(a, 1)\n    return b", [(A5,)])
snippet("clip", "def f(a, b):\n    return np.clip(a, 0, 4) + np.clip(b, 3, 1) + np.clip(a, None, 2)", [(A5, ints(1, 1, 9, 0, 5))])
snippet("where-minmax", "def f(a, b):\n    return np.where(a > b, np.minimum(a, 2), np.maximum(b, 0))", [(A5, ints(1, 1, 9, 0, 5))])
snippet("append-insert", "def f(a, p):\n    return np.append(np.insert(a, p, 77), 88)", [(A5, p) for p in (0, 2, 5)])
snippet("insert-multi", "def f(a, idx, v):\n    return np.insert(a, idx, v)", [(A5, ints(0, 2, 5), ints(70, 71, 72)), (A5, ints(1, 3), 0), (A5, ints(), ints()), (A5, ints(5), 9)], exact=False)
snippet("insert-gaps", "def f(s, e):\n    m = np.flatnonzero(s[1:] != e[:-1])\n    return np.concatenate([np.insert(s, m + 1, e[m]), np.insert(e, m + 1, 0)])",
        [(ints(0, 5, 9, 20), ints(5, 7, 20, 22)), (ints(1, 2), ints(2, 3)), (ints(3,), ints(4,))], exact=False)
snippet("concatenate", "def f(a, b):\n    return np.concatenate([a, b, a[:1]])", [(A5, A6), (ints(), ints(1))])
snippet("delete", "def f(a, k, m):\n    return np.delete(a, [k * (j + 1) - 1 - m for j in range(2)])", [(np.arange(10), 4, 0), (np.arange(10), 4, 1), (np.arange(9), 3, 2)])
snippet("searchsorted", "def f(t, x):\n    return np.searchsorted(t, x, side='right') + 100 * np.searchsorted(t, x, side='left')", [(A6, ints(-1, 0, 1, 2, 3, 9, 10))])
snippet("store-slice", "def f(a, v):\n    b = a.copy()\n    b[1:3] = v\n    b[-1] = 9\n    return b + a", [(A5, ints(7, 8))])
snippet("store-strided", "def f(n):\n    e = np.zeros(n, dtype=int)\n    e[0:-1:2] = 5\n    e[1::2] = 6\n    return e", [(n,) for n in (1, 2, 5, 6)])
snippet("store-view", "def f(a):\n    b = a.copy()\n    v = b[1:4]\n    v[1:] = 0\n    v += 1\n    return b", [(A5,)])
snippet("scatter", "def f(idx, v):\n    t = np.full(8, 255, dtype=np.uint8)\n    t[idx] = v\n    return t", [(ints(1, 5, 2), ints(7, 8, 9))])
snippet("uint8-wrap", "def f(xs):\n    a = np.array(xs, dtype=np.uint8)\n    return (a + 97 - 65)", [([65, 90, 200, 250, 48],)])
snippet("reshape-ravel", "def f(a, c):\n    m = a.reshape(-1, c)\n    return m[:, :c - 1].ravel()", [(np.arange(12), c) for c in (2, 3, 4)])
snippet("reshape-cols", "def f(a):\n    m = a.reshape(-1, 3)\n    return m[:, 0] * 100 + m[:, -1]", [(np.arange(12),)])
snippet("view-int", "def f(xs):\n    b = np.array(xs, dtype=np.uint8)\n    return b.view(np.int32)", [([1, 2, 3, 4, 255, 255, 255, 255],), ([0, 0, 0, 128, 16, 0, 0, 0],)])
snippet("view-u16", "def f(xs):\n    b = np.array(xs, dtype=np.uint8)\n    return b.view(np.uint16)", [([1, 2, 255, 255],)])
snippet("sliding-window", "def f(a, w):\n    return np.lib.stride_tricks.sliding_window_view(a, w).ravel()", [(A5, w) for w in (1, 2, 5)])
snippet("max-accumulate", "def f(a):\n    return np.maximum.accumulate(a)", [(A5,), (ints(2),)])
snippet("dot", "def f(a, k):\n    return a.reshape(-1, k).dot(4 ** np.arange(k))", [(ints(0, 1, 2, 3, 3, 2, 1, 0, 1, 1, 1, 1), k) for k in (1, 2, 3, 4)])
snippet("argsort-key", "def f(a):\n    return a[np.argsort(a)]", [(A5,), (ints(2, 2, 1),), (ints(),)])
snippet("any-all", "def f(a):\n    return (1 if np.any(a > 4) else 0) + (2 if np.all(a > -2) else 0)", [(A5,), (ints(0, 1),), (ints(),)])
snippet("from-bytes", "def f(c, s):\n    return int.from_bytes(c[s:s + 4], byteorder='little')", [(bytes([1, 2, 3, 4, 5, 6]), s) for s in (0, 2, 4, 6)])
snippet("boolop", "def f(x):\n    return (x or 7) + (x and 3)", [(0,), (5,)])
snippet("ragged-ravel", "def f(d, s, l):\n    return RaggedArray(d, RaggedView2(s, l)).ravel()",
        [(np.arange(10), ints(5, 0, 2), ints(2, 0, 3))])
snippet("ragged-colslice", "def f(d, l, w):\n    return RaggedArray(d, l)[:, : (-w + 1) or None].ravel()",
        [(np.arange(9), ints(4, 0, 2, 3), w) for w in (1, 2, 3)])
snippet("ragged-reverse", "def f(d, l):\n    return RaggedArray(d, l)[:, ::-1]", [(np.arange(9), ints(4, 0, 2, 3))])
snippet("ragged-rows", "def f(d, l, w):\n    return RaggedArray(d, l)[:, 1:w]", [(np.arange(9), ints(4, 0, 2, 3), w) for w in (0, 2, 3, -1)])
snippet("ragged-col", "def f(d, l):\n    return RaggedArray(d, l)[:, -1] * 10 + RaggedArray(d, l)[:, 0]", [(np.arange(9), ints(4, 1, 2, 2))])
snippet("ragged-row", "def f(d, l, i):\n    return RaggedArray(d, l)[i]", [(np.arange(9), ints(4, 0, 2, 3), i) for i in (0, 1, 3, -1)])
snippet("ragged-row-gather", "def f(d, l, idx):\n    return RaggedArray(d, l)[idx]", [(np.arange(9), ints(4, 0, 2, 3), ints(3, 0, 0, -1, 1)), (np.arange(9), ints(4, 0, 2, 3), ints(2,))])
snippet("ragged-row-gather-colslice", "def f(d, l, idx):\n    return RaggedArray(d, l)[idx, 1:]", [(np.arange(9), ints(4, 0, 2, 3), ints(3, 0, 1, -1)), (np.arange(9), ints(4, 1, 2, 2), ints(0, 2))])
snippet("ragged-where-column", "def f(d, e, l, m):\n    return np.where(m[:, np.newaxis], RaggedArray(d, l), RaggedArray(e, l))",
        [(np.arange(9), np.arange(9) + 20, ints(4, 2, 3), np.array([True, False, True])), (np.arange(7), np.arange(7) * 2, ints(3, 4), np.array([False, False]))])
snippet("ragged-slice-fn", "def f(d, s, e):\n    return ragged_slice(d, s, e)", [(np.arange(10), ints(1, 5, 9, 0), ints(3, 5, 12, -2)), (np.arange(6), ints(2, 4), ints(1, 6))])
snippet("ragged-view-index", "def f(d, l, s, m):\n    return RaggedArray(d, l)[RaggedView(s, m)]", [(np.arange(10), ints(4, 2, 4), ints(0, 4, 6), ints(3, 2, 0))])
snippet("shift-by-array", "def f(a):\n    return ((a[:, None] >> (4 * np.arange(2, dtype=np.uint8)[::-1])).ravel() & np.uint8(15))", [(np.array([0x12, 0xf0, 0x0f, 0xab], dtype=np.uint8),)])
snippet("ragged-arith", "def f(x, l):\n    from_shape = RaggedShape(l)\n    e = RaggedArray(np.arange(int(l.sum()))[::-1].copy() % 3, from_shape)\n    return (x[:, np.newaxis] // 10 ** e % 10)",
        [(ints(1234, 56, 7), ints(2, 1, 3)), (ints(905,), ints(3,))])
snippet("ragged-mask-col-store", "def f(d, l, m):\n    r = RaggedArray(d.copy(), l)\n    r[m, 0] = 45\n    return r", [(np.arange(7), ints(3, 1, 3), np.array([True, False, True]))])
snippet("ragged-store-forms", "def f(d, l, v, vl):\n    r = RaggedArray(d.copy(), l)\n    r[:, :-1] = RaggedArray(v, vl)\n    r[:, -1] = 99\n    r[1::2, 0] = 77\n    return r",
        [(np.arange(9), ints(3, 2, 4), ints(50, 51, 52, 53, 54, 55), ints(2, 1, 3))])
snippet("ragged-store-strided-slice", "def f(d, l, v, vl):\n    r = RaggedArray(d.copy(), l)\n    r[0::2, 1:-1] = RaggedArray(v, vl)\n    return r",
        [(np.arange(12), ints(3, 2, 4, 3), ints(50, 51, 52), ints(1, 2))])
snippet("unsafe-extend", "def f(a):\n    return np.diff(unsafe_extend_left(unsafe_extend_right(a)))", [(A5,)])


def _to_sym(ip, v):
    if isinstance(v, np.ndarray) and v.dtype == bool:
        vals = [bool(x) for x in v]
        return SArr.fresh(len(vals), lambda i, vals=vals: (vals[conc(i)] if isinstance(conc(i), int) and 0 <= conc(i) < len(vals) else
                                                              z3.Or(*[z3.And(I(i) == j, z3.BoolVal(b)) for j, b in enumerate(vals)])), "bool")
    if isinstance(v, (np.ndarray, bytes)):
        return ip.list_to_arr([int(x) for x in v])
    return v


def _flat(v):
    if type(v).__name__ == "RaggedArray":
        return ("ragged", [[int(x) for x in row] for row in v.tolist()])
    if isinstance(v, np.ndarray):
        return [int(x) for x in v.ravel()]
    if isinstance(v, (np.integer, int, bool, np.bool_)):
        return int(v)
    raise TypeError(type(v))


def _globs():
    import npstructures
    from npstructures.raggedshape import RaggedView2, RaggedView
    from npstructures.util import unsafe_extend_right, unsafe_extend_left
    return {"np": np, "RaggedArray": npstructures.RaggedArray, "RaggedView2": RaggedView2, "RaggedView": RaggedView, "RaggedShape": __import__("npstructures").RaggedShape, "ragged_slice": npstructures.ragged_slice,
            "unsafe_extend_right": unsafe_extend_right, "unsafe_extend_left": unsafe_extend_left}


def run_one(name, src, args, exact=True, timeout_ms=5000):
    """-> None if the engine agrees with CPython on this input, else a description"""
    glob = _globs()
    exec(src, glob)
    real = glob["f"](*[a.copy() if isinstance(a, np.ndarray) else a for a in args])
    expect = _flat(real)
    node = ast.parse(src).body[0]
    pending, bad = [[]], None
    paths = 0
    while pending:
        dec = pending.pop()
        ctx = Ctx(dec, fname="selfcheck." + name)
        core.CUR = ctx
        ip = Interp(ctx)
        env = Env(globs=_globs())
        try:
            ip.bind_params(node, env, [_to_sym(ip, a) for a in args], {})
            ret = ip.exec_body_as_function(node, env, "selfcheck::" + name)
        except PathEnd as e:
            if e.kind == "infeasible":
                pending.extend(ctx.pending)
                continue
            return "%s%r: engine path ended with %s %s, CPython returned %r" % (name, args, e.kind, e.value, expect)
        except Unsupported as e:
            return "%s%r: Unsupported in the engine: %s" % (name, args, e)
        pending.extend(ctx.pending)
        # is this path feasible at all? (branches on concrete data prune to one path; Skolem-based conditions may fork)
        s0 = z3.Solver()
        s0.set("timeout", timeout_ms)
        ob0 = core.Obligation("feas", "selfcheck", z3.BoolVal(False), list(ctx.path), list(ctx.schemas))
        s0, _ = solve.build_query(ctx, ob0)
        s0.set("timeout", timeout_ms)
        if s0.check() == z3.unsat:
            continue
        paths += 1
        if isinstance(ret, SArr2):
            from .pybuiltins import ravel2
            ret = ravel2(ip, ret, None)
        if isinstance(ret, core.SRagged):
            if not (isinstance(expect, tuple) and expect[0] == "ragged"):
                return "%s%r: engine returned a ragged array, CPython %r" % (name, args, expect)
            rows = expect[1]
            goal = And(I(ret.n) == len(rows), *[I(ret.lens(z3.IntVal(i))) == len(r) for i, r in enumerate(rows)],
                       *[I(ret.at(z3.IntVal(i), z3.IntVal(k))) == x for i, r in enumerate(rows) for k, x in enumerate(r)])
        elif isinstance(ret, SArr):
            if not isinstance(expect, list):
                return "%s%r: engine returned an array, CPython %r" % (name, args, expect)
            goal = And(I(ret.length) == len(expect), *[I(ret.at(i)) == expect[i] for i in range(len(expect))])
        else:
            if isinstance(expect, list):
                return "%s%r: engine returned a scalar, CPython an array" % (name, args)
            goal = (I(ret) == expect) if not isinstance(ret, (bool, z3.BoolRef)) else (B(ret) == bool(expect))
        n_idx = (len(expect) if isinstance(expect, list) else 0) + 2
        if exact:
            ctx.oblige("selfcheck.%s" % name, goal, "selfcheck")
            ob = ctx.obligations[-1]
            ctx.solving = True
            r = solve.solve_obligation(ctx, ob, timeout_ms, use_cvc5=False, want_model=False)
            if r["status"] != "unsat":
                return "%s%r: engine result not entailed to equal CPython's %r (solver: %s)" % (name, args, expect, r["status"])
        else:
            # consistency: facts of this path, instantiated at every concrete index, together with "result == CPython's"
            ob = core.Obligation("cons", "selfcheck", z3.BoolVal(False), list(ctx.path) + [goal], list(ctx.schemas))
            ob.extra_terms = [z3.IntVal(i) for i in range(-1, max(n_idx, max([len(a) for a in args if hasattr(a, "__len__")] + [0]) + 2))]
            ctx.solving = True
            s1, _ = solve.build_query(ctx, ob)
            s1.set("timeout", timeout_ms)
            if s1.check() == z3.unsat:
                return "%s%r: CPython's result %r is INCONSISTENT with the engine's facts (unsound model)" % (name, args, expect)
    if paths == 0:
        return "%s%r: no feasible engine path" % (name, args)
    return None


def run_all(limit_per_snippet=None):
    """-> (cases run, list of mismatch descriptions)"""
    n, bad = 0, []
    solve.ROUNDS_OVERRIDE = None          # (a contract may have left its own instantiation depth behind)
    for name, src, inputs, exact in SNIPPETS:
        for args in (inputs if limit_per_snippet is None else inputs[:limit_per_snippet]):
            n += 1
            try:
                m = run_one(name, src, args, exact)
            except Exception as e:
                m = "%s%r: exception in the self-check: %r" % (name, args, e)
            if m:
                bad.append(m)
    return n, bad


if __name__ == "__main__":
    import time
    t = time.time()
    n, bad = run_all()
    print(n, "cases", len(bad), "mismatches", round(time.time() - t, 1), "s")
    for b in bad:
        print("  ", b)
