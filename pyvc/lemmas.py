"""Engine lemmas: facts about recurrences that need induction, proved ONCE per run, schematically, by z3:
each lemma is given as base case + induction step over uninterpreted functions; both are validity checks.
The engine then uses the conclusion as an instantiable hypothesis (PairForall / Forall) wherever the
premise has been discharged as an obligation.

 L1 prefix-nonneg   : C(0)=0, C(i+1)=C(i)+a(i), a>=0 on [0,n)            |-  C(i) >= 0            for 0<=i<=n
 L2 adjacent->global: f(k) <= f(k+1) for lo<=k<hi                          |-  f(a) <= f(b)         for lo<=a<=b<=hi
 L3 prefix-monotone : (L2 applied to C with the step from the recurrence)  |-  C(a) <= C(b)         for 0<=a<=b<=n
 L4 strict          : f(k) < f(k+1)                                        |-  f(a) + (b-a) <= f(b) for lo<=a<=b<=hi
"""
import z3


def _valid(f, timeout=5000):
    s = z3.Solver()
    s.set("timeout", timeout)
    s.add(z3.Not(f))
    return s.check() == z3.unsat


def prove_all():
    out = []
    Int = z3.IntSort()
    C, a, f = z3.Function("C", Int, Int), z3.Function("a", Int, Int), z3.Function("f", Int, Int)
    i, n, d, lo, hi, x = z3.Ints("i n d lo hi x")
    # L1: induction on i
    base = z3.Implies(C(0) == 0, C(0) >= 0)
    step = z3.Implies(z3.And(0 <= i, i < n, C(i) >= 0, a(i) >= 0, C(i + 1) == C(i) + a(i)), C(i + 1) >= 0)
    out.append(("L1 prefix-nonneg", _valid(base) and _valid(step)))
    # L2: induction on the distance d: P(d) = forall x. lo<=x, x+d<=hi -> f(x) <= f(x+d)
    base = f(x) <= f(x + 0)
    step = z3.Implies(z3.And(lo <= x, x + d + 1 <= hi, d >= 0, f(x) <= f(x + d),            # P(d) at x
                             f(x + d) <= f(x + d + 1)),                                    # adjacent step at x+d (in range)
                      f(x) <= f(x + d + 1))
    out.append(("L2 adjacent->global monotone", _valid(base) and _valid(step)))
    # L3: the adjacent step of an exclusive prefix sum with non-negative summands
    step = z3.Implies(z3.And(0 <= i, i < n, a(i) >= 0, C(i + 1) == C(i) + a(i)), C(i) <= C(i + 1))
    out.append(("L3 prefix-sum adjacent step", _valid(step)))
    # L4 strict version with distance
    base = f(x) + 0 <= f(x + 0)
    step = z3.Implies(z3.And(d >= 0, f(x) + d <= f(x + d), f(x + d) < f(x + d + 1)), f(x) + (d + 1) <= f(x + d + 1))
    out.append(("L4 strictly increasing => f(a)+(b-a) <= f(b)", _valid(base) and _valid(step)))
    # L5 linearity: g(i) = a(i) + c  =>  G(i) = A(i) + c*i   (c a constant; checked for a symbolic c with the product as atom)
    G, A = z3.Function("G", Int, Int), z3.Function("A", Int, Int)
    c, ci, ci1 = z3.Ints("c c_times_i c_times_i1")
    base = z3.Implies(z3.And(G(0) == 0, A(0) == 0), G(0) == A(0) + 0)
    step = z3.Implies(z3.And(i >= 0, G(i) == A(i) + ci, ci1 == ci + c,                      # c*(i+1) = c*i + c
                             G(i + 1) == G(i) + (a(i) + c), A(i + 1) == A(i) + a(i)), G(i + 1) == A(i + 1) + ci1)
    out.append(("L5 prefix sum of (a + c) = prefix sum of a + c*i", _valid(base) and _valid(step)))
    # L8 scaling: a(k) = c*b(k) on [0,n)  =>  A(i) = c*B(i)   (c a positive constant; the product c*B(i) as an atom per step)
    Bf, b_ = z3.Function("Bf", Int, Int), z3.Function("b", Int, Int)
    cB, cB1, cb = z3.Ints("c_times_B c_times_B1 c_times_b")
    base = z3.Implies(z3.And(A(0) == 0, Bf(0) == 0), A(0) == 0)
    step = z3.Implies(z3.And(i >= 0, A(i) == cB, a(i) == cb, cB1 == cB + cb,                    # c*B(i+1) = c*B(i) + c*b(i)
                             A(i + 1) == A(i) + a(i)), A(i + 1) == cB1)
    out.append(("L8 prefix sum of c*b = c * prefix sum of b", _valid(base) and _valid(step)))
    # L6 congruence: f(k) == g(k) on [0,n)  =>  F(i) == G(i) on [0,n]
    Ff, Gg, g = z3.Function("Ff", Int, Int), z3.Function("Gg", Int, Int), z3.Function("g", Int, Int)
    base = z3.Implies(z3.And(Ff(0) == 0, Gg(0) == 0), Ff(0) == Gg(0))
    step = z3.Implies(z3.And(i >= 0, i < n, Ff(i) == Gg(i), f(i) == g(i), Ff(i + 1) == Ff(i) + f(i), Gg(i + 1) == Gg(i) + g(i)), Ff(i + 1) == Gg(i + 1))
    out.append(("L6 equal summands => equal prefix sums", _valid(base) and _valid(step)))
    # L9 count-of-trues bracket.  For np.flatnonzero's Skolem functions (pos strictly increasing over [0,mc), mask(pos(t)), every true position p
    # has rank(p) in [0,mc) with pos(rank(p)) = p) and K(0)=0, K(i+1)=K(i)+[mask(i)]:   0 <= K(i) <= mc,  pos(K(i)-1) < i <= pos(K(i))  (where defined).
    # The instances of the Skolem axioms that the step needs are written out (quantifier-free validity check).
    mask = z3.Function("mask", Int, z3.BoolSort())
    pos, rank, K = z3.Function("pos", Int, Int), z3.Function("rank", Int, Int), z3.Function("K", Int, Int)
    mc = z3.Int("mc")
    rng = lambda t: z3.And(t >= 0, t < mc)
    P = lambda j: z3.And(K(j) >= 0, K(j) <= mc, z3.Implies(K(j) > 0, pos(K(j) - 1) < j), z3.Implies(K(j) < mc, pos(K(j)) >= j))
    pos_ax = lambda t: z3.Implies(rng(t), z3.And(pos(t) >= 0, pos(t) < n, mask(pos(t)), rank(pos(t)) == t))
    strict = lambda a_, b_: z3.Implies(z3.And(rng(a_), rng(b_), a_ < b_), pos(a_) < pos(b_))
    rank_ax = lambda p_: z3.Implies(z3.And(p_ >= 0, p_ < n, mask(p_)), z3.And(rng(rank(p_)), pos(rank(p_)) == p_))
    base = z3.Implies(z3.And(K(0) == 0, mc >= 0, pos_ax(z3.IntVal(0))), P(z3.IntVal(0)))
    r_ = rank(i)
    step = z3.Implies(z3.And(0 <= i, i < n, mc >= 0, P(i), K(i + 1) == K(i) + z3.If(mask(i), 1, 0),
                             pos_ax(K(i)), pos_ax(K(i) - 1), pos_ax(K(i) + 1), rank_ax(i),
                             strict(r_, K(i) - 1), strict(K(i) - 1, r_), strict(K(i), r_), strict(r_, K(i)), strict(K(i), K(i) + 1), strict(K(i) - 1, K(i))),
                      P(i + 1))
    last = z3.Implies(z3.And(P(n), pos_ax(K(n))), K(n) == mc)          # ... and the count of all trues is the number of positions
    out.append(("L9 number of true positions before i brackets flatnonzero's positions", _valid(base) and _valid(step) and _valid(last)))
    return out


def check_lean(relpath, timeout=300):
    """run the Lean 4 kernel on a lemma file of /verif/lean (no Mathlib import): True iff it is accepted without error or `sorry`"""
    import os, shutil, subprocess
    root = os.path.dirname(os.path.dirname(os.path.abspath(__file__)))
    path = os.path.join(root, relpath)
    exe = shutil.which("lean")
    if exe is None or not os.path.exists(path):
        return False, "lean not available"
    if "sorry" in open(path).read():
        return False, "file contains sorry"
    try:
        r = subprocess.run([exe, path], capture_output=True, text=True, timeout=timeout, cwd=os.path.dirname(path))
    except Exception as e:
        return False, repr(e)
    ok = r.returncode == 0 and "error" not in r.stdout.lower() and "error" not in r.stderr.lower()
    return ok, (r.stdout + r.stderr)[-400:]
