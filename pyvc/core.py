"""Engine P core: symbolic values, execution context, obligations.

Semantics assumed (repeated in every evidence file):
  * integers are mathematical (no int64 wrap) unless a contract adds a range obligation;
  * `x // c`, `x % c` require c > 0 (safety obligation) and are encoded with fresh
    quotient/remainder variables  x = q*c + r, 0 <= r < c  (Python floor semantics);
  * arrays are (length, element function) pairs living in heap cells (`Buf`) that views share;
  * floats are not modelled.
"""
import itertools
import z3


class Unsupported(Exception):
    """The construct is outside the verified subset: the obligation is UNDECIDED, never skipped."""


class PathEnd(Exception):
    """Internal: the current symbolic path ends (return / raise / infeasible)."""

    def __init__(self, kind, value=None, node=None, info=None):
        self.kind, self.value, self.node = kind, value, node
        self.info = info          # fields of a raised exception object (e.g. line_number)


def is_sym(x):
    return isinstance(x, z3.ExprRef)


def is_symbool(x):
    return isinstance(x, z3.BoolRef)


def I(x):
    """python int / z3 int -> z3 int term"""
    if isinstance(x, bool):
        return z3.IntVal(1 if x else 0)
    if isinstance(x, int):
        return z3.IntVal(x)
    if isinstance(x, z3.BoolRef):
        return z3.If(x, z3.IntVal(1), z3.IntVal(0))
    if isinstance(x, z3.ArithRef):
        return x
    if hasattr(x, "__index__"):
        return z3.IntVal(int(x))
    raise Unsupported("not an integer value: %r" % (x,))


def B(x):
    if isinstance(x, bool):
        return z3.BoolVal(x)
    if isinstance(x, z3.BoolRef):
        return x
    if isinstance(x, int):
        return z3.BoolVal(x != 0)
    if isinstance(x, z3.ArithRef):
        return x != 0
    if hasattr(x, "dtype") and hasattr(x, "item"):
        return z3.BoolVal(bool(x))
    raise Unsupported("not a boolean value: %r" % (x,))


def conc(x):
    """Return a python int/bool if the term is a literal, else the term itself."""
    if isinstance(x, z3.ExprRef):
        x = z3.simplify(x)
        if z3.is_int_value(x):
            return x.as_long()
        if z3.is_true(x):
            return True
        if z3.is_false(x):
            return False
    return x


def And(*xs):
    xs = [B(x) for x in xs]
    xs = [x for x in xs if not z3.is_true(x)]
    if not xs:
        return z3.BoolVal(True)
    return z3.And(*xs) if len(xs) > 1 else xs[0]


def Or(*xs):
    xs = [B(x) for x in xs]
    if not xs:
        return z3.BoolVal(False)
    return z3.Or(*xs) if len(xs) > 1 else xs[0]


def Not(x):
    return z3.Not(B(x))


def Implies(a, b):
    return z3.Implies(B(a), B(b))


def Ite(c, a, b):
    c = conc(c)
    if c is True:
        return a
    if c is False:
        return b
    if isinstance(a, (z3.BoolRef, bool)) and isinstance(b, (z3.BoolRef, bool)):
        return z3.If(B(c), B(a), B(b))
    return z3.If(B(c), I(a), I(b))


def Min(a, b):
    return Ite(I(a) <= I(b), a, b)


def Max(a, b):
    return Ite(I(a) >= I(b), a, b)


def in_range(k, n, lo=0):
    return And(I(lo) <= I(k), I(k) < I(n))


# --------------------------------------------------------------------------------------
class Forall:
    """Universally quantified formula over integer variables.

    As a *goal* it is skolemised (fresh constants).  As a *hypothesis* it must come with
    triggers: uninterpreted function declarations; it is instantiated, by the engine, at
    every argument tuple with which one of the trigger functions occurs in the query.
    Instantiation only weakens hypotheses, so `unsat` stays a sound proof.
    """

    def __init__(self, body, nvars=1, triggers=None, name=""):
        self.body, self.nvars, self.triggers, self.name = body, nvars, triggers or [], name

    def instantiate(self, *ts):
        return B(self.body(*ts))


class PairForall(Forall):
    """forall a, b over the argument tuples with which ONE unary trigger function occurs in the query
    (instantiated for every ordered pair of occurrences).  Used for lemmas such as global monotonicity."""

    def __init__(self, decl, body, name=""):
        Forall.__init__(self, body, nvars=2, triggers=[decl], name=name)
        self.pair = True


class Obligation:
    def __init__(self, oid, kind, goal, path, schemas, lineno=None, note="", extra_terms=()):
        self.oid, self.kind, self.goal = oid, kind, goal
        self.path, self.schemas = path, schemas
        self.lineno, self.note = lineno, note
        self.extra_terms = list(extra_terms)
        self.result = None      # filled by solve
        self.path_id = None


class Buf:
    """Heap cell: flat storage shared by views."""
    _ids = itertools.count()

    def __init__(self, length, at, name=None):
        self.length = length
        self.at = at
        self.name = name or "buf%d" % next(Buf._ids)


class SArr:
    """1-D array view: element i is buf.at(start + step*i)."""

    def __init__(self, buf, length=None, start=0, step=1, kind="int", enc=None, fresh=False):
        self.buf, self.start, self.step = buf, start, step
        self.length = buf.length if length is None else length
        self.kind = kind          # 'int' | 'bool'
        self.enc = enc            # encoding tag for EncodedArray wrappers (transparent)
        self.owned = fresh

    @staticmethod
    def fresh(length, atfunc, kind="int", enc=None):
        return SArr(Buf(length, atfunc), kind=kind, enc=enc, fresh=True)

    def at(self, i):
        if self.start == 0 and self.step == 1:
            return self.buf.at(i)
        return self.buf.at(I(self.start) + I(self.step) * I(i))

    def snapshot(self):
        """element function frozen at the current heap state"""
        f, s, st = self.buf.at, self.start, self.step
        if isinstance(s, int) and s == 0 and isinstance(st, int) and st == 1:
            return f
        return lambda i: f(I(s) + I(st) * I(i))

    def with_(self, **kw):
        r = SArr(self.buf, self.length, self.start, self.step, self.kind, self.enc)
        for k, v in kw.items():
            setattr(r, k, v)
        return r

    def __repr__(self):
        return "SArr(len=%s)" % (self.length,)


class SArr2:
    """2-D array view: element (i,j) is buf.at(start + i*rstride + j*cstride)."""

    def __init__(self, buf, rows, cols, start=0, rstride=None, cstride=1, kind="int", enc=None):
        self.buf, self.rows, self.cols, self.start = buf, rows, cols, start
        self.rstride = cols if rstride is None else rstride
        self.cstride = cstride
        self.kind, self.enc = kind, enc

    @staticmethod
    def fresh(rows, cols, at2, kind="int", enc=None):
        """fresh 2-D array given at2(i, j); storage is structural (no flat index arithmetic)"""
        r = SArr2(None, rows, cols, kind=kind, enc=enc)
        r._at2 = at2
        return r

    def at2(self, i, j):
        if self.buf is None:
            return self._at2(i, j)
        return self.buf.at(I(self.start) + I(i) * I(self.rstride) + I(j) * I(self.cstride))

    def snapshot2(self):
        if self.buf is None:
            return self._at2
        f, s, rs, cs = self.buf.at, self.start, self.rstride, self.cstride
        return lambda i, j: f(I(s) + I(i) * I(rs) + I(j) * I(cs))

    def __repr__(self):
        return "SArr2(%s x %s)" % (self.rows, self.cols)


class SRagged:
    """Ragged array: row i is data[starts(i) : starts(i)+lens(i)).  (npstructures RaggedArray /
    RaggedView2 element access - assumed contract, validated bounded.)"""

    def __init__(self, data_at, n, starts, lens, enc=None, contiguous=False, total=None):
        self.data_at, self.n, self.starts, self.lens = data_at, n, starts, lens
        self.enc, self.contiguous, self.total = enc, contiguous, total

    def at(self, i, k):
        return self.data_at(I(self.starts(i)) + I(k))


class SRec:
    """Record / object with named fields; `cls` is the real class (for method lookup)."""

    def __init__(self, cls=None, **fields):
        object.__setattr__(self, "_cls", cls)
        object.__setattr__(self, "_f", dict(fields))

    def get(self, name):
        return self._f[name]

    def has(self, name):
        return name in self._f

    def set(self, name, v):
        self._f[name] = v

    def __repr__(self):
        return "SRec(%s)" % ", ".join(self._f)


class SFile:
    """Ghost file: byte function F (length, at) and a position.  Contract assumed for
    CPython io: read(n) returns F[pos : pos+min(n, |F|-pos)) and advances; seek(p) sets,
    seek(d, 1) adds; readinto(view) copies min(len(view), |F|-pos) bytes."""

    def __init__(self, length, at, pos=0):
        self.length, self.at_, self.pos = length, at, pos
        self.reads = []


class SymList:
    """List of symbolic length: element j is at(j) (any symbolic value)."""

    def __init__(self, count, at):
        self.count, self.at = count, at

    def getattr(self, ip, name, lineno):
        if name in ("append", "add"):
            # `add`: a Python set of symbolic size is carried as the list of its insertions (exact for membership tests,
            # which is all the verified code does with such sets; len() of such a set is not supported)
            return _SymListAppend(self)
        raise Unsupported("list method %s on a list of symbolic length" % name)


class _SymListAppend:
    def __init__(self, lst):
        self.lst = lst

    def sym_call(self, ip, args, kwargs, lineno):
        lst, v = self.lst, args[0]
        old, n0 = lst.at, lst.count
        lst.at = lambda k, old=old, n0=n0, v=v: v if conc(I(k) == I(n0)) is True else (Ite(I(k) == I(n0), v, old(k)) if is_sym(v) or isinstance(v, int) else old(k))
        lst.count = conc(I(n0) + 1)


class Opaque:
    """A value the engine carries but does not interpret (strings, exceptions, messages)."""

    def __init__(self, what="opaque"):
        self.what = what
        self.fields = {}

    def getattr(self, ip, name, lineno):
        if name not in self.fields:
            self.fields[name] = ip.ctx.fresh_int("opaque_" + name)
        return self.fields[name]

    def setattr(self, name, v):
        self.fields[name] = v

    def __repr__(self):
        return "<opaque %s>" % self.what


# --------------------------------------------------------------------------------------
def _frozen(v):
    """a copy of a mutable engine value that later mutations of the original do not reach"""
    if isinstance(v, SymList):
        return SymList(v.count, v.at)
    if isinstance(v, SArr):
        r = SArr(Buf(v.buf.length, v.buf.at, getattr(v.buf, "name", None)), v.length, v.start, v.step, v.kind, v.enc)
        for k, x in v.__dict__.items():
            if k not in r.__dict__:
                setattr(r, k, x)
        return r
    if type(v).__name__ == "CatList":
        return type(v)(v.count, _frozen(v.cat))
    return v


def _freeze_closure(fn, depth=0):
    """quantified hypotheses are evaluated lazily: the lists / arrays their closure refers to are replaced by frozen copies at the moment
    the hypothesis is assumed (see Ctx.fingerprint for the check that catches what this cannot reach)"""
    for cell in (getattr(fn, "__closure__", None) or ()):
        try:
            v = cell.cell_contents
        except ValueError:
            continue
        fv = _frozen(v)
        if fv is not v:
            try:
                cell.cell_contents = fv
            except Exception:
                pass


class Ctx:
    """One symbolic execution of one function along one decision sequence."""

    def __init__(self, decisions=(), fname=""):
        self.fname = fname
        self.path = []            # list of z3 BoolRef (assumptions, definitions, branch conditions)
        self.schemas = []         # Forall hypotheses with triggers
        self.obligations = []
        self.decisions = list(decisions)
        self.dpos = 0
        self.pending = []         # alternative decision prefixes discovered on this run
        self._n = itertools.count()
        self._divcache = {}
        self._divs_by_c = {}
        self.keep = []            # keep z3 asts alive for id-keyed caches
        self.feas_solver_timeout = 2000
        self.trace = []
        self.ghost = {}
        self.index_terms = []     # integer terms at which trigger-less hypotheses are instantiated
        self.index_funcs = []     # Skolem functions whose applications denote indices (rank / hit / row-of functions)

    # ---- names -------------------------------------------------------------------
    def fresh_int(self, base="v"):
        return z3.Int("%s!%d" % (base, next(self._n)))

    def fresh_bool(self, base="b"):
        return z3.Bool("%s!%d" % (base, next(self._n)))

    def fresh_fun(self, base="f", arity=1, rng="int"):
        dom = [z3.IntSort()] * arity
        r = z3.IntSort() if rng == "int" else z3.BoolSort()
        return z3.Function("%s!%d" % (base, next(self._n)), *dom, r)

    # ---- facts -------------------------------------------------------------------
    def assume(self, *facts):
        for f in facts:
            if isinstance(f, Forall):
                self.schemas.append(f)
                self.fingerprint(f)
            elif isinstance(f, (list, tuple)):
                self.assume(*f)
            else:
                f = B(f)
                if not z3.is_true(f):
                    self.path.append(f)

    def probe(self, f):
        """the body of a quantified hypothesis evaluated at fixed probe variables (definitional side facts discarded)"""
        vs = [z3.Int("probe!%d" % k) for k in range(f.nvars)]
        saved, was = len(self.path), getattr(self, "solving", False)
        self.solving = True
        try:
            e = z3.simplify(B(f.body(*vs)))
        finally:
            self.solving = was
            del self.path[saved:]
        return e

    def fingerprint(self, f):
        """Hypothesis bodies are Python closures evaluated lazily, at instantiation time.  A closure that reads MUTABLE engine state (a heap
        cell that is written later, a list that is appended to, a variable) would silently change its meaning.  The body is therefore
        evaluated once now, at probe variables, and again before every use (solve.saturate): a difference stops the proof (checker defect,
        never a verdict) - the contract has to freeze the values it talks about."""
        _freeze_closure(f.body)
        try:
            f._probe = self.probe(f)
        except Exception:
            f._probe = None

    def check_fingerprint(self, f):
        p0 = getattr(f, "_probe", None)
        if p0 is None:
            return
        if not self.probe(f).eq(p0):
            raise Unsupported("hypothesis '%s' changed its meaning after it was assumed (its body reads mutable engine state lazily)" % (f.name or "?"))

    def oblige(self, oid, goal, kind="ensures", lineno=None, note="", extra_terms=()):
        """Register a proof obligation under the current path condition."""
        if getattr(self, "solving", False):
            return      # instantiation-time re-evaluation of closures: their obligations were collected at execution time
        oid = self.stable_id(oid)
        if isinstance(goal, (list, tuple)):
            for n, g in enumerate(goal):
                self.oblige("%s.%d" % (oid, n), g, kind, lineno, note)
            return
        for exc, okind, slug in getattr(self, "may_raise", ()):
            if kind == "safety" and (":" + okind) in oid and slug in oid.split("@")[-1]:
                # partial correctness: this statement may raise `exc` instead; nothing is assumed about it either
                self.ghost.setdefault("may_raise", set()).add("%s -> %s" % (oid.split(":", 1)[-1], exc))
                return
        if isinstance(goal, Forall):
            ks = [self.fresh_int("sk") for _ in range(goal.nvars)]
            g = goal.instantiate(*ks)
            extra_terms = list(extra_terms) + ks
        else:
            g = B(goal)
        self.obligations.append(Obligation(oid, kind, g, list(self.path), list(self.schemas),
                                           lineno, note, extra_terms))

    def check(self, oid, goal, kind="safety", lineno=None, note=""):
        """Obligation followed by assumption (used for asserts / safety conditions)."""
        c = conc(goal) if not isinstance(goal, Forall) else goal
        if c is True:
            return
        self.oblige(oid, goal, kind, lineno, note)
        if isinstance(goal, Forall):
            if goal.triggers:
                self.assume(goal)
        else:
            self.assume(goal)

    def try_prove(self, oid, goal, note="", timeout_ms=3000):
        """opportunistic lemma premise: try to discharge `goal` now; only if that succeeds is it registered (as a
        discharged obligation) and True returned.  Used to enable engine lemmas whose premise happens to hold."""
        if getattr(self, "solving", False):
            return False
        from . import solve
        n0 = len(self.obligations)
        self.oblige(oid, goal, "lemma-premise", None, note)
        ob = self.obligations.pop()
        assert len(self.obligations) == n0
        try:
            self.solving = True
            r = solve.solve_obligation(self, ob, timeout_ms, use_cvc5=False, want_model=False)
        finally:
            self.solving = False
        if r["status"] == "unsat":
            ob.presolved = r
            self.obligations.append(ob)
            return True
        return False

    def induct(self, oid, P, trigger, lo=0, hi=None):
        """Lemma by induction, stated in a contract: obligations  P(lo)  and  P(k) -> P(k+1)  (lo <= k, k+1 <= hi),
        then the conclusion  forall k in [lo, hi]. P(k)  becomes an instantiable hypothesis on `trigger`."""
        self.oblige(oid + ".base", P(I(lo)), "lemma")
        rng = (lambda k: And(I(k) >= I(lo), I(k) + 1 <= I(hi))) if hi is not None else (lambda k: I(k) >= I(lo))
        self.oblige(oid + ".step", Forall(lambda k: Implies(And(rng(k), P(k)), P(k + 1))), "lemma")
        rng2 = (lambda k: And(I(k) >= I(lo), I(k) <= I(hi))) if hi is not None else (lambda k: I(k) >= I(lo))
        self.assume(Forall(lambda k: Implies(rng2(k), P(k)), triggers=[trigger], name=oid))

    @staticmethod
    def oid_key(oid):
        """what identifies an obligation across trees: its id without the readable abbreviation of the statement (which contains local
        variable names); the hash that follows is computed with the locals anonymised"""
        import re
        return re.sub(r"#[A-Za-z0-9_]*~", "#~", oid)

    def stable_id(self, oid):
        """absolute line numbers in obligation ids -> function-relative (stable under edits elsewhere)"""
        import re
        loc = getattr(self, "locator", None)
        if loc is None:
            return oid
        return re.sub(r"@L(\d+|None)", lambda m: "@" + loc(m.group(1)), oid)

    # ---- arithmetic --------------------------------------------------------------
    def divmod_(self, x, c, lineno=None):
        """Python floor division / modulo for c > 0 via fresh quotient and remainder."""
        if isinstance(x, int) and isinstance(c, int):
            if c == 0:
                raise PathEnd("raise", "ZeroDivisionError")
            return x // c, x % c
        xz, cz = z3.simplify(I(x)), z3.simplify(I(c))
        key = (xz.get_id(), cz.get_id())
        if key in self._divcache:
            ent = self._divcache[key]
            if getattr(self, "solving", False) and len(ent) > 4:
                self.path.extend(ent[4])
            return ent[:2]
        if z3.is_int_value(cz):
            cv = cz.as_long()
            if cv <= 0:
                raise Unsupported("division by a non-positive constant")
        else:
            self.check("%s:div.positive@L%s" % (self.fname, lineno), cz > 0, "safety", lineno,
                       "divisor > 0 (floor semantics of // and % are encoded for positive divisors only)")
        q, r = self.fresh_int("q"), self.fresh_int("r")
        self.keep += [xz, cz]
        facts = [xz == q * cz + r, r >= 0, r < cz]
        # valid case-split hint for every pair of decompositions over the same divisor
        # (DESIGN.md section 3): q1-q2 <= -2 or = -1 or = 0 or = 1 or >= 2
        for (q2, r2) in self._divs_by_c.get(cz.get_id(), []):
            d = q - q2
            facts.append(z3.Or(d <= -2, d == -1, d == 0, d == 1, d >= 2))
        self.assume(*facts)
        self._divs_by_c.setdefault(cz.get_id(), []).append((q, r))
        self._divcache[key] = (q, r, xz, cz, facts)
        return q, r

    # ---- branching ---------------------------------------------------------------
    def _feasible(self, cond):
        s = z3.Solver()
        s.set("timeout", self.feas_solver_timeout)
        s.add(*self.path)
        s.add(cond)
        return s.check() != z3.unsat

    def branch(self, cond, lineno=None):
        """Decide a (possibly symbolic) condition; fork by re-execution."""
        c = conc(cond) if is_sym(cond) else cond
        if not is_sym(c):
            return bool(c)
        c = B(c)
        if self.dpos < len(self.decisions):
            d = self.decisions[self.dpos]
        else:
            ft, ff = self._feasible(c), self._feasible(z3.Not(c))
            if ft and ff:
                d = True
                self.pending.append(self.decisions[:self.dpos] + [False])
            elif ft:
                d = True
            elif ff:
                d = False
            else:
                raise PathEnd("infeasible")
            self.decisions.append(d)
        self.dpos += 1
        self.trace.append((lineno, d))
        self.path.append(c if d else z3.Not(c))
        return d
