"""./check driver: engine P (contracts) + engine B (bounded run-time contracts) per property,
verdict policy, known findings, evidence, replay files.

Exit codes: 0 held / 1 violation (VIOLATION line printed) / 2 undecided / 3 checker crash.
"""
import importlib
import json
import os
import re
import sys
import time
import traceback

ROOT = os.path.dirname(os.path.dirname(os.path.abspath(__file__)))
REPO = os.environ.get("BIONUMPY_REPO", "/repo")


def load_json(p, default):
    try:
        return json.load(open(p))
    except FileNotFoundError:
        return default


def known_findings(pid):
    kf = load_json(os.path.join(ROOT, "known_findings.json"), {"findings": []})
    return [f for f in kf["findings"] if f["property"] == pid]


def match_known(pid, signature):
    for f in known_findings(pid):
        if f.get("status") == "known" and re.search(f["match"], signature):
            return f
    return None


def write_replay(pid, n, payload):
    d = os.path.join(ROOT, "replays")
    os.makedirs(d, exist_ok=True)
    p = os.path.join(d, "%s-%d.json" % (pid, n))
    json.dump(payload, open(p, "w"), indent=1, default=str)
    return os.path.relpath(p, ROOT)


def model_text(model, limit=60):
    out = []
    for d in model.decls()[:limit]:
        out.append("%s = %s" % (d.name(), str(model[d])[:200]))
    return out


def run_property(pid, tier="quick", seed=0, only=None, verbose=False, do_bounded=True, do_proof=True):
    from . import core, verify, npmodel, selfcheck, lemmas, loops, pybuiltins, interp, solve       # load the whole engine NOW (one consistent snapshot of the files)
    t0 = time.time()
    pidl = pid.lower()
    violations, knowns, undecided = [], [], []
    ev = {"property_id": pid, "tier": tier, "seed": seed, "level": "proof", "coverage": {}, "assumptions": [], "wall_s": 0.0,
          "violations": 0}
    cov = ev["coverage"]
    baseline = load_json(os.path.join(ROOT, "baseline_obligations.json"), {})
    KEY = core.Ctx.oid_key
    base_ids = {KEY(i) for i in baseline.get(pid, [])}
    base_full = {KEY(i): i for i in baseline.get(pid, [])}
    nrep = 0
    # ---------------------------------------------------------------- engine P
    contracts = []
    os.environ["VERIF_TIER"] = tier            # contract files add instances in the thorough tier (contracts.THOROUGH)
    if do_proof:
        try:
            mod = importlib.import_module("contracts.%s" % pidl)
            contracts = list(getattr(mod, "CONTRACTS", []))
        except ModuleNotFoundError as e:
            if "contracts.%s" % pidl not in str(e):
                raise
    timeout = 30000 if tier == "quick" else 60000      # (no obligation needs more than ~10 s alone; the margin is for loaded machines)
    funcs, obl_total, obl_ok, backends, solver_time, prims, samples = {}, 0, 0, {}, 0.0, set(), []
    stale = []
    canaries, all_oids, contract_rows, vac = [], [], [], []
    crashed = []
    for con in contracts:
        if only and only not in con.name:
            continue
        if tier == "thorough":
            os.environ["PYVC_CROSSCHECK"] = "1"       # every proof re-checked by cvc5 / z3 4.8.12 (not the canary runs)
        try:
            res = verify.run_contract(con, timeout, verbose=verbose)
        finally:
            os.environ.pop("PYVC_CROSSCHECK", None)
        con._base_discharged = {k for k, o in res.obligations.items() if o["status"] == "unsat"}
        con._base_all = set(res.obligations)
        funcs.update(res.functions)
        prims |= res.prims
        solver_time += sum(o["time_s"] for o in res.obligations.values())
        row = {"contract": con.name, "paths": res.paths, "outcomes": res.path_outcomes, "obligations": len(res.obligations),
               "discharged": sum(1 for o in res.obligations.values() if o["status"] == "unsat"), "time_s": res.time_s,
               "dropped": con.dropped, "note": con.note}
        contract_rows.append(row)
        if len(res.obligations) == 0:
            undecided.append("%s: zero obligations generated (vacuity guard)" % con.name)
        v = verify.vacuity_check(con)
        vac.append((con.name, v))
        if v == "unsat":
            undecided.append("%s: precondition is contradictory (vacuity guard)" % con.name)
        for u in res.undecided:
            undecided.append("%s: %s" % (con.name, u))
        if res.crashed:
            crashed.append(con.name)
        for oid, o in res.obligations.items():
            obl_total += 1
            all_oids.append(oid)
            for b, n in o["backends"].items():
                backends[b] = backends.get(b, 0) + n
            if o["status"] == "unsat":
                obl_ok += 1
                continue
            if o["status"] != "sat":
                undecided.append("obligation %s: solver %s" % (oid, o["status"]))
                continue
            # candidate counter-model: replay on the real code
            rep = None
            if con.concretize is not None and "model" in o:
                try:
                    ctx, st, ob = o["model_ctx"]
                    rep = con.concretize(o["model"], ctx, st, oid)
                except Exception as e:
                    rep = {"reproduced": None, "error": "concretize failed: %r" % (e,), "trace": traceback.format_exc()[-800:]}
            payload = {"property": pid, "kind": "proof-obligation", "obligation": oid, "contract": con.name,
                       "note": o.get("note", ""), "solver": "sat (counter-model found)",
                       "model": model_text(o["model"]) if "model" in o else [], "replay": rep}
            sig = "obligation:%s" % oid
            if rep is not None and rep.get("reproduced") is False:
                undecided.append("obligation %s: spurious-countermodel (real code satisfies the contract on the model's input)" % oid)
                continue
            if KEY(oid) not in base_ids and not (rep and rep.get("reproduced")):
                undecided.append("obligation %s: solver found a candidate counter-model, but the obligation was never discharged on the "
                                 "reference tree (not in baseline_obligations.json) and no failing input was reproduced" % oid)
                continue
            k = match_known(pid, sig)
            if k:
                knowns.append("KNOWN-FINDING: property=%s %s" % (pid, k["what"]))
                continue
            nrep += 1
            path = write_replay(pid, nrep, payload)
            tail = "" if (rep and rep.get("reproduced")) else " no-failing-input-found"
            violations.append("VIOLATION property=%s replay=%s obligation=%s%s" % (pid, path, oid, tail))
        if len(samples) < 4:
            samples += res.samples[:2]
        # canaries
        cans = con.canaries if tier == "thorough" else con.canaries[:1]
        if tier == "quick" and res.time_s > 45:
            cans = []                       # a canary re-verifies the whole contract: for slow contracts only in the thorough tier
            row["canaries"] = "thorough tier only (contract takes %.0f s)" % res.time_s
        for can in cans:
            label, old, new = can[:3]
            c = verify.run_canary(con, label, old, new, con.timeout_ms or min(timeout, 10000), can[3] if len(can) > 3 else None)
            c["contract"] = con.name
            canaries.append(c)
            if c["status"] == "not-applicable":
                # the textual pattern of this sensitivity test no longer occurs (the function was edited): that says nothing about the code -
                # every obligation is still generated and decided - so it is reported, counted in the evidence, and does not change the verdict
                stale.append("canary '%s' of %s does not apply any more (%s): update the contract file" % (label, con.name, c.get("reason")))
            if c["status"] == "survived":
                undecided.append("canary '%s' of %s survived: the contract does not pin this behaviour down" % (label, con.name))
    # obligations that were discharged on the reference tree must still be generated
    # (the baseline is frozen in the thorough tier, which runs more instances of some contracts: in the quick tier only the ids of the
    # contracts that ran are expected)
    ran = {c.name for c in contracts}
    missing = sorted(base_full[i] for i in base_ids - {KEY(o) for o in all_oids} if tier == "thorough" or i.split(":", 1)[0] in ran) if (contracts and not only) else []
    for m in missing:
        undecided.append("obligation %s of the baseline was not generated on this tree" % m)
    # ---------------------------------------------------------------- engine B
    bounded = None
    bnotes = []
    if do_bounded:
        try:
            bmod = importlib.import_module("rtc.enum_%s" % pidl)
        except ModuleNotFoundError as e:
            if "rtc.enum_%s" % pidl not in str(e):
                raise
            bmod = None
        if bmod is not None:
            bounded = bmod.run(tier=tier, seed=seed)
            overflow = []
            for f in bounded.get("failures", []):
                sig = "bounded:%s" % f["signature"]
                k = match_known(pid, sig)
                if k:
                    line = "KNOWN-FINDING: property=%s %s" % (pid, k["what"])
                    if line not in knowns:
                        knowns.append(line)
                    continue
                nrep += 1
                if nrep <= 40:
                    path = write_replay(pid, nrep, {"property": pid, "kind": "bounded", "signature": f["signature"],
                                                    "case": f.get("case"), "message": f.get("message")})
                else:                        # many failing classes: the rest share one replay file (a list of cases)
                    overflow.append({"property": pid, "kind": "bounded", "signature": f["signature"], "case": f.get("case"), "message": f.get("message")})
                    path = "replays/%s-more.json" % pid
                violations.append("VIOLATION property=%s replay=%s bounded-case=%s" % (pid, path, f["signature"]))
            if overflow:
                json.dump(overflow, open(os.path.join(ROOT, "replays", "%s-more.json" % pid), "w"), indent=1, default=str)
            # coverage notes of the enumerator (time cuts, regions not evaluated because of an already reported failure):
            # recorded in the evidence, not a verdict
            bnotes = list(bounded.get("undecided", []))
    # ---------------------------------------------------------------- engine lemmas (schematic inductions, proved each run)
    if contracts:
        from . import lemmas
        lem = lemmas.prove_all()
        leanfiles = sorted({f for con in contracts for f in getattr(con, "lean", [])})
        for f in leanfiles:
            ok, msg = lemmas.check_lean(f)
            lem.append(("lean kernel accepts %s" % f, ok))
            backends["lean-4"] = backends.get("lean-4", 0) + 1
        for name, ok in lem:
            obl_total += 1
            obl_ok += 1 if ok else 0
            if not ok:
                undecided.append("engine lemma not proved: %s" % name)
        cov["engine_lemmas"] = [{"lemma": n, "proved": ok} for n, ok in lem]
        # differential self-check of the engine's Python/NumPy/npstructures semantics against the real interpreter (bounded
        # validation of the ASSUMED primitive contracts; a mismatch is a checker defect, never a verdict about the code)
        from . import selfcheck
        tsc = time.time()
        nsc, badsc = selfcheck.run_all(None if tier == "thorough" else 4)
        cov["engine_selfcheck"] = {"cases": nsc, "mismatches": badsc, "time_s": round(time.time() - tsc, 2),
                                   "what": "snippets of the verified subset run by CPython and by the engine on the same concrete inputs; "
                                           "the engine's result must be entailed equal (exact primitives) or consistent (Skolem-axiomatised ones)"}
        if badsc:
            crashed.append("engine self-check: %d mismatches with CPython" % len(badsc))
            for m in badsc[:5]:
                undecided.append("engine self-check mismatch: %s" % m)
    # ---------------------------------------------------------------- evidence
    from .npmodel import ASSUMED
    if obl_total:
        cov.update({"obligations": obl_total, "discharged": obl_ok,
                    "checker_cmd": "./check %s --tier %s  (engine P: pyvc symbolic executor over the real source + z3 %s; cvc5 CLI for z3-unknowns)" % (pid, tier, _z3v()),
                    "trusted_base": ["pyvc VC generator (Python/NumPy subset semantics, DESIGN.md section 3)", "z3 / cvc5 soundness",
                                     "assumed primitive contracts: " + "; ".join(sorted(prims))],
                    "functions_under_contract": [dict(name=k, **{x: v[x] for x in ("sha256", "lineno", "decorators")}) for k, v in sorted(funcs.items())],
                    "contracts": contract_rows, "backends": backends, "solver_time_s": round(solver_time, 3),
                    "canaries": canaries, "canaries_killed": sum(1 for c in canaries if c["status"] == "killed"), "canaries_stale": stale,
                    "vacuity": vac, "samples": samples or [{"obligation": o} for o in all_oids[:3]]})
    else:
        ev["level"] = "exploration"
    if bounded is not None:
        b = {k: bounded[k] for k in bounded if k not in ("failures", "undecided")}
        b["failures"] = len(bounded.get("failures", []))
        if obl_total:
            cov["bounded"] = b
            cov["bounded_label"] = "bounded stand-in (run-time contracts over enumerated scopes) - NOT counted as proved"
        else:
            cov.update(b)
    if not obl_total and bounded is None:
        ev["level"] = "other"
        cov["explanation"] = "no check built for this property"
    try:
        m = importlib.import_module("contracts.%s" % pidl)
        ev["assumptions"] = list(getattr(m, "ASSUMPTIONS", []))
        cov["not_proved"] = list(getattr(m, "NOT_PROVED", []))
    except ModuleNotFoundError:
        pass
    ev["assumptions"] += ["integers are mathematical (no int64 wrap-around) unless a range obligation is stated",
                          "floats are not modelled", "termination is not proved"]
    ev["assumptions"] += ["assumed primitive: %s" % p for p in sorted(prims)]
    if obl_total and obl_ok != obl_total:
        ev["level"] = "other"
        cov["explanation"] = "not every obligation was discharged on this run (%d of %d): see undecided/violations" % (obl_ok, obl_total)
    if undecided and ev["level"] == "proof":
        ev["level"] = "other"
        cov["explanation"] = "undecided items on this run (see coverage.undecided): not a proof-level result"
    cov["undecided"] = undecided
    cov["bounded_notes"] = bnotes
    cov["engine_errors"] = crashed
    cov["known_findings_reported"] = knowns
    ev["violations"] = len(violations)
    ev["wall_s"] = round(time.time() - t0, 2)
    evdir = os.environ.get("VERIF_EVIDENCE_DIR") or os.path.join(ROOT, "evidence")     # (only tools/run_seeded.sh redirects it)
    os.makedirs(evdir, exist_ok=True)
    json.dump(ev, open(os.path.join(evdir, "%s.json" % pid), "w"), indent=1, default=str)
    return violations, knowns, undecided, ev


def _z3v():
    import z3
    return z3.get_version_string()


def freeze_baseline(pids):
    """record the ids of obligations discharged on the reference tree (run by hand, committed); thorough tier = every instance"""
    from . import verify
    os.environ["VERIF_TIER"] = "thorough"
    p = os.path.join(ROOT, "baseline_obligations.json")
    base = load_json(p, {})
    for pid in pids:
        try:
            mod = importlib.import_module("contracts.%s" % pid.lower())
        except ModuleNotFoundError:
            continue
        ids = []
        for con in mod.CONTRACTS:
            res = verify.run_contract(con, 10000)
            ids += [oid for oid, o in res.obligations.items() if o["status"] == "unsat"]
        base[pid] = sorted(set(ids))
        print(pid, len(base[pid]), "obligations frozen")
    part = os.environ.get("VERIF_FREEZE_PART")      # parallel freezing: one part file per process, merged by tools/freeze_all.sh
    if part:
        json.dump({pid: base[pid] for pid in pids if pid in base}, open(part, "w"), indent=1)
        return
    json.dump(base, open(p, "w"), indent=1)


def main(argv=None):
    import argparse
    ap = argparse.ArgumentParser()
    ap.add_argument("pid")
    ap.add_argument("--tier", default=os.environ.get("VERIF_TIER", "quick"))
    ap.add_argument("--only", default=None)
    ap.add_argument("--replay", default=None)
    ap.add_argument("--freeze", action="store_true")
    ap.add_argument("--no-bounded", action="store_true")
    ap.add_argument("--no-proof", action="store_true")
    ap.add_argument("-v", action="store_true")
    a = ap.parse_args(argv)
    seed = int(os.environ.get("VERIF_SEED", "0"))
    if a.freeze:
        pids = ["C%02d" % i for i in range(1, 21)] if a.pid == "all" else [a.pid]
        freeze_baseline(pids)
        return 0
    if a.replay:
        return replay(a.pid, a.replay)
    try:
        violations, knowns, undecided, ev = run_property(a.pid, a.tier, seed, a.only, a.v, not a.no_bounded, not a.no_proof)
    except Exception:
        traceback.print_exc()
        print("CHECKER-CRASH property=%s" % a.pid)
        return 3
    cov = ev["coverage"]
    print("property %s tier=%s level=%s wall=%.1fs" % (a.pid, a.tier, ev["level"], ev["wall_s"]))
    if "obligations" in cov:
        print("  engine P: %d/%d obligations discharged over %d functions; canaries killed %d/%d; solver %.2fs" % (
            cov["discharged"], cov["obligations"], len(cov["functions_under_contract"]), cov["canaries_killed"],
            len(cov["canaries"]), cov["solver_time_s"]))
    b = cov.get("bounded", cov if ev["level"] == "exploration" else None)
    if b and "evaluations" in b:
        print("  engine B (bounded): %d evaluations, %d distinct non-trivial, failures %s" % (b["evaluations"], b["distinct_nontrivial"], b.get("failures", 0)))
    for k in knowns:
        print(k)
    for n in cov.get("canaries_stale", []):
        print("NOTE", n)
    for u in undecided:
        print("UNDECIDED", u)
    for v in violations:
        print(v)
    if violations:
        return 1
    if cov.get("engine_errors"):
        return 3
    if undecided:
        return 2
    return 0


def replay(pid, path):
    payload = json.load(open(path if os.path.isabs(path) else os.path.join(ROOT, path)))
    if payload.get("kind") == "bounded":
        bmod = importlib.import_module("rtc.enum_%s" % pid.lower())
        ok, msg = bmod.replay(payload["case"])
        print("replay:", "property holds on this case" if ok else "VIOLATION reproduced: %s" % msg)
        return 0 if ok else 1
    print(json.dumps(payload, indent=1)[:4000])
    only = payload.get("contract")
    v, k, u, ev = run_property(pid, "quick", 0, only, False, False, True)
    for x in v:
        print(x)
    return 1 if v else 0
