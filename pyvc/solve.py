"""Discharge obligations: instantiate quantified hypotheses (engine-side E-matching on trigger
functions, bounded rounds), then ask z3 (Python API, 5.1) and, for `unknown`, cvc5 on the SMT-LIB text.

unsat  -> discharged (sound: instantiation only weakens hypotheses)
sat    -> candidate counter-model (may be an artefact of incomplete instantiation: replayed before
          anything is reported)
unknown-> undecided
"""
import os
import subprocess
import tempfile
import time
import z3

from . import core
from .core import Forall, B

ROUNDS = int(os.environ.get("PYVC_ROUNDS", "3"))
MAX_INST = 4000


def collect_apps(exprs, decls_by_id, seen, out):
    """collect argument tuples of applications of the given function declarations"""
    stack = list(exprs)
    while stack:
        e = stack.pop()
        i = e.get_id()
        if i in seen:
            continue
        seen.add(i)
        if z3.is_app(e):
            d = e.decl()
            did = d.get_id()
            if did in decls_by_id and e.num_args() > 0:
                out.setdefault(did, {})[i] = tuple(e.children())
            stack.extend(e.children())
        elif z3.is_quantifier(e):
            stack.append(e.body())


def collect_terms(exprs, decls_by_id, seen, out):
    """collect the application TERMS of the given declarations"""
    stack = list(exprs)
    while stack:
        e = stack.pop()
        i = e.get_id()
        if i in seen:
            continue
        seen.add(i)
        if z3.is_app(e):
            if e.decl().get_id() in decls_by_id and e.num_args() > 0:
                out[i] = e
            stack.extend(e.children())


def saturate(ctx, base, schemas, extra_terms=(), rounds=ROUNDS):
    """Return base + instances of the schemas at the terms occurring in the (growing) query."""
    facts = list(base)
    trig = {}
    for s in schemas:
        ctx.check_fingerprint(s)
    for s in schemas:
        for d in s.triggers:
            trig.setdefault(d.get_id(), (d, []))[1].append(s)
    decls_by_id = {k: v[0] for k, v in trig.items()}
    done = set()
    seen = set()
    apps = {}
    ninst = 0
    frontier = list(facts)
    # hypotheses without triggers over several variables: instantiated at the goal's own skolem tuple
    for s in schemas:
        if not s.triggers and s.nvars > 1 and len(extra_terms) >= s.nvars:
            saved = len(ctx.path)
            inst = s.instantiate(*extra_terms[:s.nvars])
            new = ctx.path[saved:]
            del ctx.path[saved:]
            facts.extend(new + [inst])
            frontier.extend(new + [inst])
    # hypotheses without triggers are instantiated at the skolem constants / extra terms
    for s in schemas:
        if not s.triggers and s.nvars == 1:
            for t in list(extra_terms) + list(getattr(ctx, "index_terms", [])):
                saved = len(ctx.path)
                inst = s.instantiate(t)
                new = ctx.path[saved:]
                del ctx.path[saved:]
                facts.extend(new + [inst])
                frontier.extend(new + [inst])
    pair_done = set()
    idx_decls = {d.get_id(): d for d in getattr(ctx, "index_funcs", [])}
    idx_schemas = [s for s in schemas if getattr(s, "at_index_terms", False) and s.nvars == 1]
    idx_seen, idx_done, idx_apps = set(), set(), {}
    for s in idx_schemas:
        for t in list(extra_terms) + list(getattr(ctx, "index_terms", [])):
            if (id(s), t.get_id()) in idx_done:
                continue
            idx_done.add((id(s), t.get_id()))
            saved = len(ctx.path)
            inst = s.instantiate(t)
            new = ctx.path[saved:]
            del ctx.path[saved:]
            facts.extend(new + [inst])
            frontier.extend(new + [inst])
    for _ in range(rounds):
        before = {k: set(v) for k, v in apps.items()}
        collect_apps(frontier, decls_by_id, seen, apps)
        if idx_schemas and idx_decls:
            collect_terms(frontier, idx_decls, idx_seen, idx_apps)
        frontier = []
        for s in idx_schemas:
            for tid, t in list(idx_apps.items()):
                if (id(s), tid) in idx_done:
                    continue
                idx_done.add((id(s), tid))
                saved = len(ctx.path)
                inst = s.instantiate(t)
                new = ctx.path[saved:]
                del ctx.path[saved:]
                frontier.extend(new + [inst])
                ninst += 1
        # pair schemas: every ordered pair of occurrences of the trigger function
        for did, occ in apps.items():
            for s in trig[did][1]:
                if not getattr(s, "pair", False):
                    continue
                ids = list(occ)
                if len(ids) > 40:
                    ids = ids[:40]
                for x in ids:
                    for y in ids:
                        if x == y or (id(s), x, y) in pair_done:
                            continue
                        pair_done.add((id(s), x, y))
                        frontier.append(s.instantiate(occ[x][0], occ[y][0]))
                        ninst += 1
        for did, occ in apps.items():
            for eid, argt in occ.items():
                if eid in before.get(did, ()):
                    continue
                for s in trig[did][1]:
                    key = (id(s), eid)
                    if key in done or len(argt) != s.nvars or getattr(s, "pair", False):
                        continue
                    done.add(key)
                    saved = len(ctx.path)
                    inst = s.instantiate(*argt)
                    new = ctx.path[saved:]          # definitional facts created while instantiating
                    del ctx.path[saved:]
                    frontier.extend(new + [inst])
                    ninst += 1
                    if ninst > MAX_INST:
                        break
        if not frontier:
            break
        facts.extend(frontier)
    return facts, ninst


ROUNDS_OVERRIDE = None


def build_query(ctx, ob, rounds=None):
    rounds = rounds or ROUNDS_OVERRIDE or ROUNDS
    neg = z3.Not(ob.goal)
    base = list(ob.path) + [neg]
    facts, ninst = saturate(ctx, base, ob.schemas, ob.extra_terms, rounds)
    if getattr(ctx, "normalise_products", False):
        # sum-of-monomials normal form: (lenc + 1) * (d + 1) becomes lenc*d + lenc + d + 1, so that products share monomials and the
        # monotonicity instances below talk about the same atoms (equivalence-preserving rewriting by z3's simplifier)
        facts = [z3.simplify(f, som=True) for f in facts]
    facts = facts + product_lemmas(facts)
    s = z3.Solver()
    s.add(*facts)
    return s, ninst


def product_lemmas(facts, limit=400):
    """Valid facts about products of two non-constant integer terms occurring in the query
    (z3/cvc5 treat such products as atoms first; these instances of monotonicity of multiplication
    are what the proofs about `row*bytes_per_line + column` need).  For products a*m and b*m sharing
    the factor m:   m >= 0 and a >= b+1  ->  a*m >= b*m + m   (and symmetric);
    for a single product: a >= 0 and m >= 0 -> a*m >= 0;  a >= 1 and m >= 0 -> a*m >= m.
    All are theorems of integer arithmetic, so adding them is sound."""
    prods = {}
    seen = set()
    stack = list(facts)
    while stack:
        e = stack.pop()
        i = e.get_id()
        if i in seen:
            continue
        seen.add(i)
        if z3.is_app(e):
            if z3.is_mul(e) and e.num_args() == 2:
                a, b = e.arg(0), e.arg(1)
                if not z3.is_int_value(a) and not z3.is_int_value(b) and z3.is_int(e):
                    prods[i] = (e, a, b)
            stack.extend(e.children())
        elif z3.is_quantifier(e):
            stack.append(e.body())
    out = []
    items = list(prods.values())
    for (e, a, b) in items:
        out.append(z3.Implies(z3.And(a >= 0, b >= 0), e >= 0))
        out.append(z3.Implies(z3.And(a >= 1, b >= 0), e >= b))
        out.append(z3.Implies(z3.And(b >= 1, a >= 0), e >= a))
    for x in range(len(items)):
        for y in range(x + 1, len(items)):
            e1, a1, b1 = items[x]
            e2, a2, b2 = items[y]
            for (m1, o1) in ((a1, b1), (b1, a1)):
                for (m2, o2) in ((a2, b2), (b2, a2)):
                    if m1.get_id() == m2.get_id():
                        m = m1
                        out.append(z3.Implies(z3.And(m >= 0, o1 >= o2 + 1), e1 >= e2 + m))
                        out.append(z3.Implies(z3.And(m >= 0, o2 >= o1 + 1), e2 >= e1 + m))
                        out.append(z3.Implies(o1 == o2, e1 == e2))
            if len(out) > limit:
                return out
    return out


def solve_obligation(ctx, ob, timeout_ms=10000, use_cvc5=True, want_model=True):
    core.CUR = ctx
    t0 = time.time()
    s, ninst = build_query(ctx, ob)
    s.set("timeout", timeout_ms)
    r = s.check()
    res = {"status": str(r), "backend": "z3-%s" % z3.get_version_string(), "instances": ninst}
    if r == z3.unknown and use_cvc5:
        smt = "(set-logic ALL)\n" + s.to_smt2()
        c = run_cvc5(smt, timeout_ms)
        if c in ("unsat", "sat"):
            res["status"], res["backend"] = c, "cvc5-cli"
            if c == "sat":
                res["status"] = "unknown"      # no model extraction from the CLI: keep undecided
                res["note"] = "cvc5 says sat, z3 unknown"
    if r == z3.unsat and os.environ.get("PYVC_CROSSCHECK") == "1" and use_cvc5:
        # thorough tier: every proof is re-checked by an independent solver binary on the SMT-LIB text of the same (instantiated) query:
        # cvc5 1.0.3 first, then the system z3 4.8.12.  `sat` from either is a solver disagreement -> the obligation is undecided.
        smt = "(set-logic ALL)\n" + s.to_smt2()
        budget = min(timeout_ms, 20000)
        c = run_cvc5(smt, budget)
        who = "cvc5-cli"
        if c == "unknown":
            c = run_z3_cli(smt, budget)
            who = "z3-4.8.12-cli"
        res["crosscheck"] = "%s:%s" % (who, c)
        if c == "sat":
            res["status"] = "unknown"
            res["note"] = "solver disagreement: z3 5.1 says unsat, %s says sat" % who
    if r == z3.sat and want_model:
        res["model"] = s.model()
    res["time_s"] = round(time.time() - t0, 4)
    res["smt2_size"] = len(s.assertions())
    ob.result = res
    ob.solver = s
    return res


def run_cvc5(smt_text, timeout_ms):
    exe = "/usr/bin/cvc5"
    if not os.path.exists(exe):
        return "unknown"
    with tempfile.NamedTemporaryFile("w", suffix=".smt2", delete=False, dir=os.environ.get("PYVC_TMP", None)) as f:
        f.write(smt_text)
        p = f.name
    try:
        out = subprocess.run([exe, "--tlimit=%d" % timeout_ms, "--nl-ext-tplanes", p], capture_output=True, text=True,
                             timeout=timeout_ms / 1000 + 5)
        o = out.stdout.strip().split("\n")[0] if out.stdout.strip() else "unknown"
        return o if o in ("sat", "unsat") else "unknown"
    except Exception:
        return "unknown"
    finally:
        os.unlink(p)


def run_z3_cli(smt_text, timeout_ms):
    exe = "/usr/bin/z3"
    if not os.path.exists(exe):
        return "unknown"
    with tempfile.NamedTemporaryFile("w", suffix=".smt2", delete=False, dir=os.environ.get("PYVC_TMP", None)) as f:
        f.write(smt_text)
        p = f.name
    try:
        out = subprocess.run([exe, "-T:%d" % max(1, timeout_ms // 1000), p], capture_output=True, text=True, timeout=timeout_ms / 1000 + 5)
        o = out.stdout.strip().split("\n")[0] if out.stdout.strip() else "unknown"
        return o if o in ("sat", "unsat") else "unknown"
    except Exception:
        return "unknown"
    finally:
        os.unlink(p)


def smt2_text(ob):
    return ob.solver.to_smt2() if getattr(ob, "solver", None) is not None else ""
