"""Primitive-contract library: the meaning the engine assigns to NumPy / npstructures / io
primitives.  Every entry is an ASSUMED contract about code outside /repo; `EXACT` entries
characterise the result completely, `PARTIAL` ones only constrain it.  rtc/validate_prims.py
checks each entry against the real primitive on enumerated inputs (bounded) on every run.
"""
import z3
from .core import (I, B, conc, And, Or, Not, Implies, Ite, Min, Max, in_range, Forall, SArr, SArr2,
                   SRagged, SRec, SFile, SymList, Opaque, Buf, Unsupported, PathEnd, is_sym)
from . import core

ASSUMED = {}   # name -> (exactness, text) ; filled by @prim


def prim(name, exact, text):
    def deco(f):
        ASSUMED[name] = ("exact" if exact else "partial", text)
        f._prim = name
        return f
    return deco


def ctx():
    return core.CUR


USED = set()


def use(name):
    USED.add(name)


# ---------------------------------------------------------------------------------------
# scalar operations

def _pow2(n):
    return n > 0 and (n & (n - 1)) == 0


def scalar_binop(op, a, b, lineno=None):
    c = ctx()
    if is_sym(a):
        a = conc(a)
    if is_sym(b):
        b = conc(b)
    if isinstance(a, Opaque) or isinstance(b, Opaque):
        raise Unsupported("arithmetic on opaque value")
    if isinstance(a, str) or isinstance(b, str):
        if isinstance(a, str) and isinstance(b, str) and op == "Add":
            return a + b
        raise Unsupported("string arithmetic")
    if not is_sym(a) and not is_sym(b):
        import operator
        if hasattr(a, "item"):
            a = a.item()
        if hasattr(b, "item"):
            b = b.item()
        f = {"Add": operator.add, "Sub": operator.sub, "Mult": operator.mul, "FloorDiv": operator.floordiv,
             "Mod": operator.mod, "BitAnd": operator.and_, "BitOr": operator.or_, "RShift": operator.rshift,
             "LShift": operator.lshift, "Pow": operator.pow, "BitXor": operator.xor, "Div": operator.truediv}[op]
        try:
            return f(a, b)
        except ZeroDivisionError:
            raise PathEnd("raise", "ZeroDivisionError")
    if isinstance(a, (z3.BoolRef, bool)) and isinstance(b, (z3.BoolRef, bool)):
        if op == "BitAnd":
            return And(a, b)
        if op == "BitOr":
            return Or(a, b)
        if op == "BitXor":
            return z3.Xor(B(a), B(b))
    if op == "Add":
        return I(a) + I(b)
    if op == "Sub":
        return I(a) - I(b)
    if op == "Mult":
        return I(a) * I(b)
    if op == "FloorDiv":
        return c.divmod_(a, b, lineno)[0]
    if op == "Mod":
        return c.divmod_(a, b, lineno)[1]
    if op == "BitAnd" and isinstance(b, int) and _pow2(b + 1):
        # x & (2^k - 1)  ==  x mod 2^k   (two's complement: also for negative x)
        return c.divmod_(a, b + 1, lineno)[1]
    if op == "BitAnd" and isinstance(b, int) and _pow2(b):
        # x & 2^k  ==  2^k * ((x div 2^k) mod 2)
        q, _ = c.divmod_(a, b, lineno)
        return I(b) * c.divmod_(q, 2, lineno)[1]
    if op == "RShift" and isinstance(b, int) and b >= 0:
        return c.divmod_(a, 2 ** b, lineno)[0]
    if op == "LShift" and isinstance(b, int) and b >= 0:
        return I(a) * (2 ** b)
    if op == "Pow" and isinstance(b, int) and 0 <= b <= 4:
        r = z3.IntVal(1)
        for _ in range(b):
            r = r * I(a)
        return r
    raise Unsupported("scalar op %s on %r, %r" % (op, a, b))


def scalar_cmp(op, a, b):
    if isinstance(a, Opaque) or isinstance(b, Opaque):
        raise Unsupported("comparison on opaque value")
    if op in ("Is", "IsNot"):
        if a is None or b is None:
            r = (a is None and b is None)
            return r if op == "Is" else not r
        if not is_sym(a) and not is_sym(b):
            return (a is b) if op == "Is" else (a is not b)
        raise Unsupported("identity test on symbolic values")
    if (a is None) != (b is None) and op in ("Eq", "NotEq"):
        return op == "NotEq"                      # None equals only None
    if isinstance(a, str) and len(a) == 1 and (is_sym(b) or isinstance(b, int)):
        a = ord(a)
    if isinstance(b, str) and len(b) == 1 and (is_sym(a) or isinstance(a, int)):
        b = ord(b)
    if not is_sym(a) and not is_sym(b):
        import operator
        f = {"Eq": operator.eq, "NotEq": operator.ne, "Lt": operator.lt, "LtE": operator.le,
             "Gt": operator.gt, "GtE": operator.ge}[op]
        r = f(a, b)
        if hasattr(r, "dtype"):
            r = bool(r)
        return r
    if isinstance(a, (z3.BoolRef, bool)) or isinstance(b, (z3.BoolRef, bool)):
        if op == "Eq":
            return B(a) == B(b)
        if op == "NotEq":
            return B(a) != B(b)
    a, b = I(a), I(b)
    return {"Eq": lambda: a == b, "NotEq": lambda: a != b, "Lt": lambda: a < b, "LtE": lambda: a <= b,
            "Gt": lambda: a > b, "GtE": lambda: a >= b}[op]()


# ---------------------------------------------------------------------------------------
# array helpers

def is_arr(x):
    return isinstance(x, (SArr, SArr2))


def same_len(a, b, what, lineno):
    la, lb = conc(a), conc(b)
    if isinstance(la, int) and isinstance(lb, int):
        if la != lb:
            raise PathEnd("raise", "ValueError")
        return
    ctx().check("%s:shape.%s@L%s" % (ctx().fname, what, lineno), I(a) == I(b), "safety", lineno,
                "operands of an elementwise operation / assignment have equal length")


def elementwise(fn, a, b, kind, lineno=None, what="elementwise"):
    """fn(x, y) applied elementwise with scalar broadcasting. EXACT."""
    use("elementwise")
    if isinstance(a, SArr2) or isinstance(b, SArr2):
        return elementwise2(fn, a, b, kind, lineno, what)
    if isinstance(a, SArr) and isinstance(b, SArr):
        la, lb = conc(a.length), conc(b.length)
        if isinstance(lb, int) and lb == 1 and not (isinstance(la, int) and la == 1):
            fb = b.snapshot(); fa = a.snapshot()
            return SArr.fresh(a.length, lambda i: fn(fa(i), fb(0)), kind, a.enc)
        same_len(a.length, b.length, what, lineno)
        fa, fb = a.snapshot(), b.snapshot()
        return SArr.fresh(a.length, lambda i: fn(fa(i), fb(i)), kind, a.enc or b.enc)
    if isinstance(a, SArr):
        fa = a.snapshot()
        return SArr.fresh(a.length, lambda i: fn(fa(i), b), kind, a.enc)
    fb = b.snapshot()
    return SArr.fresh(b.length, lambda i: fn(a, fb(i)), kind, b.enc)


def _is1(x):
    x = conc(x)
    return isinstance(x, int) and x == 1


def elementwise2(fn, a, b, kind, lineno, what):
    if isinstance(a, SArr2) and isinstance(b, SArr2) and _is1(b.cols) and not _is1(a.cols):
        same_len(a.rows, b.rows, what + ".rows", lineno)
        fa, fb = a.snapshot2(), b.snapshot2()
        return SArr2.fresh(a.rows, a.cols, lambda i, j: fn(fa(i, j), fb(i, 0)), kind, a.enc)
    if isinstance(a, SArr2) and isinstance(b, SArr2):
        same_len(a.rows, b.rows, what + ".rows", lineno)
        same_len(a.cols, b.cols, what + ".cols", lineno)
        fa, fb = a.snapshot2(), b.snapshot2()
        return SArr2.fresh(a.rows, a.cols, lambda i, j: fn(fa(i, j), fb(i, j)), kind, a.enc)
    if isinstance(a, SArr2) and isinstance(b, SArr) and _is1(a.cols) and not _is1(b.length):
        fa, fb = a.snapshot2(), b.snapshot()
        return SArr2.fresh(a.rows, b.length, lambda i, j: fn(fa(i, 0), fb(j)), kind, a.enc)
    if isinstance(a, SArr) and isinstance(b, SArr2) and _is1(b.cols) and not _is1(a.length):
        fa, fb = a.snapshot(), b.snapshot2()
        return SArr2.fresh(b.rows, a.length, lambda i, j: fn(fa(j), fb(i, 0)), kind, b.enc)
    if isinstance(a, SArr2) and isinstance(b, SArr):
        # (rows, cols) op (cols,)  -> broadcast over rows
        same_len(a.cols, b.length, what + ".bcast", lineno)
        fa, fb = a.snapshot2(), b.snapshot()
        return SArr2.fresh(a.rows, a.cols, lambda i, j: fn(fa(i, j), fb(j)), kind, a.enc)
    if isinstance(a, SArr) and isinstance(b, SArr2):
        same_len(b.cols, a.length, what + ".bcast", lineno)
        fa, fb = a.snapshot(), b.snapshot2()
        return SArr2.fresh(b.rows, b.cols, lambda i, j: fn(fa(j), fb(i, j)), kind, b.enc)
    if isinstance(a, SArr2):
        fa = a.snapshot2()
        return SArr2.fresh(a.rows, a.cols, lambda i, j: fn(fa(i, j), b), kind, a.enc)
    fb = b.snapshot2()
    return SArr2.fresh(b.rows, b.cols, lambda i, j: fn(a, fb(i, j)), kind, b.enc)


def map1(fn, a, kind=None):
    if isinstance(a, SArr2):
        f = a.snapshot2()
        return SArr2.fresh(a.rows, a.cols, lambda i, j: fn(f(i, j)), kind or a.kind, a.enc)
    f = a.snapshot()
    return SArr.fresh(a.length, lambda i: fn(f(i)), kind or a.kind, a.enc)


def divisor_check(b, lineno):
    """safety obligation for an array/scalar divisor: every element > 0"""
    c = ctx()
    if isinstance(b, SArr):
        fb = b.snapshot()
        c.oblige("%s:div.positive@L%s" % (c.fname, lineno),
                 Forall(lambda k: Implies(in_range(k, b.length), I(fb(k)) > 0)), "safety", lineno,
                 "every divisor element > 0")
    elif isinstance(b, SArr2):
        fb = b.snapshot2()
        c.oblige("%s:div.positive@L%s" % (c.fname, lineno),
                 Forall(lambda i, j: Implies(And(in_range(i, b.rows), in_range(j, b.cols)), I(fb(i, j)) > 0),
                        nvars=2), "safety", lineno, "every divisor element > 0")


def _divmod_noassert(x, cdiv):
    """element-level // and % inside element functions: the divisor's positivity was obliged when
    the array operation was executed, here the decomposition is only *defined*."""
    c = ctx()
    if isinstance(x, int) and isinstance(cdiv, int):
        return x // cdiv, x % cdiv
    xz, cz = z3.simplify(I(x)), z3.simplify(I(cdiv))
    key = (xz.get_id(), cz.get_id())
    if key in c._divcache:
        ent = c._divcache[key]
        if getattr(c, "solving", False) and len(ent) > 4:
            c.path.extend(ent[4])          # a query that mentions this quotient/remainder needs their defining facts too
        return ent[:2]
    q, r = c.fresh_int("q"), c.fresh_int("r")
    c.keep += [xz, cz]
    facts = [Implies(cz > 0, And(xz == q * cz + r, r >= 0, r < cz))]
    for (q2, r2) in c._divs_by_c.get(cz.get_id(), []):
        d = q - q2
        facts.append(z3.Or(d <= -2, d == -1, d == 0, d == 1, d >= 2))
    c.assume(*facts)
    c._divs_by_c.setdefault(cz.get_id(), []).append((q, r))
    c._divcache[key] = (q, r, xz, cz, facts)
    return q, r


def array_binop(op, a, b, lineno=None):
    if op in ("FloorDiv", "Mod"):
        if is_arr(b):
            divisor_check(b, lineno)
        else:
            bz = conc(b)
            if not (isinstance(bz, int) and bz > 0):
                ctx().check("%s:div.positive@L%s" % (ctx().fname, lineno), I(b) > 0, "safety", lineno)
        idx = 0 if op == "FloorDiv" else 1
        r = elementwise(lambda x, y: _divmod_noassert(x, y)[idx], a, b, "int", lineno)
        cb = conc(b) if not is_arr(b) else None
        if op == "FloorDiv" and isinstance(a, SArr) and isinstance(cb, int) and cb > 0 and isinstance(r, SArr):
            r.floordiv_of = (a.snapshot(), cb, a.length)
        return r
    if op in ("BitAnd", "BitOr", "BitXor") and (getattr(a, "kind", None) == "bool" or getattr(b, "kind", None) == "bool"
                                                 or isinstance(a, (bool, z3.BoolRef)) or isinstance(b, (bool, z3.BoolRef))):
        return elementwise(lambda x, y: scalar_binop(op, B(x), B(y), lineno), a, b, "bool", lineno)
    if op in ("BitAnd", "RShift") and not is_arr(b):
        return elementwise(lambda x, y: _bit_noassert(op, x, y), a, b, "int", lineno)
    if op == "RShift" and isinstance(b, SArr) and isinstance(conc(b.length), int) and conc(b.length) <= 8:
        # x >> [s0, s1, ...] with a short array of literal shift amounts (broadcast): tabulate per amount
        fb0 = b.snapshot()
        amounts = [conc(fb0(j)) for j in range(conc(b.length))]
        if all(isinstance(v, int) and v >= 0 for v in amounts):
            def shift(x, y, amounts=sorted(set(amounts))):
                cy = conc(y)
                if isinstance(cy, int):
                    return _bit_noassert("RShift", x, cy)
                r = _bit_noassert("RShift", x, amounts[-1])
                for v in amounts[:-1]:
                    r = z3.If(I(y) == v, I(_bit_noassert("RShift", x, v)), I(r))
                return r
            return elementwise(shift, a, b, "int", lineno)
    if op == "Pow":
        # base ** (array of concrete length): tabulate (the exponent of each element is a literal)
        arr = b if isinstance(b, SArr) else a
        n = conc(arr.length)
        if isinstance(arr, SArr) and isinstance(n, int) and n <= 64:
            fa = a.snapshot() if isinstance(a, SArr) else (lambda i: a)
            fb = b.snapshot() if isinstance(b, SArr) else (lambda i: b)
            vals = [scalar_binop("Pow", conc(fa(i)), conc(fb(i)), lineno) for i in range(n)]

            def at(i, vals=vals, n=n):
                ci = conc(i)
                if isinstance(ci, int):
                    return vals[ci] if 0 <= ci < n else 0
                r = I(vals[-1]) if n else z3.IntVal(0)
                for j in range(n - 2, -1, -1):
                    r = z3.If(I(i) == j, I(vals[j]), r)
                return r
            return SArr.fresh(n, at, "int")
    # NumPy (NEP 50): the result stays uint8 - and wraps - only when EVERY array operand is uint8 and the scalars are Python ints;
    # a uint8 array combined with an int64 array (the default for untagged arrays) is computed in int64
    u8 = any(getattr(x, "dtype", None) == "uint8" for x in (a, b)) and all((getattr(x, "dtype", None) == "uint8") if is_arr(x) else isinstance(x, int) for x in (a, b))
    if u8 and op in ("Add", "Sub", "Mult"):
        # NumPy (NEP 50): uint8 array op python-int / uint8 array stays uint8 and wraps modulo 256
        use("uint8 array arithmetic wraps modulo 256")
        r = elementwise(lambda x, y: _divmod_noassert(scalar_binop(op, x, y, lineno), 256)[1], a, b, "int", lineno)
        r.dtype = "uint8"
        return r
    r = elementwise(lambda x, y: scalar_binop(op, x, y, lineno), a, b, "int", lineno)
    if op in ("Add", "Sub") and isinstance(a, SArr) and not is_arr(b) and isinstance(r, SArr):
        r.linear_of = (a.snapshot(), b if op == "Add" else scalar_binop("Sub", 0, b))
    elif op == "Add" and isinstance(b, SArr) and not is_arr(a) and isinstance(r, SArr):
        r.linear_of = (b.snapshot(), a)
    elif op == "Mult" and isinstance(r, SArr) and isinstance(a, SArr) and isinstance(conc(b), int) and not is_arr(b) and conc(b) > 0:
        r.scaled_of = (a.snapshot(), conc(b))
    elif op == "Mult" and isinstance(r, SArr) and isinstance(b, SArr) and isinstance(conc(a), int) and not is_arr(a) and conc(a) > 0:
        r.scaled_of = (b.snapshot(), conc(a))
    return r


def _bit_noassert(op, x, m):
    if op == "BitAnd" and isinstance(m, int) and _pow2(m + 1):
        return _divmod_noassert(x, m + 1)[1]
    if op == "BitAnd" and isinstance(m, int) and _pow2(m):
        q, _ = _divmod_noassert(x, m)
        return I(m) * _divmod_noassert(q, 2)[1]
    if op == "RShift" and isinstance(m, int):
        return _divmod_noassert(x, 2 ** m)[0]
    raise Unsupported("bit operation %s with %r" % (op, m))


def array_cmp(op, a, b, lineno=None):
    if isinstance(b, str) and len(b) == 1:
        b = ord(b)
    if isinstance(a, str) and len(a) == 1:
        a = ord(a)
    return elementwise(lambda x, y: scalar_cmp(op, x, y), a, b, "bool", lineno, "compare")


# ---------------------------------------------------------------------------------------
# slicing

def norm_slice(lo, hi, n):
    """CPython slice.indices for step 1: clamp lo, hi into [0, n] with negative wrap-around."""
    n = I(n) if is_sym(n) else n

    def clamp(v, default):
        if v is None:
            return default
        v = conc(v)
        if isinstance(v, int) and isinstance(n, int):
            if v < 0:
                v += n
            return min(max(v, 0), n)
        vz = I(v)
        w = z3.If(vz < 0, vz + I(n), vz)
        return z3.If(w < 0, z3.IntVal(0), z3.If(w > I(n), I(n), w))
    lo2 = clamp(lo, 0)
    hi2 = clamp(hi, n)
    return lo2, hi2


def slice_len(lo2, hi2, step=1):
    lo2, hi2 = conc(lo2), conc(hi2)
    if isinstance(lo2, int) and isinstance(hi2, int) and isinstance(step, int):
        return max(0, (hi2 - lo2 + step - 1) // step)
    if step == 1:
        return conc(z3.If(I(hi2) > I(lo2), I(hi2) - I(lo2), z3.IntVal(0)))
    d = z3.If(I(hi2) > I(lo2), I(hi2) - I(lo2), z3.IntVal(0))
    q, _ = ctx().divmod_(d + (step - 1), step)
    return q


def slice1(a, lo, hi, step=None, lineno=None):
    """Basic slicing of a 1-D array: a VIEW (shares the heap cell). EXACT."""
    use("basic slicing (view)")
    step = 1 if step is None else conc(step)
    if isinstance(step, int) and step == -1 and lo is None and hi is None:
        return SArr(a.buf, a.length, I(a.start) + I(a.step) * (I(a.length) - 1) if not (isinstance(a.start, int) and isinstance(a.step, int) and isinstance(conc(a.length), int)) else a.start + a.step * (conc(a.length) - 1),
                    -a.step if isinstance(a.step, int) else -I(a.step), a.kind, a.enc)
    if not isinstance(step, int):
        if not ctx().branch(I(step) > 0, lineno):
            raise Unsupported("non-positive symbolic slice step")
    elif step <= 0:
        raise Unsupported("negative slice step with bounds")
    lo2, hi2 = norm_slice(lo, hi, a.length)
    n = slice_len(lo2, hi2, step)
    st = a.start
    if isinstance(st, int) and isinstance(a.step, int) and isinstance(conc(lo2), int):
        ns = st + a.step * conc(lo2)
    else:
        ns = I(st) + I(a.step) * I(lo2)
    nstep = a.step * step if isinstance(a.step, int) and isinstance(step, int) else I(a.step) * I(step)
    return SArr(a.buf, n, ns, nstep, a.kind, a.enc)


def index1(a, i, lineno=None):
    """a[i] for a scalar i with Python negative-index wrap; bounds are a safety obligation."""
    c = ctx()
    iz = conc(i)
    n = conc(a.length)
    if isinstance(iz, int) and isinstance(n, int):
        if not (-n <= iz < n):
            raise PathEnd("raise", "IndexError")
        return a.at(iz % n if iz < 0 else iz)
    if isinstance(iz, int) and iz < 0:
        c.check("%s:index.inbounds@L%s" % (c.fname, lineno), I(a.length) + iz >= 0, "safety", lineno)
        return a.at(I(a.length) + iz)
    if isinstance(iz, int):
        c.check("%s:index.inbounds@L%s" % (c.fname, lineno), I(a.length) > iz, "safety", lineno)
        return a.at(iz)
    c.check("%s:index.inbounds@L%s" % (c.fname, lineno), And(I(i) >= -I(a.length), I(i) < I(a.length)),
            "safety", lineno)
    return a.at(z3.If(I(i) < 0, I(i) + I(a.length), I(i)))


def gather(a, idx, lineno=None):
    """Fancy indexing a[idx] with an integer array: a COPY; every index in bounds (obligation). EXACT."""
    use("fancy gather")
    c = ctx()
    fi = idx.snapshot() if isinstance(idx, SArr) else None
    fa = a.snapshot()
    n = a.length
    if isinstance(idx, SArr):
        c.oblige("%s:gather.inbounds@L%s" % (c.fname, lineno),
                 Forall(lambda k: Implies(in_range(k, idx.length), And(I(fi(k)) >= -I(n), I(fi(k)) < I(n)))),
                 "safety", lineno, "every fancy index in bounds")
        return SArr.fresh(idx.length, lambda k: fa(wrapneg(fi(k), n)), a.kind, a.enc)
    if isinstance(idx, SArr2):
        f2 = idx.snapshot2()
        c.oblige("%s:gather.inbounds@L%s" % (c.fname, lineno),
                 Forall(lambda i, j: Implies(And(in_range(i, idx.rows), in_range(j, idx.cols)),
                                             And(I(f2(i, j)) >= -I(n), I(f2(i, j)) < I(n))), nvars=2),
                 "safety", lineno, "every fancy index in bounds")
        return SArr2.fresh(idx.rows, idx.cols, lambda i, j: fa(wrapneg(f2(i, j), n)), a.kind, a.enc)
    raise Unsupported("gather with %r" % (idx,))


def wrapneg(i, n):
    iz = conc(i)
    if isinstance(iz, int):
        return iz if iz >= 0 else I(n) + iz
    return z3.If(I(i) < 0, I(i) + I(n), I(i))


def compress(a, mask, lineno=None):
    """a[mask] with a boolean mask (a COPY): result r of length m with a strictly increasing Skolem
    position function pos: r[t] = a[pos(t)], mask[pos(t)], every true position is hit (inverse rank
    function), m = number of trues.  EXACT (given as instantiable facts)."""
    use("boolean compress / flatnonzero")
    c = ctx()
    same_len(a.length, mask.length, "mask", lineno)
    pos, m = flatnonzero_facts(mask)
    fa = a.snapshot()
    return SArr.fresh(m, lambda t: fa(pos(t)), a.kind, a.enc)


def flatnonzero_facts(mask):
    """Skolem functions for np.flatnonzero(mask): pos (rank -> position) and the count of true elements.
    One (pos, count) per mask CONTENT: a second np.flatnonzero / boolean indexing with the same (unmodified) mask selects the same
    positions.  A mask that is a concatenation is handled part by part: nz(a ++ b) = nz(a) ++ (nz(b) + |a|)  (the definition of
    flatnonzero on a concatenation; validated by the engine self-check)."""
    c = ctx()
    fm = mask.snapshot()
    n = mask.length
    cache = c.ghost.setdefault("nz_cache", {})
    key = (id(fm), z3.simplify(I(n)).get_id())
    if key in cache:
        return cache[key][:2]
    parts = getattr(mask, "concat_parts", None)
    if parts is not None and len(parts) >= 2 and getattr(mask, "start", 0) == 0 and getattr(mask, "step", 1) == 1:
        use("flatnonzero of a concatenation = concatenation of the parts' flatnonzeros, shifted")
        sub, off = [], 0
        for p in parts:
            pp, mm = flatnonzero_facts(p)
            sub.append((pp, mm, off))
            off = conc(I(off) + I(p.length))
        total = 0
        starts = []
        for pp, mm, o in sub:
            starts.append(total)
            total = conc(I(total) + I(mm))

        def pos(t, sub=sub, starts=starts):
            pp, mm, o = sub[-1]
            r = I(o) + I(pp(I(t) - I(starts[-1])))
            for k in range(len(sub) - 2, -1, -1):
                pp, mm, o = sub[k]
                r = Ite(I(t) < I(starts[k + 1]), I(o) + I(pp(I(t) - I(starts[k]))), r)
            return r
        cache[key] = (pos, total, fm)
        return pos, total
    cn = conc(n)
    if isinstance(cn, int) and cn <= 8 and all(isinstance(conc(B(fm(i))), bool) for i in range(cn)):
        hits = [i for i in range(cn) if conc(B(fm(i))) is True]

        def pos(t, hits=hits):
            ct = conc(t)
            if isinstance(ct, int):
                return hits[ct] if 0 <= ct < len(hits) else 0
            r = z3.IntVal(hits[-1]) if hits else z3.IntVal(0)
            for j in range(len(hits) - 2, -1, -1):
                r = z3.If(I(t) == j, z3.IntVal(hits[j]), r)
            return r
        cache[key] = (pos, len(hits), fm)
        return pos, len(hits)
    pos = c.fresh_fun("nzpos")
    rank = c.fresh_fun("nzrank")
    m = c.fresh_int("nzcount")
    c.assume(m >= 0, m <= I(n))
    # pos(t) is a true position, strictly increasing, and rank(pos(t)) = t
    c.assume(Forall(lambda t: Implies(in_range(t, m), And(in_range(pos(t), n), B(fm(pos(t))), rank(pos(t)) == t,
                                                          Implies(t + 1 < m, pos(t) < pos(t + 1)))),
                    triggers=[pos], name="flatnonzero.pos"))
    # every true position p has a rank in [0, m) with pos(rank(p)) = p   (instantiated at rank-occurrences, at the goal's
    # skolem constants and at every index-valued Skolem term of the query)
    sch = Forall(lambda p: Implies(And(in_range(p, n), B(fm(p))), And(in_range(rank(p), m), pos(rank(p)) == p)),
                 triggers=[rank], name="flatnonzero.rank")
    sch.at_index_terms = True
    c.assume(sch)
    c.index_funcs.append(rank)
    # engine lemma L2/L4: strictly increasing adjacent => monotone
    from .core import PairForall
    c.assume(PairForall(pos, lambda a, b: Implies(And(in_range(a, m), in_range(b, m), a <= b), pos(a) <= pos(b)), name="flatnonzero.pos monotone"))
    cache[key] = (pos, m, fm)
    return pos, m


def pow10():
    """10 ** e for a symbolic exponent e >= 0: an uninterpreted function with its recurrence (P10(0) = 1, P10(e+1) = 10 * P10(e), P10 >= 1)"""
    c = ctx()
    P = c.ghost.get("pow10")
    if P is None:
        use("10 ** e for symbolic e >= 0 (uninterpreted function with its recurrence)")
        P = c.ghost["pow10"] = z3.Function("pow10", z3.IntSort(), z3.IntSort())
        c.assume(P(0) == 1)
        c.assume(Forall(lambda e: Implies(I(e) >= 0, And(P(I(e) + 1) == 10 * P(I(e)), P(I(e)) >= 1)), triggers=[P], name="pow10.rec"))
    return P


def count_before(mask):
    """K(i) = number of true elements of mask before position i (exclusive prefix sum of the 0/1 mask), together with engine lemma L9
    (pyvc/lemmas.py): K brackets the positions of np.flatnonzero(mask):  pos(K(i)-1) < i <= pos(K(i)), 0 <= K(i) <= count, K(n) = count."""
    c = ctx()
    pos, m = flatnonzero_facts(mask)
    fm = mask.snapshot()
    n = mask.length
    f01 = c.ghost.setdefault("mask01", {}).setdefault(id(fm), (lambda k, fm=fm: Ite(B(fm(k)), 1, 0)))
    K = exclusive_prefix(f01, n)
    done = c.ghost.setdefault("L9_done", set())
    if K.get_id() not in done:
        done.add(K.get_id())
        use("engine lemma: the count of true positions before i brackets flatnonzero's positions (pyvc/lemmas.py L9)")
        body = lambda i: Implies(And(I(i) >= 0, I(i) <= I(n)),
                                 And(K(i) >= 0, K(i) <= I(m), Implies(K(i) > 0, I(pos(K(i) - 1)) < I(i)), Implies(K(i) < I(m), I(pos(K(i))) >= I(i))))
        c.assume(Forall(body, triggers=[K], name="L9 count brackets positions"))
        c.assume(K(I(n)) == I(m))
    return K, pos, m


def flatnonzero(mask, lineno=None):
    use("boolean compress / flatnonzero")
    if mask.kind != "bool":
        f0 = mask.snapshot()
        mask = SArr.fresh(mask.length, lambda i: I(f0(i)) != 0, "bool")
    pos, m = flatnonzero_facts(mask)
    r = SArr.fresh(m, lambda t: pos(t), "int")
    r.nz_of = (mask, pos)
    r.sorted_strict = True
    return r


# ---------------------------------------------------------------------------------------
# prefix sums

def cumsum(a, lineno=None):
    """np.cumsum(a)[t] = C(t+1) where C is the exclusive prefix-sum function of a (C(0)=0, C(i+1)=C(i)+a(i)). EXACT."""
    use("cumsum (prefix-sum recurrence)")
    fa = a.snapshot()
    n = a.length
    C = exclusive_prefix(fa, n, a)
    maybe_monotone(C, fa, n)
    r = SArr.fresh(n, lambda t: C(I(t) + 1), "int")
    r.prefix = (C, fa, n)
    return r


def exclusive_prefix(fa, n, src=None):
    """C(0)=0, C(i+1)=C(i)+a(i) for 0<=i<n: the exclusive prefix-sum function of a.  One function per (array content,
    length): np.cumsum, RaggedArray row offsets, sums ... of the SAME array share it."""
    c = ctx()
    cache = c.ghost.setdefault("xsum_cache", {})
    nz = z3.simplify(I(n))
    key = (id(fa), nz.get_id())
    if key in cache:
        return cache[key][0]
    C = c.fresh_fun("xsum")
    c.assume(C(0) == 0)
    c.assume(Forall(lambda t: Implies(And(t >= 1, t <= I(n)), C(t) == C(t - 1) + I(fa(t - 1))),
                    triggers=[C], name="xsum.rec"))
    cache[key] = (C, fa, nz)
    fd = getattr(src, "floordiv_of", None)
    if fd is not None:
        # engine lemma L8 (pyvc/lemmas.py): if every a(k) is a multiple of c then  prefix(a)(i) == c * prefix(a // c)(i)
        base_fa, cdiv, nb = fd
        Cb = exclusive_prefix(base_fa, n)
        if c.try_prove("%s:prefix.summands.divisible" % c.fname,
                       Forall(lambda k: Implies(in_range(k, n), _divmod_noassert(base_fa(k), cdiv)[1] == 0)),
                       "every summand is a multiple of the divisor (premise of the prefix-sum scaling lemma)"):
            use("engine lemma: prefix sum of (a // c) times c is the prefix sum of a when c divides every a(k) (pyvc/lemmas.py L8)")
            c.assume(Forall(lambda i: Implies(And(I(i) >= 0, I(i) <= I(n)), Cb(i) == cdiv * C(i)), triggers=[C], name="L8 scaling"))
            c.assume(Forall(lambda i: Implies(And(I(i) >= 0, I(i) <= I(n)), Cb(i) == cdiv * C(i)), triggers=[Cb], name="L8 scaling'"))
    sc = getattr(src, "scaled_of", None)
    if sc is not None:
        # engine lemma L8 again, premise true by construction: src = c * base elementwise  =>  prefix(src)(i) = c * prefix(base)(i)
        use("engine lemma: prefix sum of c*b is c times the prefix sum of b (pyvc/lemmas.py L8)")
        base_fa, cst = sc
        Cb = exclusive_prefix(base_fa, n)
        c.assume(Forall(lambda i: Implies(And(I(i) >= 0, I(i) <= I(n)), C(i) == cst * Cb(i)), triggers=[C], name="L8 scaled prefix"))
        c.assume(Forall(lambda i: Implies(And(I(i) >= 0, I(i) <= I(n)), C(i) == cst * Cb(i)), triggers=[Cb], name="L8 scaled prefix'"))
    lin = getattr(src, "linear_of", None)
    if lin is not None:
        # engine lemma L5 (pyvc/lemmas.py): prefix sums are linear:  g = a + c  =>  C_g(i) = C_a(i) + c*i
        use("engine lemma: prefix sum of (a + c) is prefix sum of a plus c*i (pyvc/lemmas.py L5)")
        base_fa, cst = lin
        Cb = exclusive_prefix(base_fa, n)
        c.assume(Forall(lambda i: Implies(And(I(i) >= 0, I(i) <= I(n)), C(i) == Cb(i) + I(cst) * I(i)), triggers=[C], name="L5 linear prefix"))
        c.assume(Forall(lambda i: Implies(And(I(i) >= 0, I(i) <= I(n)), C(i) == Cb(i) + I(cst) * I(i)), triggers=[Cb], name="L5 linear prefix'"))
    return C


def maybe_monotone(C, fa, n):
    """enable the prefix-sum monotonicity lemma when its premise (summands >= 0) is provable right here"""
    c = ctx()
    done = c.ghost.setdefault("monotone_done", set())
    if C.get_id() in done:
        return
    if c.try_prove("%s:prefix.summands.nonneg" % c.fname, Forall(lambda k: Implies(in_range(k, n), I(fa(k)) >= 0)),
                   "summands are non-negative (premise of the prefix-sum monotonicity lemma)"):
        done.add(C.get_id())
        _assume_monotone(C, n)


def _assume_monotone(C, n):
    from .core import PairForall
    c = ctx()
    use("engine lemma: prefix sums of non-negative terms are non-negative and monotone (pyvc/lemmas.py L1-L3)")
    c.assume(Forall(lambda i: Implies(And(I(i) >= 0, I(i) <= I(n)), C(i) >= 0), triggers=[C], name="L1 prefix >= 0"))
    c.assume(PairForall(C, lambda a, b: Implies(And(a >= 0, a <= b, b <= I(n)), C(a) <= C(b)), name="L3 prefix monotone"))
    c.assume(Forall(lambda i: Implies(And(I(i) >= 0, I(i) <= I(n)), C(i) <= C(I(n))), triggers=[C], name="L3 prefix <= total"))


def prefix_monotone(C, fa, n, oid="prefix.nonneg", pairs=True):
    """Premise (obligation): every summand fa(k) >= 0 on [0, n).  Conclusion (engine lemmas L1, L3+L2, proved
    schematically in pyvc/lemmas.py): C >= 0 and C monotone on [0, n].  pairs=False: only C >= 0 and C <= total (cheaper to instantiate)."""
    from .core import PairForall
    c = ctx()
    use("engine lemma: prefix sums of non-negative terms are non-negative and monotone (pyvc/lemmas.py L1-L3)")
    c.oblige("%s:%s" % (c.fname, oid), Forall(lambda k: Implies(in_range(k, n), I(fa(k)) >= 0)), "lemma-premise",
             None, "summands are non-negative (premise of the prefix-sum monotonicity lemma)")
    c.assume(Forall(lambda i: Implies(And(I(i) >= 0, I(i) <= I(n)), C(i) >= 0), triggers=[C], name="L1 prefix >= 0"))
    if pairs:
        c.assume(PairForall(C, lambda a, b: Implies(And(a >= 0, a <= b, b <= I(n)), C(a) <= C(b)), name="L3 prefix monotone"))
    c.assume(Forall(lambda i: Implies(And(I(i) >= 0, I(i) <= I(n)), C(i) <= C(I(n))), triggers=[C], name="L3 prefix <= total"))


def prefix_congruent(C1, f1, C2, f2, n, oid="prefix.congruent"):
    """Engine lemma L6 (pyvc/lemmas.py): if f1(k) == f2(k) for 0 <= k < n then the exclusive prefix sums agree on [0, n].
    The premise is obliged here; the conclusion becomes an instantiable hypothesis."""
    c = ctx()
    use("engine lemma: equal summands have equal prefix sums (pyvc/lemmas.py L6)")
    c.oblige("%s:%s" % (c.fname, oid), Forall(lambda k: Implies(in_range(k, n), I(f1(k)) == I(f2(k)))), "lemma-premise", None,
             "the two summand sequences agree element-wise (premise of the prefix-sum congruence lemma)")
    c.assume(Forall(lambda i: Implies(And(I(i) >= 0, I(i) <= I(n)), C1(i) == C2(i)), triggers=[C1], name="L6 congruence"))
    c.assume(Forall(lambda i: Implies(And(I(i) >= 0, I(i) <= I(n)), C1(i) == C2(i)), triggers=[C2], name="L6 congruence'"))
