"""C07 - encoded arrays behave like NumPy arrays of characters.

Proved kernel: strops.split for a single separator character, any text: with sep(0) < sep(1) < ... the positions of the
separator (plus the virtual one at the end of the text), row t of the result is text[sep(t-1)+1 : sep(t)); the number of
rows is the number of separators + 1; no row reads the padding element.  (The telescoping of the row lengths is a lemma by
induction, invoked at the program point where the ragged array is built.)
"""
import types
import z3
from pyvc.core import I, B, And, Or, Not, Implies, Ite, in_range, Forall, SArr, conc
from pyvc import npmodel as M
from pyvc.verify import Contract

ASSUMPTIONS = ["npstructures.util.unsafe_extend_right/left append/prepend one zero element (as in the installed version)",
               "EncodedRaggedArray(data, lengths) rows are consecutive; ragged[:, :-1] drops the last element of every row"]
NOT_PROVED = ["the indexing / comparison / assignment / concatenation protocol of EncodedArray and EncodedRaggedArray over operation programs "
              "(delegation to npstructures and re-wrapping): bounded (rtc/enum_c07.py)", "str_equal, util.ragged_slice: bounded (strops.join is proved below)"]


class St(types.SimpleNamespace):
    pass


def _split():
    from bionumpy.io import strops
    return strops.split


def _setup(ctx):
    st = St()
    st.N = z3.Int("N")
    st.x = z3.Function("x", z3.IntSort(), z3.IntSort())
    st.args = [SArr.fresh(st.N, lambda p: st.x(I(p)), enc="BaseEncoding"), ","]
    return st


def _lemma(ip, env, st):
    """telescoping: the exclusive prefix sums of the row lengths are C(t) = sep_idx(t-1) + 1 for t >= 1"""
    lens, sep = env.vars["lens"], env.vars["sep_idx"]
    C = M.exclusive_prefix(lens.snapshot(), lens.length)
    st.C, st.sep = C, sep
    ip.ctx.induct("C07.split:lemma.row.offsets.telescope", lambda t: C(t) == I(sep.at(I(t) - 1)) + 1, C, lo=1, hi=lens.length)


def _hints(ctx, st, ks):
    out = [st.N]                                     # the position of the virtual separator
    sep = getattr(st, "sep", None) or st.ip.last_locals.get("sep_idx") or None
    if sep is None:
        cur = getattr(st.ip, "cur_env_vars", None)
    if sep is not None:
        out += [sep.at(I(sep.length) - 1), sep.at(0)]
    if ks and hasattr(st, "C"):
        out += [st.C(ks[0]), st.C(ks[0] + 1)]
    return out


def _ens(ctx, st, ret):
    sep = st.ip.last_locals["sep_idx"]
    m = sep.length
    start = lambda t: Ite(I(t) == 0, 0, I(sep.at(I(t) - 1)) + 1)
    return [("rows = separators + 1 (the virtual separator at the end included)", I(ret.n) == I(m)),
            ("last.separator.is.the.virtual.one", sep.at(I(m) - 1) == st.N),
            ("separators.are.exactly.the.sep.characters", Forall(lambda t: Implies(And(in_range(t, m), t + 1 < I(m)), st.x(sep.at(t)) == ord(",")))),
            ("row.start", Forall(lambda t: Implies(in_range(t, m), I(ret.starts(t)) == start(t)))),
            ("row.length", Forall(lambda t: Implies(in_range(t, m), I(ret.lens(t)) == I(sep.at(t)) - start(t)))),
            ("row.content.is.the.text.between.separators", Forall(lambda t, k: Implies(And(in_range(t, m), in_range(k, ret.lens(t))),
                                                                                       And(ret.at(t, k) == st.x(start(t) + k), start(t) + k < st.N)), nvars=2))]


split = Contract("C07.strops.split[single separator]", target=_split, setup=_setup, requires=lambda ctx, st: [st.N >= 0, Forall(lambda p: And(st.x(p) >= 0, st.x(p) < 256), triggers=[st.x], name="bytes")],
                 ensures=_ens, ghost=[("ragged_array = EncodedRaggedArray(", _lemma)],
                 hints=lambda ctx, st, ks: _hints(ctx, st, ks),
                 canaries=[("first row one short", "lens[0] = sep_idx[0]+1", "lens[0] = sep_idx[0]"),
                           ("separator kept", "return ragged_array[:, :-1]", "return ragged_array[:, :]"),
                           ("virtual separator not forced", "mask[-1] = True", "mask[-1] = mask[-1]")])

CONTRACTS = [split]


# --- comparison with an array of another alphabet encoding: the operand is first re-targeted by as_encoded_array (encoded_array.py
# _parse_ufunc_inputs); the re-target rule is the contract proved for C06, instantiated here because a wrong rule silently changes what
# `a == b` compares (the text of b must stay the same).
from contracts.c06 import mk_retarget      # noqa: E402
CONTRACTS.append(mk_retarget("C07"))


# --- strops.join: the inverse of split --------------------------------------------------------------------------------------------------------------
# For ANY ragged text (n >= 1 rows, rows may be empty): the result is row 0, sep, row 1, sep, ...; row i starts at C(i) + i (C = prefix sums of the row
# lengths); with keep_last the text ends with a separator, without it the final separator is dropped.  The operand is not modified.
from pyvc.pybuiltins import SRaggedObj      # noqa: E402


def _join():
    from bionumpy.io import strops
    return strops.join


def _mk_join(keep_last):
    def setup(ctx):
        st = St()
        st.n = z3.Int("n_rows")
        st.L = z3.Function("row_length", z3.IntSort(), z3.IntSort())
        st.ch = z3.Function("char", z3.IntSort(), z3.IntSort(), z3.IntSort())
        st.fl = lambda i: st.L(I(i))
        st.C = M.exclusive_prefix(st.fl, st.n)
        st.seqs = SRaggedObj(None, st.n, lambda i: st.C(I(i)), st.fl, "BaseEncoding", st.C(st.n), contiguous=True, C=st.C)
        st.seqs.at = lambda i, k: st.ch(I(i), I(k))
        st.args = [st.seqs]
        st.kwargs = {"sep": "\t", "keep_last": keep_last}
        return st

    def req(ctx, st):
        ctx.assume(st.n >= 1, Forall(lambda i: Implies(in_range(i, st.n), st.L(i) >= 0), triggers=[st.L], name="row lengths >= 0"))
        M.prefix_monotone(st.C, st.fl, st.n)
        return []

    def ens(ctx, st, ret):
        start = lambda i: st.C(i) + I(i)
        st.ret = ret
        goals = [("length", I(ret.length) == st.C(st.n) + st.n - (0 if keep_last else 1)),
                 ("row.i.follows.at.C(i)+i", Forall(lambda i, k: Implies(And(in_range(i, st.n), in_range(k, st.L(i))), I(ret.at(start(i) + k)) == st.ch(i, k)), nvars=2)),
                 ("separator.after.every.row" + ("" if keep_last else ".but.the.last"),
                  Forall(lambda i: Implies(And(in_range(i, st.n), True if keep_last else i + 1 < st.n), I(ret.at(start(i) + st.L(i))) == 9)))]
        return goals

    def hints(ctx, st, ks):
        out = []
        for k in ks[:1]:
            out += [st.C(k), st.C(k + 1)]
        return out
    return Contract("C07.strops.join[keep_last=%s]" % keep_last, target=_join, setup=setup, requires=req, ensures=ens, hints=hints, timeout_ms=60000,
                    canaries=[("separator written over the last character", 'new_array[:, -1] = sep', 'new_array[:, -2] = sep'),
                              ("rows shifted by one", "new_array[:, :-1] = sequences", "new_array[:, 1:] = sequences")] if keep_last else
                             [("final separator kept", "return new_array.ravel()[:-1]", "return new_array.ravel()")])


CONTRACTS += [_mk_join(True), _mk_join(False)]
