"""C09 - genomic arrays are exact, lossless views of dense per-base arrays.

Proved kernel: GenomicRunLengthArray.from_intervals with a scalar value - the event/value layout for ALL FOUR
prefix/postfix combinations (first interval starts at 0 or later; last interval ends at `size` or before), any number
of intervals K >= 1:  events = [0?] s0 e0 s1 e1 ... [size?],  values = [default?] v default v ... ,
len(values) = len(events) - 1, first event 0, last event `size`.  With the denotation of npstructures' RunLengthArray
(value t holds on [events[t], events[t+1]) - assumed, validated bounded) this is: dense(x) = v inside an interval, default
in every gap, length = size.
Also from_bedgraph (n >= 1 rows, with and without `size`): gap runs, leading and trailing zero runs, row i becomes run i + (gaps before i) + [start_0 != 0]
(np.insert with index arrays: Skolem model validated by the engine self-check; the gap count is tied to np.flatnonzero by engine lemma L9).
"""
import types
import z3
from pyvc.core import I, B, And, Or, Not, Implies, Ite, Min, Max, in_range, Forall, SArr, SRec, Opaque, conc
from pyvc.verify import Contract

ASSUMPTIONS = ["npstructures RunLengthArray(events, values, do_clean=True): run t has value values[t] on [events[t], events[t+1]); "
               "empty runs and equal neighbours are merged (validated bounded in rtc/enum_c09.py)"]
NOT_PROVED = ["to_array (xor-accumulate), from_bedgraph of an EMPTY table, array-valued `values` of from_intervals, ufunc forwarding, reductions, "
              "back-conversion to intervals/bedGraph, genome-wide concatenation: bounded"]


class St(types.SimpleNamespace):
    pass


def _G():
    from bionumpy.arithmetics.intervals import GenomicRunLengthArray
    return GenomicRunLengthArray


def _rla(ip, args, kwargs, lineno):
    return SRec(None, events=args[0], values=args[1], do_clean=kwargs.get("do_clean"))


def _setup(ctx):
    st = St()
    st.K, st.size, st.v, st.dflt = z3.Int("K"), z3.Int("size"), z3.Int("value"), z3.Int("default")
    st.s = z3.Function("start", z3.IntSort(), z3.IntSort())
    st.e = z3.Function("end", z3.IntSort(), z3.IntSort())
    ctx.ip.class_models[_G()] = _rla
    st.args = [_G(), SArr.fresh(st.K, lambda i: st.s(I(i))), SArr.fresh(st.K, lambda i: st.e(I(i))), st.size]
    st.kwargs = {"values": st.v, "default_value": st.dflt}
    return st


def _req(ctx, st):
    from pyvc.core import PairForall
    return [st.K >= 1, st.size >= 1,
            Forall(lambda i: Implies(in_range(i, st.K), And(0 <= st.s(i), st.s(i) < st.e(i), st.e(i) <= st.size,
                                                            Implies(i + 1 < st.K, st.e(i) <= st.s(i + 1)))), triggers=[st.s], name="sorted, non-overlapping, non-empty intervals inside [0,size]"),
            Forall(lambda i: Implies(in_range(i, st.K), And(0 <= st.s(i), st.s(i) < st.e(i), st.e(i) <= st.size,
                                                            Implies(i + 1 < st.K, st.e(i) <= st.s(i + 1)))), triggers=[st.e], name="same, on end"),
            PairForall(st.s, lambda a, b: Implies(And(in_range(a, st.K), in_range(b, st.K), a < b), st.e(a) <= st.s(b)), name="L2: ends before later starts")]


def _ens(ctx, st, ret):
    ev, va = ret.get("events"), ret.get("values")
    p = Ite(st.s(0) != 0, 1, 0)
    q = Ite(st.e(st.K - 1) != st.size, 1, 0)
    return [("n.events", I(ev.length) == p + q + 2 * st.K),
            ("first.event.is.0", ev.at(0) == 0),
            ("last.event.is.size", ev.at(I(ev.length) - 1) == st.size),
            ("interval.events", Forall(lambda i: Implies(in_range(i, st.K), And(ev.at(p + 2 * I(i)) == st.s(i), ev.at(p + 2 * I(i) + 1) == st.e(i))))),
            ("one.value.per.run", I(va.length) == I(ev.length) - 1),
            ("interval.runs.carry.the.value", Forall(lambda i: Implies(in_range(i, st.K), va.at(p + 2 * I(i)) == st.v))),
            ("gap.runs.carry.the.default", Forall(lambda i: Implies(And(in_range(i, st.K), p + 2 * I(i) + 1 < I(va.length)), va.at(p + 2 * I(i) + 1) == st.dflt))),
            ("leading.gap.carries.the.default", Implies(p == 1, va.at(0) == st.dflt)),
            ("cleaning.requested", ret.get("do_clean") is True)]


def _concretize(model, ctx, st, oid):
    """replay a counter-model on the real from_intervals: the run-length array must denote value inside the intervals, default in the gaps,
    and end at `size` (checked through events/values and, for small sizes, the dense array)"""
    import numpy as np
    mv = lambda t: model.eval(t, model_completion=True).as_long()
    K, size = mv(st.K), mv(st.size)
    if K > 6:
        K = 1
    iv = []
    for i in range(K):
        a, b = mv(st.s(z3.IntVal(i))), mv(st.e(z3.IntVal(i)))
        if not (0 <= a < b <= size and (not iv or iv[-1][1] <= a)):
            a = iv[-1][1] if iv else 0
            b = a + 1
        if b <= size:
            iv.append((a, b))
    if not iv:
        iv = [(0, 1)]
    starts, ends = np.array([a for a, b in iv], dtype=int), np.array([b for a, b in iv], dtype=int)
    inp = {"starts": starts.tolist(), "ends": ends.tolist(), "size": size, "values": 7, "default_value": 0}
    try:
        r = _G().from_intervals(starts, ends, size, values=7, default_value=0)
        ev, va = np.asarray(r._events if hasattr(r, "_events") else r.starts), np.asarray(r._values)
        # denotation: value of the run containing position p
        probes = sorted({0, size - 1} | {a for a, b in iv} | {b - 1 for a, b in iv} | {b for a, b in iv if b < size} | {a - 1 for a, b in iv if a > 0})
        bad = []
        for p in probes:
            t = int(np.searchsorted(ev, p, side="right") - 1)
            got = int(va[t]) if 0 <= t < len(va) else None
            exp = 7 if any(a <= p < b for a, b in iv) else 0
            if got != exp:
                bad.append((p, got, exp))
        if int(ev[-1]) != size:
            bad.append(("last event", int(ev[-1]), size))
        return {"reproduced": bool(bad), "input": inp, "wrong_positions (position, got, expected)": bad[:6]}
    except Exception as e:
        return {"reproduced": True, "input": inp, "raised": repr(e)}


def mk_from_intervals(prefix):
    return Contract("%s.GenomicRunLengthArray.from_intervals[scalar value]" % prefix, target=lambda: _G().from_intervals.__func__, setup=_setup, requires=_req,
                    ensures=_ens, dropped=["docstring", "assert messages", "annotations"], decorators={"@classmethod": "receiver is the class"},
                    concretize=_concretize,
                    canaries=[("postfix test on the wrong end", "postfix = [size] if (len(ends) == 0 or ends[-1] != size) else []", "postfix = [size] if (len(ends) == 0 or ends[0] != size) else []"),
                              ("values not shifted when starting at 0", "values = values[1:]", "values = values[0:]"),
                              ("ends placed one slot late", "events[len(prefix)+1:-1:2] = ends", "events[len(prefix)+2:-1:2] = ends"),
                              ("default and value swapped", "values[::2] = default_value", "values[::2] = tmp"),
                              ("32-bit event array (positions of a whole genome do not fit)", "starts.size + ends.size, dtype=int)", "starts.size + ends.size, dtype=np.int32)")])


from_intervals = mk_from_intervals("C09")

CONTRACTS = [from_intervals]


# ---------------------------------------------------------------------------------------------------------------------------------------------
# from_bedgraph: rows (start_i, stop_i, value_i), sorted and non-overlapping, n >= 1; a gap run with value 0 is inserted wherever
# start_{i+1} != stop_i, a leading zero run if start_0 != 0, a trailing zero run up to `size` if the last stop is smaller.
# With G(i) = number of gaps between rows 0..i (spec function: prefix count) and z = [start_0 != 0], row i becomes run r(i) = i + G(i) + z:
#   events[r(i)] = start_i,  values[r(i)] = value_i,  events[r(i)+1] = stop_i;  every inserted run carries 0;  events[0] = 0;  the last event is
#   `size` (or the last stop when no size is given);  len(values) = len(events) - 1.
from pyvc.pybuiltins import STable      # noqa: E402
from pyvc import npmodel as M           # noqa: E402


def _setup_bg(with_size):
    def setup(ctx):
        st = St()
        st.n, st.size = z3.Int("n_rows"), z3.Int("size")
        st.s, st.e, st.v = [z3.Function(x, z3.IntSort(), z3.IntSort()) for x in ("start", "stop", "value")]
        st.gap01 = lambda k: Ite(st.s(I(k) + 1) != st.e(I(k)), 1, 0)
        st.G = M.exclusive_prefix(st.gap01, st.n - 1)
        ctx.ip.class_models[_G()] = _rla
        st.table = STable({"chromosome": SArr.fresh(st.n, lambda i: 0), "start": SArr.fresh(st.n, lambda i: st.s(I(i))),
                           "stop": SArr.fresh(st.n, lambda i: st.e(I(i))), "value": SArr.fresh(st.n, lambda i: st.v(I(i)))}, st.n)
        st.args = [_G(), st.table]
        st.kwargs = {"size": st.size} if with_size else {}
        st.with_size = with_size
        return st
    return setup


def _req_bg(ctx, st):
    from pyvc.core import PairForall
    ctx.assume(st.n >= 1)
    M.prefix_monotone(st.G, st.gap01, st.n - 1, pairs=False)
    r = [Forall(lambda i: Implies(in_range(i, st.n), And(0 <= st.s(i), st.s(i) < st.e(i), Implies(i + 1 < st.n, st.e(i) <= st.s(i + 1)))), triggers=[st.s],
                name="sorted, non-overlapping, non-empty rows"),
         Forall(lambda i: Implies(in_range(i, st.n), And(0 <= st.s(i), st.s(i) < st.e(i), Implies(i + 1 < st.n, st.e(i) <= st.s(i + 1)))), triggers=[st.e], name="same, on stop")]
    if st.with_size:
        r.append(st.e(st.n - 1) <= st.size)
    return r


def _ghost_bg(ip, env, st):
    """the code's gap mask has the spec's gap count as its prefix count (L6), and that count brackets flatnonzero's positions (L9)"""
    mi = env.vars["missing_idx"]
    mask = mi.nz_of[0]
    K, pos, m = M.count_before(mask)
    fm = mask.snapshot()
    f01 = ip.ctx.ghost["mask01"][id(fm)]
    M.prefix_congruent(K, f01, st.G, st.gap01, st.n - 1, "lemma.gap.count")
    st.K, st.pos, st.m = K, pos, m


def _ens_bg(ctx, st, ret):
    ev, va = ret.get("events"), ret.get("values")
    z = Ite(st.s(0) != 0, 1, 0)
    last_stop = st.e(st.n - 1)
    T = Ite(st.size != last_stop, 1, 0) if st.with_size else 0
    r = lambda i: I(i) + st.G(i) + z
    st.ev = ev
    goals = [("n.events", I(ev.length) == st.n + st.G(st.n - 1) + 1 + T + z),
             ("one.value.per.run", I(va.length) == I(ev.length) - 1),
             ("first.event.is.0", ev.at(0) == 0),
             ("last.event.is.size (or the last stop)", ev.at(I(ev.length) - 1) == (st.size if st.with_size else last_stop)),
             ("row.i.is.run.r(i): start", Forall(lambda i: Implies(in_range(i, st.n), ev.at(r(i)) == st.s(i)))),
             ("row.i.is.run.r(i): stop", Forall(lambda i: Implies(in_range(i, st.n), ev.at(r(i) + 1) == st.e(i)))),
             ("row.i.is.run.r(i): value", Forall(lambda i: Implies(in_range(i, st.n), va.at(r(i)) == st.v(i)))),
             ("gap.runs.carry.0", Forall(lambda i: Implies(And(in_range(i, st.n - 1), st.s(i + 1) != st.e(i)), va.at(r(i) + 1) == 0))),
             ("leading.run.carries.0", Implies(st.s(0) != 0, va.at(0) == 0))]
    if st.with_size:
        goals.append(("trailing.run.carries.0", Implies(st.size != last_stop, va.at(I(va.length) - 1) == 0)))
    return goals


def _hints_bg(ctx, st, ks):
    out = [st.G(st.n - 1)]
    if hasattr(st, "K"):
        out += [st.K(st.n - 1)]
        for k in ks[:1]:
            out += [st.G(k), st.G(k + 1), st.K(k), st.K(k + 1), st.pos(st.K(k)), st.pos(st.K(k) - 1), k + st.K(k), k + st.K(k) + 1, k - 1]
    return out


def _mk_bg(with_size):
    return Contract("C09.GenomicRunLengthArray.from_bedgraph[%s]" % ("size given" if with_size else "no size"), target=lambda: _G().from_bedgraph.__func__,
                    setup=_setup_bg(with_size), requires=_req_bg, ensures=_ens_bg, hints=_hints_bg, timeout_ms=60000, rounds=2,
                    ghost=[("if len(missing_idx):", _ghost_bg)], raises={},
                    decorators={"@classmethod": "receiver is the class"},
                    canaries=[("gap run starts at the NEXT row's start", "np.insert(bedgraph.start, missing_idx+1, bedgraph.stop[missing_idx])", "np.insert(bedgraph.start, missing_idx+1, bedgraph.start[missing_idx+1])"),
                              ("gap inserted before the wrong row", "value = np.insert(bedgraph.value, missing_idx+1, 0)", "value = np.insert(bedgraph.value, missing_idx, 0)"),
                              ("no leading run", "if events[0] != 0:", "if False:")])


CONTRACTS += [_mk_bg(True), _mk_bg(False)]


# --- the genome-wide array is ONE run-length array over the concatenated chromosomes: its coordinates are GlobalOffset's offsets (contract proved
# for C10, instantiated here): offset(c) + local position, exact integers for genomes of any total size.
from contracts.c10 import mk_from_local       # noqa: E402
CONTRACTS.append(mk_from_local("C09"))
