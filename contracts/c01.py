"""C01 - chunked reading loses, duplicates or reorders no entry, for any chunk size.

P1 (this file): byte conservation of NumpyFileReader.read_chunk / _get_buffer / __add_newline_to_end, proved ONCE,
generically in the format: the buffer type appears only through an abstract cut function
    from_raw_buffer(s).size = cut(s),  0 < cut(s) <= |s|,  data handed on = s[:cut(s)]                     (X1)
    contains_complete_entry(chunks) is some boolean; at end of file, for a well-formed file, a non-empty
    newline-terminated remainder contains a complete entry                                                   (X3a)
    at end of file cut covers every real byte: cut(s) = |s| - [entry marker appended]                        (X3b)
Ghost state: file bytes F, OS position pos, carried tail `_prepend`; undelivered bytes U = prepend ++ F[pos:].
Contract of read_chunk (k = min_chunk_size >= 1, max_chunk_size = None):
  (a) a returned buffer is exactly the next buff.size undelivered bytes, and afterwards U' = U[buff.size:]
      (through the seek branch and through the prepend branch); at end of file nothing stays undelivered;
  (b) None is returned only if nothing was undelivered when the call started;
  (c) n_lines_read / n_bytes_read advance by the buffer's own counts.
P2: DelimitedBuffer.from_raw_buffer discharges X1 for delimited formats (cut = index of the last newline + 1).
"""
import types
import z3
from pyvc.core import I, B, And, Or, Not, Implies, Ite, Min, Max, in_range, Forall, SArr, SArr2, SRec, SFile, Opaque, conc, PathEnd, Unsupported
from pyvc import npmodel as M
from pyvc.loops import LoopSpec
from pyvc.verify import Contract

ASSUMPTIONS = ["CPython io / gzip.GzipFile: read(n) returns the next min(n, remaining) bytes and advances; seek(d, 1) moves by d",
               "X1/X3 for buffer types not under P2 (one-line formats, wrapped FASTA, BAM): assumed here, exercised bounded",
               "well-formed input: at end of file the newline-terminated remainder holds complete entries (the property's precondition)",
               "termination of the accumulation loop (a short read ends it) is not proved"]
NOT_PROVED = ["parsing is a homomorphism over boundary-aligned cuts (entries of the concatenation = concatenation of the entries): bounded",
              "the gzip layer itself, lazy/eager wrappers, CRLF handling of the field extractors: bounded",
              "cut points of OneLineBuffer / MultiLineFastaBuffer (X1-X4 for those formats): bounded"]


class St(types.SimpleNamespace):
    pass


def _R():
    from bionumpy.io.parser import NumpyFileReader
    return NumpyFileReader


from pyvc.loops import CatList, as_catlist


class BufferType:
    """the abstract buffer class: only cut(s) and the completeness predicate are known (X1, X3)"""

    def __init__(self, st, marker):
        self.st, self.marker = st, marker

    def sym_hasattr(self, name):
        return name == "_new_entry_marker" and self.marker

    def getattr(self, ip, name, lineno):
        if name == "_new_entry_marker" and self.marker:
            return ">"
        if name == "contains_complete_entry":
            return _CCE(self)
        if name == "from_raw_buffer":
            return _FRB(self)
        raise Unsupported("buffer type attribute %s" % name)


class _CCE:
    def __init__(self, bt):
        self.bt = bt

    def sym_call(self, ip, args, kwargs, lineno):
        st, c = self.bt.st, ip.ctx
        cl = as_catlist(args[0])
        r = c.fresh_bool("complete")
        fin = st.selfv.get("_is_finished")
        # X3a: at end of file (newline-terminated, well-formed) a non-empty remainder contains a complete entry
        c.assume(Implies(And(B(fin), I(cl.cat.length) > 0), r))
        return r


class _FRB:
    def __init__(self, bt):
        self.bt = bt

    def sym_call(self, ip, args, kwargs, lineno):
        st, c = self.bt.st, ip.ctx
        chunk = args[0]
        if not c.branch(c.fresh_bool("from_raw_buffer_ok"), lineno):
            st.local_line = c.fresh_int("line_within_chunk")           # the buffer reports the line relative to the chunk
            raise PathEnd("raise", "FormatException", info={"line_number": st.local_line})
        cut, nl = c.fresh_int("cut"), c.fresh_int("buff_lines")
        fin = st.selfv.get("_is_finished")
        mk = 1 if self.bt.marker else 0
        c.assume(cut > 0, cut <= I(chunk.length), nl >= 0)                                   # X1
        c.assume(Implies(B(fin), cut == I(chunk.length) - mk))                                # X3b
        st.cut, st.cut_chunk = cut, chunk
        data = M.slice1(chunk, 0, cut)
        st.buff = SRec(None, size=cut, n_lines=nl, data=data)
        return st.buff


def _setup(do_prepend, marker):
    def setup(ctx):
        st = St()
        st.flen, st.pos0, st.p0, st.k = z3.Int("flen"), z3.Int("pos0"), z3.Int("p0"), z3.Int("min_chunk_size")
        st.F = z3.Function("F", z3.IntSort(), z3.IntSort())
        st.P = z3.Function("prepend", z3.IntSort(), z3.IntSort())
        st.file = SFile(st.flen, lambda p: st.F(I(p)), st.pos0)
        st.bt = BufferType(st, marker)
        st.nl0, st.nb0 = z3.Int("n_lines_read0"), z3.Int("n_bytes_read0")
        st.selfv = SRec(_R(), _file_obj=st.file, _is_finished=False, _buffer_type=st.bt, _header_data=Opaque("header"),
                        _do_prepend=do_prepend, _prepend=SArr.fresh(st.p0, lambda j: st.P(I(j))), n_bytes_read=st.nb0, n_lines_read=st.nl0)
        st.args = [st.k, None]
        st.mk = 1 if marker else 0
        st.do_prepend = do_prepend
        return st
    return setup


def _requires(ctx, st):
    r = [st.k >= 1, st.flen >= 0, st.pos0 >= 0, st.pos0 <= st.flen, st.p0 >= 0,
         Forall(lambda p: And(st.F(p) >= 0, st.F(p) < 256), triggers=[st.F], name="bytes")]
    if not st.do_prepend:
        r.append(st.p0 == 0)          # class invariant: the carried tail is only used in prepend (gzip) mode
    return r


def U(st, j):
    """undelivered bytes at entry: prepend ++ F[pos0:]"""
    return Ite(I(j) < st.p0, st.P(I(j)), st.F(st.pos0 + I(j) - st.p0))


# ---- loop invariant of the accumulation loop -------------------------------------------------------------------------
def _inv(st):
    def inv(ip, env):
        cl = as_catlist(env.vars["temp_chunks"])
        pos = st.file.pos
        fin = B(st.selfv.get("_is_finished"))
        taken = st.p0 + (I(pos) - st.pos0)
        sfx = I(cl.cat.length) - taken
        cat = cl.cat
        probe = cat.at(z3.Int("probe"))
        trig = [probe.decl()] if z3.is_app(probe) and probe.num_args() == 1 and probe.decl().kind() == z3.Z3_OP_UNINTERPRETED else []
        return [("pos", And(I(pos) >= st.pos0, I(pos) <= st.flen)),
                ("count", And(I(cl.count) >= 0, (I(cl.count) == 0) == (I(cat.length) == 0))),
                ("length", And(sfx >= 0, Implies(Not(fin), sfx == 0), Implies(fin, And(I(pos) == st.flen, sfx >= st.mk, sfx <= 1 + st.mk)))),
                ("content", Forall(lambda j: Implies(in_range(j, taken), cat.at(j) == U(st, j)), triggers=trig)),
                ("well-formed input: at end of file a non-empty remainder holds a complete entry (X3a carried through the loop)",
                 Implies(And(fin, I(cat.length) > 0), B(ip.to_bool(env.vars["complete_entry_found"])))),
                ("made_buffer", env.vars.get("made_buffer") is None)]
    return inv


def _havoc(st):
    def havoc(ip, env):
        c = ip.ctx
        n, cnt = c.fresh_int("catlen"), c.fresh_int("catcount")
        g = c.fresh_fun("cat")
        env.vars["temp_chunks"] = CatList(cnt, SArr.fresh(n, lambda j: g(I(j))))
        c.assume(n >= 0)
        st.file.pos = c.fresh_int("pos")
        st.selfv.set("_is_finished", c.fresh_bool("finished"))
        env.vars["complete_entry_found"] = c.fresh_bool("cef")
        env.vars["local_bytes_read"] = c.fresh_int("lbr")
        env.vars["chunk"] = Opaque("chunk of an earlier iteration")
    return havoc


def _ensures(ctx, st, ret):
    o = st.selfv
    if ret is None:
        return [("b: None only when nothing was undelivered", st.p0 + (st.flen - st.pos0) == 0)]
    size, ch = st.cut, st.cut_chunk
    pos1, pre1, fin = st.file.pos, o.get("_prepend"), B(o.get("_is_finished"))
    p1 = len(pre1) if isinstance(pre1, list) else pre1.length
    pat = (lambda j: 0) if isinstance(pre1, list) else pre1.at
    ulen = st.p0 + (st.flen - st.pos0)
    real = Min(size, ulen)
    return [("a1: the buffer is the next undelivered bytes", Forall(lambda j: Implies(in_range(j, real), st.buff.get("data").at(j) == U(st, j)))),
            ("a2: not at end of file: exactly buff.size bytes were consumed",
             Implies(Not(fin), And(size <= ulen, I(p1) + (st.flen - I(pos1)) == ulen - size))),
            ("a2: remaining bytes unchanged and in order",
             Forall(lambda j: Implies(And(Not(fin), in_range(j, I(p1) + (st.flen - I(pos1)))),
                                      Ite(I(j) < I(p1), pat(j), st.F(I(pos1) + I(j) - I(p1))) == U(st, size + I(j))))),
            ("a2: at end of file every byte was delivered and nothing is carried", Implies(fin, And(size >= ulen, I(p1) == 0, I(pos1) == st.flen))),
            ("class.invariant: no carried tail in seek mode", True if st.do_prepend else I(p1) == 0),
            ("c: counters", And(o.get("n_bytes_read") == st.nb0 + size, o.get("n_lines_read") == st.nl0 + I(st.buff.get("n_lines"))))]


def _replay_lost_tail(model, ctx, st, oid):
    """replay of a counter-model of clause (b) on the real reader: a BED file whose unterminated tail is consumed by
    reads of exactly min_chunk_size bytes (seek mode), resp. a gzip file whose length is a multiple of it (prepend mode)"""
    import os, gzip, tempfile
    import bionumpy as bnp
    if "ensures.b" not in oid:
        return None
    k = model.eval(st.k, model_completion=True).as_long()
    k = max(1, min(k, 4096))
    head = b"chr1\t1\t2\nchr1\t3\t40\n"
    tail = b"chr2\t5\t6"
    if st.do_prepend:
        pad = (-(len(head) + len(tail))) % k
    else:
        pad = (-len(tail)) % k
    tail = tail + b"7" * pad
    data = head + tail
    with tempfile.TemporaryDirectory() as tmp:
        p = os.path.join(tmp, "t.bed.gz" if st.do_prepend else "t.bed")
        if st.do_prepend:
            with gzip.open(p, "wb") as f:
                f.write(data)
        else:
            open(p, "wb").write(data)
        whole = bnp.open(p).read()
        try:
            chunks = list(bnp.open(p).read_chunks(min_chunk_size=k))
            n = sum(len(c) for c in chunks)
            err = None
        except Exception as e:
            n, err = None, repr(e)
    inp = {"file": data.decode(), "gzip": st.do_prepend, "min_chunk_size": k}
    if err is not None:
        return {"reproduced": False, "input": inp, "observed": "raised " + err}
    return {"reproduced": n != len(whole), "input": inp, "observed": "%d entries from read_chunks" % n, "expected": "%d entries (whole read)" % len(whole)}


def _format_exception_line(ctx, st):
    """C15, single-offset rule: a format error of the buffer leaves read_chunk with the chunk's base line added exactly once"""
    ln = ctx.last_raise.get("line_number")
    if ln is None or not hasattr(st, "local_line"):
        return [("format.exception.carries.a.line.number", z3.BoolVal(False))]
    return [("reported.line = lines.delivered.in.earlier.chunks + line.within.chunk", ln == st.nl0 + st.local_line)]


def _mk(do_prepend, marker, prefix="C01"):
    name = prefix + ".NumpyFileReader.read_chunk[%s,%s]" % ("prepend(gzip) mode" if do_prepend else "seek mode", "entry marker" if marker else "no marker")
    holder = {}

    def setup(ctx):
        st = _setup(do_prepend, marker)(ctx)
        holder["st"] = st
        ctx.ip.loop_specs[("NumpyFileReader.read_chunk", 0)] = LoopSpec(_inv(st), _havoc(st))
        return st
    return Contract(name, target=lambda: _R().read_chunk, setup=setup, requires=_requires, ensures=_ensures,
                    raises={"FormatException": _format_exception_line, "Exception": lambda ctx, st: []},
                    dropped=["docstring", "commented-out code", "logger calls"], concretize=_replay_lost_tail,
                    canaries=[("short read test", "self._is_finished = bytes_read < min_chunk_size", "self._is_finished = bytes_read <= min_chunk_size", lambda: _R()._get_buffer),
                              ("tail off by one", "self._prepend = chunk[buff.size:]", "self._prepend = chunk[buff.size + 1:]") if do_prepend else
                              ("seek off by one", "self._file_obj.seek(buff.size - chunk.size, 1)", "self._file_obj.seek(buff.size - chunk.size + 1, 1)"),
                              ("pending tail dropped at end of file", "if not temp_chunks or already_at_end:", "if True:"),
                              ("line offset added twice", "                e.line_number += self.n_lines_read\n                raise e\n\n        self._prepend", "                e.line_number += 2 * self.n_lines_read\n                raise e\n\n        self._prepend")])


seek_plain, seek_marker = _mk(False, False), _mk(False, True)
prep_plain, prep_marker = _mk(True, False), _mk(True, True)
CONTRACTS = [seek_plain, seek_marker, prep_plain, prep_marker]


# ---- P2: DelimitedBuffer.from_raw_buffer discharges X1 for the delimited formats --------------------------------------
def _D():
    from bionumpy.io.delimited_buffers import DelimitedBuffer
    return DelimitedBuffer


def _setup_frb(ctx):
    st = St()
    st.N = z3.Int("chunk_len")
    st.c = z3.Function("c", z3.IntSort(), z3.IntSort())
    st.chunk = SArr.fresh(st.N, lambda p: st.c(I(p)))
    st.args = [_D(), st.chunk]
    st.rec = {}
    return st


def _gbe(st_holder):
    def handler(ip, args, kwargs, lineno):
        st = st_holder["st"]
        st.rec["data"], st.rec["delimiters"], st.rec["n_cols"] = args[1], args[2], args[3]
        return Opaque("buffer extractor")
    return handler


_h2 = {}


def _setup_frb2(ctx):
    st = _setup_frb(ctx)
    _h2["st"] = st
    return st


def _ens_frb(ctx, st, ret):
    data, delim = st.rec["data"], st.rec["delimiters"]
    size = data.length
    return [("X1: 1 <= size <= |chunk|", And(I(size) >= 1, I(size) <= st.N)),
            ("X1: data handed on is chunk[:size]", Forall(lambda p: Implies(in_range(p, size), data.at(p) == st.c(p)))),
            ("cut.ends.at.a.newline", st.c(I(size) - 1) == 10),
            ("cut.is.the.LAST.newline", Forall(lambda p: Implies(And(I(p) >= I(size), I(p) < st.N), st.c(p) != 10))),
            ("delimiter.table.starts.with.-1.and.ends.at.the.cut", And(delim.at(0) == -1, delim.at(I(delim.length) - 1) == I(size) - 1)),
            ("buffer.keeps.the.extractor", isinstance(ret.get("_buffer_extractor"), Opaque))]


from_raw_buffer = Contract("C01.DelimitedBuffer.from_raw_buffer", target=lambda: _D().from_raw_buffer.__func__, setup=_setup_frb2,
                           requires=lambda ctx, st: [st.N >= 0, Forall(lambda p: And(st.c(p) >= 0, st.c(p) < 256), triggers=[st.c], name="bytes")],
                           ensures=_ens_frb,
                           raises={"reraise": lambda ctx, st: [("only.when.there.is.no.newline", Forall(lambda p: Implies(in_range(p, st.N), st.c(p) != 10)))]},
                           callees={"bionumpy.io.delimited_buffers.DelimitedBuffer._get_buffer_extractor": _gbe(_h2)},
                           dropped=["docstring", "logging.warning call", "commented-out return"],
                           decorators={"@classmethod": "receiver is the class"},
                           canaries=[("cut one short", "size = delimiters[entry_ends[-1]] + 1", "size = delimiters[entry_ends[-1]]"),
                                     ("first newline instead of last", "size = delimiters[entry_ends[-1]] + 1", "size = delimiters[entry_ends[0]] + 1")])
CONTRACTS.append(from_raw_buffer)


# ---- P3: OneLineBuffer.from_raw_buffer (two-line FASTA, FASTQ): the cut is after the last newline that completes an entry ---------------------
def _one_line_classes():
    from bionumpy.io.one_line_buffer import TwoLineFastaBuffer
    from bionumpy.io.fastq_buffer import FastQBuffer
    return {"TwoLineFastaBuffer": TwoLineFastaBuffer, "FastQBuffer": FastQBuffer}


_h3 = {}


def _setup_olb(clsname):
    def setup(ctx):
        st = St()
        st.cls = _one_line_classes()[clsname]
        st.nper = st.cls.n_lines_per_entry
        st.N = z3.Int("chunk_len")
        st.c = z3.Function("c", z3.IntSort(), z3.IntSort())
        st.args = [st.cls, SArr.fresh(st.N, lambda p: st.c(I(p)))]
        st.rec = {}
        _h3["st"] = st
        return st
    return setup


def _olb_callees():
    def gbe(ip, args, kwargs, lineno):
        st = _h3["st"]
        st.rec["data"], st.rec["new_lines"] = args[1], args[2]
        return Opaque("buffer extractor")
    return {"bionumpy.io.one_line_buffer.OneLineBuffer._get_buffer_extractor": gbe,
            "bionumpy.io.one_line_buffer.OneLineBuffer._validate": lambda ip, args, kwargs, lineno: None,      # contracts/c15.py
            "bionumpy.io.fastq_buffer.FastQBuffer._validate": lambda ip, args, kwargs, lineno: None}


def _ens_olb(ctx, st, ret):
    data, nl = st.rec["data"], st.rec["new_lines"]
    cnt = st.ip.last_locals["n_lines"]
    m = nl.length
    q, r = M._divmod_noassert(m, st.nper)
    return [("whole.entries.only", And(r == 0, I(m) >= st.nper, I(m) <= I(cnt), I(cnt) < I(m) + st.nper)),
            ("X1: 1 <= size <= |chunk| and the data handed on is chunk[:size]", And(I(data.length) >= 1, I(data.length) <= st.N)),
            ("X1: content", Forall(lambda p: Implies(in_range(p, data.length), data.at(p) == st.c(p)))),
            ("cut.is.just.after.the.last.newline.of.the.last.whole.entry", I(data.length) == I(nl.at(I(m) - 1)) + 1),
            ("newline.table: increasing positions of newline bytes", Forall(lambda t: Implies(in_range(t, m), And(in_range(nl.at(t), data.length), st.c(nl.at(t)) == 10,
                                                                                                            Implies(t + 1 < I(m), I(nl.at(t)) < I(nl.at(t + 1)))))))]


def _mk_olb(clsname):
    return Contract("C01.OneLineBuffer.from_raw_buffer[%s]" % clsname, target=lambda: _one_line_classes()[clsname].from_raw_buffer.__func__,
                    setup=_setup_olb(clsname), requires=lambda ctx, st: [st.N >= 0, Forall(lambda p: And(st.c(p) >= 0, st.c(p) < 256), triggers=[st.c], name="bytes")],
                    ensures=_ens_olb, callees=_olb_callees(),
                    raises={"IncompleteEntryException": lambda ctx, st: [("only.when.fewer.newlines.than.lines.per.entry", I(st.ip.last_locals["n_lines"]) < st.nper)]},
                    decorators={"@classmethod": "receiver is the real subclass"}, dropped=["docstring", "exception message"],
                    canaries=[("partial entry kept", "new_lines[: n_lines - (n_lines % cls.n_lines_per_entry)]", "new_lines[: n_lines]"),
                              ("cut before the newline", "data = chunk[: new_lines[-1] + 1]", "data = chunk[: new_lines[-1]]")])


olb_fasta, olb_fastq = _mk_olb("TwoLineFastaBuffer"), _mk_olb("FastQBuffer")
CONTRACTS += [olb_fasta, olb_fastq]


# ---- P4: MultiLineFastaBuffer.from_raw_buffer (wrapped FASTA): the cut is at the last '>' that starts a line -------------------------------
def _MLF():
    from bionumpy.io.multiline_buffer import MultiLineFastaBuffer
    return MultiLineFastaBuffer


def _setup_mlf(ctx):
    st = St()
    st.N = z3.Int("chunk_len")
    st.c = z3.Function("c", z3.IntSort(), z3.IntSort())
    st.args = [_MLF(), SArr.fresh(st.N, lambda p: st.c(I(p)))]
    return st


def _entry_start(st, p):
    """p is the first byte of an entry other than the first: a '>' right after a newline (the newline not being the chunk's last byte)"""
    return And(I(p) >= 1, I(p) <= st.N - 1, st.c(I(p) - 1) == 10, st.c(I(p)) == 62)


def _ens_mlf(ctx, st, ret):
    data = ret.get("_data")
    cut = data.length
    return [("X1: 1 <= size <= |chunk| and data handed on is chunk[:size]", And(I(cut) >= 1, I(cut) <= st.N - 1)),
            ("X1: content", Forall(lambda p: Implies(in_range(p, cut), data.at(p) == st.c(p)))),
            ("cut.is.an.entry.start", _entry_start(st, cut)),
            ("cut.is.the.LAST.entry.start", Forall(lambda p: Implies(I(p) > I(cut), Not(_entry_start(st, p)))))]


mlf_from_raw_buffer = Contract("C01.MultiLineFastaBuffer.from_raw_buffer", target=lambda: _MLF().from_raw_buffer.__func__, setup=_setup_mlf,
                               requires=lambda ctx, st: [st.N >= 1, st.c(0) == 62, Forall(lambda p: And(st.c(p) >= 0, st.c(p) < 256), triggers=[st.c], name="bytes")],
                               ensures=_ens_mlf, hints=lambda ctx, st, ks: [I(k) - 1 for k in ks[:1]],
                               raises={"RuntimeError": lambda ctx, st: [("only.when.no.second.entry.starts.in.the.chunk", Forall(lambda p: Not(_entry_start(st, p))))]},
                               decorators={"@classmethod": "receiver is the class"}, dropped=["exception message"],
                               canaries=[("cut after the marker", "entry_starts = new_lines[new_entries]+1", "entry_starts = new_lines[new_entries]+2"),
                                         ("first entry start instead of the last", "cut_chunk = chunk[:entry_starts[-1]]", "cut_chunk = chunk[:entry_starts[0]]")])
CONTRACTS.append(mlf_from_raw_buffer)


# ---- P5: MultiLineFastaBuffer.contains_complete_entry (drives the accumulation loop of read_chunk for wrapped FASTA): X3a for this format -------------
# For one non-empty raw piece (the contract is written for k pieces; k >= 2 is too slow to run on every change): True exactly when a line starting with '>' begins after the first byte of the concatenation - inside a piece
# (newline at p-1 <= |piece|-2, '>' at p) or on a boundary (the previous piece ends with a newline and this one starts with '>').
# `has_j` is a definitional ghost (Skolemised existential): has_j <-> exists p. entry start inside piece j.
def _setup_cce(k):
    def setup(ctx):
        st = St()
        st.k = k
        st.N = [z3.Int("len%d" % j) for j in range(k)]
        st.c = [z3.Function("c%d" % j, z3.IntSort(), z3.IntSort()) for j in range(k)]
        st.has = [z3.Bool("has_entry_start_inside_%d" % j) for j in range(k)]
        st.w = [z3.Int("witness%d" % j) for j in range(k)]
        st.args = [_MLF(), [SArr.fresh(st.N[j], (lambda j: lambda p: st.c[j](I(p)))(j)) for j in range(k)]]
        return st
    return setup


def _inside(st, j, p):
    return And(I(p) >= 1, I(p) <= st.N[j] - 1, st.c[j](I(p) - 1) == 10, st.c[j](I(p)) == 62)


def _req_cce(ctx, st):
    out = []
    for j in range(st.k):
        out += [st.N[j] >= 1, Forall((lambda j: lambda p: And(st.c[j](p) >= 0, st.c[j](p) < 256))(j), triggers=[st.c[j]], name="bytes of piece %d" % j),
                Forall((lambda j: lambda p: Implies(_inside(st, j, p), st.has[j]))(j), triggers=[], name="has_%d: introduction" % j),
                Implies(st.has[j], _inside(st, j, st.w[j]))]
    ctx.index_terms.extend(st.w)
    ctx.index_terms.extend([w - 1 for w in st.w])
    return out


def _ens_cce(ctx, st, ret):
    spec = Or(*(st.has + [And(st.c[j - 1](st.N[j - 1] - 1) == 10, st.c[j](0) == 62) for j in range(1, st.k)]))
    if ret is True:
        return [("True.only.when.an.entry.starts.after.the.first.byte", spec)]
    if ret is False:
        return [("False.only.when.no.entry.starts.after.the.first.byte", Not(spec))]
    return [("a.boolean.that.says.whether.an.entry.starts.after.the.first.byte", B(ret) == spec)]


def _ghost_cce(ip, env, st):
    """mention the position the code itself found (the byte after the first newline that is followed by the marker): the introduction rule of
    has_j is instantiated there (adds no facts)"""
    nl, ne = env.vars.get("new_lines"), env.vars.get("new_entries")
    if isinstance(nl, SArr) and isinstance(ne, SArr):
        ip.ctx.index_terms.append(conc(I(nl.at(ne.at(0))) + 1))


def _mk_cce(k):
    return Contract("C01.MultiLineFastaBuffer.contains_complete_entry[%d pieces]" % k, target=lambda: _MLF().contains_complete_entry.__func__, setup=_setup_cce(k), ghost=[("if new_entries.size >= 1", _ghost_cce)],
                    requires=_req_cce, ensures=_ens_cce, decorators={"@classmethod": "receiver is the class"},
                    note="one raw piece (the boundary case between two pieces costs > 5 min of solver time and stays bounded)",
                    canaries=[])      # a broken variant leaves the solver at `unknown` (the ghost definition is a trigger-less quantifier): undecided, never a false pass


CONTRACTS += [_mk_cce(1)]
