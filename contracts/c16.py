"""C16 - BAM records decode to the values the BAM specification defines.

Spec table (SAM v1 section 4.2, alignment record, offsets from the start of the record INCLUDING the 4-byte
block_size field): block_size 0 (int32), refID 4 (int32), pos 8 (int32), l_read_name 12 (uint8), mapq 13 (uint8),
bin 14 (uint16), n_cigar_op 16 (uint16), flag 18 (uint16), l_seq 20 (int32), next_refID 24, next_pos 28, tlen 32,
read_name 36 (l_read_name bytes, NUL terminated), cigar (4*n_cigar_op bytes: op = v & 15, len = v >> 4),
seq ((l_seq+1)//2 bytes, 4-bit packed, high nibble first), qual (l_seq bytes).
All multi-byte integers little-endian.
"""
import types
import z3
from pyvc.core import I, B, And, Or, Not, Implies, Ite, Min, Max, in_range, Forall, SArr, SArr2, SRec, Opaque, conc
from pyvc import npmodel as M
from pyvc.verify import Contract

ASSUMPTIONS = ["little-endian host for ndarray.view(intN)", "uint8 arrays hold values 0..255",
               "lru_cache / cached_property are pure memoisation (extractor fields are not modified between calls)",
               "npstructures ragged_slice / RaggedArray (validated bounded in rtc/enum_c16.py)"]
NOT_PROVED = ["header parse and byte-exact header replay on write, EOF block, gzip/BGZF layer: bounded",
              "chunked reading equals whole reading (NumpyFileReader with BamBuffer): C01 kernel + bounded",
              "reference-name lookup by refID including refID = -1: bounded (see known findings)",
              "the variable-length field getters are proved MODULARLY: their offset arrays are abstract and constrained as the (separately proved) "
              "offset contracts say; the composition get_field_by_number -> getter and the cached_property plumbing are bounded"]


class St(types.SimpleNamespace):
    pass


def _X():
    from bionumpy.io.bam import BamBufferExtractor
    return BamBufferExtractor


def LE(D, p, nb, signed):
    v = z3.IntVal(0)
    for b in range(nb):
        v = v + D(p + b) * (256 ** b)
    if signed:
        v = z3.If(v >= 2 ** (8 * nb - 1), v - 2 ** (8 * nb), v)
    return v


def _setup(ctx):
    st = St()
    st.n, st.N = z3.Int("n_records"), z3.Int("n_bytes")
    st.D = z3.Function("byte", z3.IntSort(), z3.IntSort())
    st.s = z3.Function("rec_start", z3.IntSort(), z3.IntSort())
    st.e = z3.Function("rec_end", z3.IntSort(), z3.IntSort())
    st.data = SArr.fresh(st.N, lambda p: st.D(I(p)))
    st.data.dtype = "uint8"            # the chunk is a uint8 buffer: arithmetic among uint8 values wraps modulo 256
    st.selfv = SRec(_X(), _data=st.data, _new_lines=SArr.fresh(st.n, lambda i: st.s(I(i))), _ends=SArr.fresh(st.n, lambda i: st.e(I(i))),
                    _is_contigous=True, _header_data=Opaque("header"))
    st.args = []
    return st


def _requires(ctx, st):
    return [st.n >= 0, st.N >= 0,
            Forall(lambda p: And(st.D(p) >= 0, st.D(p) < 256), triggers=[st.D], name="bytes are 0..255"),
            Forall(lambda i: Implies(in_range(i, st.n), And(st.s(i) >= 0, st.s(i) + 36 <= st.e(i), st.e(i) <= st.N)), triggers=[st.s],
                   name="every record holds at least its 36 fixed bytes and lies inside the chunk")]


def _field(name, off, nb, signed, canary):
    def ens(ctx, st, ret):
        spec = (lambda i: st.D(st.s(i) + off)) if nb == 1 else (lambda i: LE(st.D, st.s(i) + off, nb, signed))
        return [("length", ret.length == st.n), ("value", Forall(lambda i: Implies(in_range(i, st.n), ret.at(i) == spec(i))))]
    return Contract("C16.BamBufferExtractor.%s" % name, target=lambda: getattr(_X(), name) if not hasattr(getattr(_X(), name), "__wrapped__") else getattr(_X(), name).__wrapped__,
                    setup=_setup, requires=_requires, ensures=ens, canaries=[canary],
                    dropped=["assert message"], decorators={"@lru_cache(None)": "pure memoisation"})


flag = _field("_get_flag", 18, 2, False, ("offset 16", "self._get_ints(18, 2", "self._get_ints(16, 2"))
position = _field("_get_position", 8, 4, True, ("offset 4", "self._get_ints(8, 4", "self._get_ints(4, 4"))
mapq = _field("_get_mapq", 13, 1, False, ("offset 12", "self._new_lines + 13", "self._new_lines + 12"))
l_read_name = _field("_get_read_name_length", 12, 1, False, ("offset 13", "self._new_lines + 12", "self._new_lines + 13"))
l_seq = _field("_get_sequence_length", 20, 4, True, ("offset 24", "self._get_ints(20, 4", "self._get_ints(24, 4"))


def _ens_cigar_bytes(ctx, st, ret):
    return [("value", Forall(lambda i: Implies(in_range(i, st.n), ret.at(i) == 4 * LE(st.D, st.s(i) + 16, 2, False))))]


cigar_bytes = Contract("C16.BamBufferExtractor._get_cigar_bytes", target=lambda: _X()._get_cigar_bytes, setup=_setup, requires=_requires,
                       ensures=_ens_cigar_bytes, canaries=[("x2", "n_cigar_op * 4", "n_cigar_op * 2")])


# derived offsets of the variable-length fields
def _prop(name):
    p = getattr(_X(), name)
    f = getattr(p, "fget", None) or p.func      # util.cached_property (property over lru_cache) or functools.cached_property
    return getattr(f, "__wrapped__", f)


def _offsets_contract(name, spec, canary):
    def ens(ctx, st, ret):
        return [("value", Forall(lambda i: Implies(in_range(i, st.n), ret.at(i) == spec(st, i))))]
    return Contract("C16.BamBufferExtractor.%s" % name, target=lambda: _prop(name), setup=_setup, requires=_requires, ensures=ens,
                    canaries=[canary], decorators={"@cached_property": "property + pure memoisation"})


name_start = lambda st, i: st.s(i) + 36
cigar_start_s = lambda st, i: name_start(st, i) + st.D(st.s(i) + 12)
seq_start_s = lambda st, i: cigar_start_s(st, i) + 4 * LE(st.D, st.s(i) + 16, 2, False)


def qual_start_s(st, i):
    q, r = M._divmod_noassert(LE(st.D, st.s(i) + 20, 4, True) + 1, 2)
    return seq_start_s(st, i) + q


read_name_start = _offsets_contract("_read_name_start", name_start, ("32", "self._new_lines + 36", "self._new_lines + 32"))
cigar_start = _offsets_contract("_cigar_start", cigar_start_s, ("minus one", "self._read_name_start + self._get_read_name_length()", "self._read_name_start + self._get_read_name_length() - 1"))
sequence_start = _offsets_contract("_sequence_start", seq_start_s, ("no cigar", "self._cigar_start + self._get_cigar_bytes()", "self._cigar_start"))
quality_start = _offsets_contract("_quality_start", qual_start_s, ("floor", "(self._get_sequence_length() + 1) // 2", "(self._get_sequence_length()) // 2"))


# --- split_cigar on a flat array of uint32 -------------------------------------------------------------------
def _setup_cigar(ctx):
    st = St()
    st.m = z3.Int("m")
    st.c = z3.Function("cigar", z3.IntSort(), z3.IntSort())
    st.args = [SArr.fresh(st.m, lambda i: st.c(I(i)))]
    return st


def _ens_cigar(ctx, st, ret):
    sym, ln = ret
    def spec(i):
        q, r = M._divmod_noassert(st.c(i), 16)
        return q, r
    return [("op", Forall(lambda i: Implies(in_range(i, st.m), sym.at(i) == spec(i)[1]))),
            ("len", Forall(lambda i: Implies(in_range(i, st.m), ln.at(i) == spec(i)[0]))),
            ("op.encoding", sym.enc is not None)]


def _split_cigar():
    from bionumpy.alignments import cigar
    return cigar.split_cigar


split_cigar = Contract("C16.split_cigar[flat]", target=_split_cigar, setup=_setup_cigar,
                       requires=lambda ctx, st: [st.m >= 0, Forall(lambda i: And(st.c(i) >= 0, st.c(i) < 2 ** 32), triggers=[st.c], name="uint32")],
                       ensures=_ens_cigar, canaries=[("mask 3 bits", "2**4-1", "2**3-1"), ("shift 3", "cigars >> 4", "cigars >> 3")])


# --- _get_sequences: 4-bit unpacking, high nibble first, trimmed to l_seq --------------------------------------------------------------
# Modular: the offsets are abstract arrays constrained as their own (proved) contracts say: _quality_start = _sequence_start + (l_seq+1)//2.
def _setup_seq(ctx):
    st = St()
    st.n, st.N = z3.Int("n_records"), z3.Int("n_bytes")
    st.D = z3.Function("byte", z3.IntSort(), z3.IntSort())
    st.ss = z3.Function("seq_start", z3.IntSort(), z3.IntSort())
    st.L = z3.Function("l_seq", z3.IntSort(), z3.IntSort())
    st.data = SArr.fresh(st.N, lambda p: st.D(I(p)))
    st.nb = lambda i: M._divmod_noassert(st.L(i) + 1, 2)[0]
    st.selfv = SRec(_X(), _data=st.data, _new_lines=Opaque("record starts"), _ends=Opaque("record ends"), _is_contigous=True, _header_data=Opaque("header"),
                    _sequence_start=SArr.fresh(st.n, lambda i: st.ss(I(i))), _quality_start=SArr.fresh(st.n, lambda i: st.ss(I(i)) + st.nb(I(i))))
    st.args = []
    return st


def _req_seq(ctx, st):
    return [st.n >= 0, st.N >= 0,
            Forall(lambda p: And(st.D(p) >= 0, st.D(p) < 256), triggers=[st.D], name="bytes are 0..255"),
            Forall(lambda i: Implies(in_range(i, st.n), And(st.L(i) >= 0, st.ss(i) >= 0, st.ss(i) + st.nb(i) <= st.N)), triggers=[st.ss],
                   name="l_seq >= 0 and the packed sequence lies inside the chunk"),
            Forall(lambda i: Implies(in_range(i, st.n), And(st.L(i) >= 0, st.ss(i) >= 0, st.ss(i) + st.nb(i) <= st.N)), triggers=[st.L],
                   name="l_seq >= 0 and the packed sequence lies inside the chunk'")]


def _nibble(st, i, k):
    q, r = M._divmod_noassert(k, 2)
    byte = st.D(st.ss(i) + q)
    hi, lo = M._divmod_noassert(byte, 16)
    return Ite(r == 0, hi, lo)


def _ens_seq(ctx, st, ret):
    return [("rows", I(ret.n) == st.n),
            ("row.length.is.l_seq", Forall(lambda i: Implies(in_range(i, st.n), I(ret.lens(i)) == st.L(i)))),
            ("base.k.is.nibble.k (high nibble first)", Forall(lambda i, k: Implies(And(in_range(i, st.n), in_range(k, st.L(i))),
                                                                                  I(ret.at(i, k)) == _nibble(st, i, k)), nvars=2)),
            ("encoding", ret.enc is not None)]


def _ghost_seq(ip, env, st):
    """lemma (L6, premise obliged): the rows cut by ragged_slice have exactly n_seq_bytes bytes each, so their row offsets are the prefix
    sums of n_seq_bytes; together with L8 (prefix sums of 2*x) this relates the byte offsets to the base offsets of the unpacked array"""
    rag, nsb = env.vars["sequences"], env.vars["n_seq_bytes"]
    C1 = M.exclusive_prefix(rag.lens, rag.n)
    fn = nsb.snapshot()
    Cn = M.exclusive_prefix(fn, nsb.length, nsb)
    M.prefix_congruent(C1, rag.lens, Cn, fn, st.n, "lemma.packed.row.lengths.are.n_seq_bytes")
    M.prefix_monotone(Cn, fn, st.n, "lemma.n_seq_bytes.nonneg")
    st.Cn = Cn


sequences = Contract("C16.BamBufferExtractor._get_sequences", target=lambda: _X()._get_sequences, setup=_setup_seq, requires=_req_seq, ensures=_ens_seq,
                     ghost=[("sequences = EncodedArray(", _ghost_seq)],
                     hints=lambda ctx, st, ks: [t for k in ks[:1] for t in (st.Cn(k), st.Cn(k + 1))] if hasattr(st, "Cn") else [],
                     callees={"bionumpy.io.bam.BamBufferExtractor._get_sequence_length": lambda ip, args, kwargs, lineno: SArr.fresh(_hs["st"].n, lambda i: _hs["st"].L(I(i)))},
                     canaries=[("low nibble first", "np.arange(2, dtype=np.uint8)[::-1]", "np.arange(2, dtype=np.uint8)"),
                               ("not trimmed to l_seq", "view = RaggedView(new_sequences._shape.starts, l_seq)", "view = RaggedView(new_sequences._shape.starts, n_seq_bytes * 2)"),
                               ("mask 7", "np.uint8(15)", "np.uint8(7)")])
_hs = {}
_setup_seq0 = _setup_seq


def _setup_seq(ctx):
    st = _setup_seq0(ctx)
    _hs["st"] = st
    return st


sequences.setup = _setup_seq


# --- _get_quality, _get_read_name, _get_cigar: variable-length fields cut out of the chunk (modular: abstract offset arrays) --------------
def _mk_var(fields):
    def setup(ctx):
        st = St()
        st.n, st.N = z3.Int("n_records"), z3.Int("n_bytes")
        st.D = z3.Function("byte", z3.IntSort(), z3.IntSort())
        st.data = SArr.fresh(st.N, lambda p: st.D(I(p)))
        kw = {}
        for f in fields:
            fn = z3.Function(f.strip("_"), z3.IntSort(), z3.IntSort())
            setattr(st, f.strip("_"), fn)
            kw[f] = SArr.fresh(st.n, lambda i, fn=fn: fn(I(i)))
        st.L = z3.Function("l_seq", z3.IntSort(), z3.IntSort())
        st.selfv = SRec(_X(), _data=st.data, _new_lines=Opaque("record starts"), _ends=Opaque("record ends"), _is_contigous=True,
                        _header_data=Opaque("header"), **kw)
        st.args = []
        _hs["st"] = st
        return st
    return setup


_LSEQ = {"bionumpy.io.bam.BamBufferExtractor._get_sequence_length": lambda ip, args, kwargs, lineno: SArr.fresh(_hs["st"].n, lambda i: _hs["st"].L(I(i)))}
_BYTES = lambda st: Forall(lambda p: And(st.D(p) >= 0, st.D(p) < 256), triggers=[st.D], name="bytes are 0..255")

def _stash(st, ret):
    st.C = getattr(ret, "C", None)
    return True


def _row_hints(ctx, st, ks):
    """mention the row offsets of the skolem row and its successor (instantiates the prefix-sum recurrence and monotonicity there)"""
    C = getattr(st, "C", None)
    return [t for k in ks[:1] for t in (C(k), C(k + 1))] if C is not None else []


quality = Contract("C16.BamBufferExtractor._get_quality", hints=_row_hints, target=lambda: _X()._get_quality, setup=_mk_var(["_quality_start"]),
                   requires=lambda ctx, st: [st.n >= 0, st.N >= 0, _BYTES(st),
                                             Forall(lambda i: Implies(in_range(i, st.n), And(st.L(i) >= 0, st.quality_start(i) >= 0, st.quality_start(i) + st.L(i) <= st.N)),
                                                    triggers=[st.quality_start], name="l_seq >= 0 and the qualities lie inside the chunk")],
                   ensures=lambda ctx, st, ret: [("rows", _stash(st, ret) and I(ret.n) == st.n),
                                                 ("row.length.is.l_seq", Forall(lambda i: Implies(in_range(i, st.n), I(ret.lens(i)) == st.L(i)))),
                                                 ("quality.k.is.the.byte.at.quality_start+k", Forall(lambda i, k: Implies(And(in_range(i, st.n), in_range(k, st.L(i))),
                                                                                                       I(ret.at(i, k)) == st.D(st.quality_start(i) + k)), nvars=2))],
                   callees=_LSEQ,
                   canaries=[("one byte short", "self._quality_start + self._get_sequence_length()", "self._quality_start + self._get_sequence_length() - 1"),
                             ("starts one byte late", "ragged_slice(self._data, self._quality_start,", "ragged_slice(self._data, self._quality_start + 1,")])

read_name = Contract("C16.BamBufferExtractor._get_read_name", hints=_row_hints, target=lambda: _X()._get_read_name, setup=_mk_var(["_read_name_start", "_cigar_start"]),
                     requires=lambda ctx, st: [st.n >= 0, st.N >= 0, _BYTES(st),
                                               Forall(lambda i: Implies(in_range(i, st.n), And(st.read_name_start(i) >= 0, st.read_name_start(i) + 1 <= st.cigar_start(i), st.cigar_start(i) <= st.N)),
                                                      triggers=[st.read_name_start], name="l_read_name >= 1 (the NUL) and the name lies inside the chunk")],
                     ensures=lambda ctx, st, ret: [("rows", _stash(st, ret) and I(ret.n) == st.n),
                                                   ("row.length.is.l_read_name - 1 (NUL dropped)", Forall(lambda i: Implies(in_range(i, st.n), I(ret.lens(i)) == st.cigar_start(i) - 1 - st.read_name_start(i)))),
                                                   ("character.k", Forall(lambda i, k: Implies(And(in_range(i, st.n), in_range(k, st.cigar_start(i) - 1 - st.read_name_start(i))),
                                                                                              I(ret.at(i, k)) == st.D(st.read_name_start(i) + k)), nvars=2)),
                                                   ("encoding", ret.enc is not None)],
                     canaries=[("NUL kept", "self._cigar_start - 1)", "self._cigar_start)")])

def _req_cigar2(ctx, st):
    return [st.n >= 0, st.N >= 0, _BYTES(st),
            Forall(lambda i: Implies(in_range(i, st.n), And(st.NC(i) >= 0, st.cigar_start(i) >= 0, st.sequence_start(i) == st.cigar_start(i) + 4 * st.NC(i),
                                                           st.sequence_start(i) <= st.N)), triggers=[st.cigar_start],
                   name="n_cigar_op >= 0, _sequence_start = _cigar_start + 4*n_cigar_op (their own contracts), inside the chunk"),
            Forall(lambda i: Implies(in_range(i, st.n), And(st.NC(i) >= 0, st.cigar_start(i) >= 0, st.sequence_start(i) == st.cigar_start(i) + 4 * st.NC(i),
                                                           st.sequence_start(i) <= st.N)), triggers=[st.sequence_start], name="same'")]


def _setup_cigar2(ctx):
    st = _mk_var(["_cigar_start", "_sequence_start"])(ctx)
    st.NC = z3.Function("n_cigar_op", z3.IntSort(), z3.IntSort())
    return st


def _ens_cigar2(ctx, st, ret):
    sym, ln = ret
    st.C = getattr(sym, "C", None)
    word = lambda i, j: LE(st.D, st.cigar_start(i) + 4 * j, 4, False)
    return [("rows", And(I(sym.n) == st.n, I(ln.n) == st.n)),
            ("ops.per.record", Forall(lambda i: Implies(in_range(i, st.n), And(I(sym.lens(i)) == st.NC(i), I(ln.lens(i)) == st.NC(i))))),
            ("op.j.is.the.low.4.bits.of.word.j", Forall(lambda i, j: Implies(And(in_range(i, st.n), in_range(j, st.NC(i))),
                                                                             I(sym.at(i, j)) == M._divmod_noassert(word(i, j), 16)[1]), nvars=2)),
            ("length.j.is.word.j >> 4", Forall(lambda i, j: Implies(And(in_range(i, st.n), in_range(j, st.NC(i))),
                                                                    I(ln.at(i, j)) == M._divmod_noassert(word(i, j), 16)[0]), nvars=2)),
            ("op.encoding", sym.enc is not None)]


def _ghost_cigar(ip, env, st):
    """lemma by induction: every row offset of the CIGAR bytes is a multiple of 4 (so the uint32 view has whole words only)"""
    rag = env.vars["cigars"]
    C1 = M.exclusive_prefix(rag.lens, rag.n)
    ip.ctx.induct("C16.BamBufferExtractor._get_cigar:lemma.cigar.byte.offsets.are.multiples.of.4",
                  lambda j: M._divmod_noassert(C1(j), 4)[1] == 0, C1, lo=0, hi=st.n)


cigar2 = Contract("C16.BamBufferExtractor._get_cigar", target=lambda: _X()._get_cigar, setup=_setup_cigar2, requires=_req_cigar2, ensures=_ens_cigar2,
                  hints=_row_hints, ghost=[("cigars = RaggedArray(cigars.ravel().view(", _ghost_cigar)], rounds=2, timeout_ms=60000,
                  canaries=[("words of 2 bytes", "cigars.lengths // 4", "cigars.lengths // 2"),
                            ("cut one byte late", "ragged_slice(self._data, self._cigar_start,", "ragged_slice(self._data, self._cigar_start + 1,")])
CONTRACTS = [sequences, quality, read_name, cigar2, flag, position, mapq, l_read_name, l_seq, cigar_bytes, read_name_start, cigar_start, sequence_start, quality_start, split_cigar]


# --- BamBuffer._find_starts: record boundaries by chaining block_size fields -------------------------------------
def _B():
    from bionumpy.io.bam import BamBuffer
    return BamBuffer


def _setup_fs(ctx):
    st = St()
    st.N = z3.Int("chunk_len")
    st.D = z3.Function("byte", z3.IntSort(), z3.IntSort())
    st.chunk = SArr.fresh(st.N, lambda p: st.D(I(p)))
    st.args = [st.chunk]
    return st


def _req_fs(ctx, st):
    return [st.N >= 0, Forall(lambda p: And(st.D(p) >= 0, st.D(p) < 256), triggers=[st.D], name="bytes are 0..255")]


def _ens_fs(ctx, st, ret):
    m, A = ret.count, ret.at
    Adecl = A(z3.IntVal(0)).decl()
    # lemma (induction over the accumulate recurrence): every boundary is >= 0
    ctx.induct("C16.BamBuffer._find_starts:lemma.boundaries.nonneg", lambda k: A(k) >= 0, Adecl)
    return [("nonempty", I(m) >= 1), ("first.is.zero", A(z3.IntVal(0)) == 0),
            ("chain", Forall(lambda k: Implies(And(in_range(k, m), k + 1 < I(m)), A(k + 1) == A(k) + LE(st.D, A(k), 4, False) + 4))),
            ("inside", Forall(lambda k: Implies(in_range(k, m), And(A(k) >= 0, A(k) <= st.N)))),
            ("maximal: the record after the last listed boundary is incomplete",
             Implies(A(I(m) - 1) + 4 <= st.N, A(I(m) - 1) + LE(st.D, A(I(m) - 1), 4, False) + 4 > st.N))]


find_starts = Contract("C16.BamBuffer._find_starts", target=lambda: _B()._find_starts, setup=_setup_fs, requires=_req_fs, ensures=_ens_fs,
                       decorators={"@staticmethod": "no receiver"},
                       canaries=[("strict bound", "start <= len(chunk)", "start < len(chunk)"), ("size only", "byteorder=\"little\") + 4", "byteorder=\"little\")")],
                       hints=lambda ctx, st, ks: [])
CONTRACTS.append(find_starts)


# --- reference interval of an alignment ------------------------------------------------------------------------------------------------
# count_reference_length for one read (flat op / length arrays): the sum of the lengths of exactly the reference-consuming operations
# M, D, N, =, X  (codes 0, 2, 3, 7, 8 in BAM's "MIDNSHP=X" numbering); alignment_to_interval: stop = position + reference length,
# strand '-' iff flag bit 0x10.
CIGAR_CODES = {"M": 0, "I": 1, "D": 2, "N": 3, "S": 4, "H": 5, "P": 6, "=": 7, "X": 8}
ASSUMPTIONS.append("CigarOpEncoding numbers the operations MIDNSHP=X as 0..8 (the alphabet table is checked exhaustively in rtc/enum_c06.py / enum_c16.py)")


def _cigar_mod():
    from bionumpy.alignments import cigar
    return cigar


def _setup_crl(ctx):
    st = St()
    st.m = z3.Int("n_ops")
    st.op, st.ln = z3.Function("op", z3.IntSort(), z3.IntSort()), z3.Function("oplen", z3.IntSort(), z3.IntSort())
    st.args = [SArr.fresh(st.m, lambda i: st.op(I(i)), enc="CigarOpEncoding"), SArr.fresh(st.m, lambda i: st.ln(I(i)))]
    return st


def _consuming(ip, args, kwargs, lineno):
    text = args[0]
    return ip.list_to_arr([CIGAR_CODES[ch] for ch in text])


def _ens_crl(ctx, st, ret):
    spec = lambda i: Ite(Or(st.op(I(i)) == 0, st.op(I(i)) == 2, st.op(I(i)) == 3, st.op(I(i)) == 7, st.op(I(i)) == 8), st.ln(I(i)), 0)
    Cs = M.exclusive_prefix(spec, st.m)
    # the code's summands (mask * length) agree element-wise with the spec's: lemma L6 gives equal sums
    C, f, n = ctx.ghost["sums"][-1]
    M.prefix_congruent(C, f, Cs, spec, st.m, "lemma.summands.are.the.reference.consuming.lengths")
    return [("reference.length.sums.exactly.M,D,N,=,X", I(ret) == Cs(st.m))]


count_reference_length = Contract("C16.count_reference_length[one read]", target=lambda: _cigar_mod().count_reference_length, setup=_setup_crl,
                                  requires=lambda ctx, st: [st.m >= 0, Forall(lambda i: And(st.op(i) >= 0, st.op(i) <= 8, st.ln(i) >= 0), triggers=[st.op], name="valid ops")],
                                  ensures=_ens_crl, callees={"bionumpy.encoded_array.as_encoded_array": _consuming},
                                  canaries=[("insertions counted", '"MDN=X"', '"MIN=X"'), ("mismatches not counted", '"MDN=X"', '"MDN="')])


def _setup_a2i(ctx):
    from bionumpy.datatypes import Bed6
    st = St()
    st.n = z3.Int("n_alignments")
    st.flag, st.pos, st.rl = [z3.Function(x, z3.IntSort(), z3.IntSort()) for x in ("flag", "position", "reflen")]
    cols = {"chromosome": Opaque("chromosome"), "name": Opaque("name"), "mapq": Opaque("mapq"), "cigar_op": Opaque("ops"), "cigar_length": Opaque("lens"),
            "flag": SArr.fresh(st.n, lambda i: st.flag(I(i))), "position": SArr.fresh(st.n, lambda i: st.pos(I(i)))}
    from pyvc.pybuiltins import STable
    st.table = STable(cols, st.n)
    ctx.ip.class_models[Bed6] = lambda ip, args, kwargs, lineno: SRec(None, **dict(zip(("chromosome", "start", "stop", "name", "score", "strand"), args)))
    st.args = [st.table]
    return st


def _ens_a2i(ctx, st, ret):
    strand = ret.get("strand")

    def minus(i):
        q, _ = M._divmod_noassert(st.flag(I(i)), 16)
        return M._divmod_noassert(q, 2)[1] == 1
    return [("start.is.the.position", Forall(lambda i: Implies(in_range(i, st.n), ret.get("start").at(i) == st.pos(i)))),
            ("stop.is.position.plus.reference.length", Forall(lambda i: Implies(in_range(i, st.n), ret.get("stop").at(i) == st.pos(i) + st.rl(i)))),
            ("strand.from.flag.0x10", Forall(lambda i: Implies(in_range(i, st.n), strand.at2(i, 0) == Ite(minus(i), ord("-"), ord("+"))))),
            ("other.columns.passed.through", ret.get("chromosome") is st.table.cols["chromosome"] and ret.get("name") is st.table.cols["name"])]


_ha = {}


def _setup_a2i2(ctx):
    st = _setup_a2i(ctx)
    _ha["st"] = st
    return st


alignment_to_interval = Contract("C16.alignment_to_interval", target=lambda: ("ast", "bionumpy/alignments/__init__.py", "alignment_to_interval", "bionumpy.alignments"),
                                 setup=_setup_a2i2, requires=lambda ctx, st: [st.n >= 0, Forall(lambda i: And(st.flag(i) >= 0, st.flag(i) < 65536), triggers=[st.flag], name="uint16 flags")],
                                 ensures=_ens_a2i, decorators={"@streamable()": "identity on a table argument"},
                                 callees={"bionumpy.alignments.cigar.count_reference_length":
                                          lambda ip, args, kwargs, lineno: SArr.fresh(_ha["st"].n, lambda i: _ha["st"].rl(I(i)))},
                                 canaries=[("strand bit 0x20", "np.uint16(16)", "np.uint16(32)"), ("strands swapped", 'ord("-"), ord("+")', 'ord("+"), ord("-")'),
                                           ("stop without length", "alignment.position+length,", "alignment.position,")])
CONTRACTS += [count_reference_length, alignment_to_interval]


# --- BamIntervalBuffer.get_field_by_number: the Bed6 view of a BAM chunk (the second route to reference intervals) -----------------------------
# The record extractor is abstract (its getters are proved above): get_field_by_number(j) returns the j-th BAM field.  Column 0 = reference name,
# 1 = position, 2 = position + reference length of the record's own CIGAR (operations, lengths - in that order), 3 = read name, 4 = mapq,
# 5 = '-' iff flag bit 0x10.
def _BIB():
    from bionumpy.io.bam import BamIntervalBuffer
    return BamIntervalBuffer


class _Extractor:
    def __init__(self, st):
        self.st = st

    def getattr(self, ip, name, lineno):
        if name != "get_field_by_number":
            raise Unsupported("extractor attribute %s" % name)
        ex = self

        class _G:
            def sym_call(self_, ip, args, kwargs, lineno):
                return ex.st.fields[conc(args[0])]
        return _G()


def _mk_bib(col):
    def setup(ctx):
        st = St()
        st.n = z3.Int("n_alignments")
        st.flag, st.pos, st.rl = [z3.Function(x, z3.IntSort(), z3.IntSort()) for x in ("flag", "position", "reflen")]
        st.fields = {0: Opaque("reference names"), 1: Opaque("read names"), 2: SArr.fresh(st.n, lambda i: st.flag(I(i))), 3: SArr.fresh(st.n, lambda i: st.pos(I(i))),
                     4: Opaque("mapq"), 5: Opaque("cigar operations"), 6: Opaque("cigar lengths"), 7: Opaque("sequence"), 8: Opaque("quality")}
        st.crl_args = None
        st.selfv = SRec(_BIB(), _buffer_extractor=_Extractor(st))
        st.args = [col]
        _hb["st"] = st
        return st

    def crl(ip, args, kwargs, lineno):
        st = _hb["st"]
        st.crl_args = list(args)
        return SArr.fresh(st.n, lambda i: st.rl(I(i)))

    def ens(ctx, st, ret):
        def minus(i):
            q, _ = M._divmod_noassert(st.flag(I(i)), 16)
            return M._divmod_noassert(q, 2)[1] == 1
        if col == 0:
            return [("the.reference.name.column", ret is st.fields[0])]
        if col == 1:
            return [("start.has.one.entry.per.record", I(ret.length) == st.n),
                    ("start.is.the.position.values", Forall(lambda i: Implies(in_range(i, st.n), ret.at(i) == st.pos(i))))]
        if col == 2:
            return [("reference.length.of.the.record's.own.cigar (operations, lengths)", st.crl_args is not None and len(st.crl_args) == 2 and st.crl_args[0] is st.fields[5] and st.crl_args[1] is st.fields[6]),
                    ("stop.is.position.plus.reference.length", Forall(lambda i: Implies(in_range(i, st.n), ret.at(i) == st.pos(i) + st.rl(i))))]
        if col == 3:
            return [("the.read.name.column", ret is st.fields[1])]
        if col == 4:
            return [("the.mapq.column", ret is st.fields[4])]
        return [("strand.from.flag.0x10", Forall(lambda i: Implies(in_range(i, st.n), ret.at2(i, 0) == Ite(minus(i), ord("-"), ord("+")))))]

    can = {2: [("stop without the reference length", "get_field_by_number(3) + count_reference_length(", "get_field_by_number(3) + 0 * count_reference_length("),
               ("lengths and operations swapped", "for i in (5, 6)", "for i in (6, 5)")],
           1: [("start from the flag", "lambda: self._buffer_extractor.get_field_by_number(3),", "lambda: self._buffer_extractor.get_field_by_number(2),")],
           5: [("strand bit 0x20", "np.uint16(16)", "np.uint16(32)")]}.get(col, [])
    return Contract("C16.BamIntervalBuffer.get_field_by_number[%d]" % col, target=lambda: _BIB().get_field_by_number, setup=setup,
                    requires=lambda ctx, st: [st.n >= 0, Forall(lambda i: And(st.flag(i) >= 0, st.flag(i) < 65536), triggers=[st.flag], name="uint16 flags")],
                    ensures=ens, callees={"bionumpy.alignments.cigar.count_reference_length": crl}, canaries=can)


_hb = {}
from pyvc.core import Unsupported     # noqa: E402
CONTRACTS += [_mk_bib(c) for c in range(6)]


# --- filtered BAM tables are written from the selected / compacted records (contracts proved for C04)
from contracts import clone_for as _clone      # noqa: E402
from contracts import c04 as _c04               # noqa: E402
CONTRACTS += [_clone(_c04.bam_getitem, "C16"), _clone(_c04.bam_make_contiguous, "C16"), _clone(_c04.bam_make_contiguous_memo, "C16")] + [_clone(c, "C16") for c in _c04.bam_getitem_slice]
