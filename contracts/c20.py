"""C20 - operations do not modify their inputs.

Frame conditions, proved with the executor's heap model: every array lives in a heap cell that views share; a write
through ANY alias replaces the cell's content function.  The frame obligation "argument unchanged" is: on every path
the heap cell of each argument still holds the content function it had on entry (no write reached it, through any view).
Callees that intentionally overwrite their argument (_decimal_str_to_float, _scientific_str_to_float) have the contract
`modifies(argument)`; the obligation then sits at their call sites: what is passed must be a fresh copy.
"""
import types
import z3
from pyvc.core import I, B, And, Or, Not, Implies, Ite, Min, Max, in_range, Forall, SArr, SRec, Buf, Opaque, conc
from pyvc import npmodel as M
from pyvc.pybuiltins import SRaggedObj, STable
from pyvc.verify import Contract

ASSUMPTIONS = ["aliasing table of the primitives: basic slicing / ravel of contiguous / EncodedArray(...) re-wrapping share memory; .copy(), boolean and "
               "fancy indexing, arithmetic, np.maximum.accumulate, np.where, np.concatenate allocate (spot-checked with np.shares_memory in rtc/enum_c20.py)",
               "as_encoded_array(x) returns x itself when x is already encoded (so it is an ALIAS, the conservative reading for frames)"]
NOT_PROVED = ["the rest of the public API registry (list-valued columns, genotype text, lazy tables, Translate, pileup out= uses): bounded snapshots "
              "(rtc/enum_c20.py)", "idempotence (f(x) == f(x)): bounded"]


class St(types.SimpleNamespace):
    pass


def _strops():
    from bionumpy.io import strops
    return strops


def _base():
    from bionumpy.encodings import BaseEncoding
    return BaseEncoding


def _ragged_input(ctx, st, name="text"):
    st.n = z3.Int("n_rows")
    st.L = z3.Function("rowlen", z3.IntSort(), z3.IntSort())
    st.x = z3.Function("x", z3.IntSort(), z3.IntSort())
    st.C = M.exclusive_prefix(lambda i: st.L(i), st.n)
    st.N = st.C(st.n)
    st.buf = Buf(st.N, lambda p: st.x(I(p)), name="argument:%s" % name)
    st.at0 = st.buf.at
    st.arg = SRaggedObj(None, st.n, lambda i: st.C(I(i)), lambda i: st.L(I(i)), _base(), st.N, contiguous=True, C=st.C, buf=st.buf)
    return st


def _frame(st):
    return [("frame: the argument's buffer was not written (through any alias)", st.buf.at is st.at0)]


PASS = lambda ip, args, kwargs, lineno: args[0]


# --- str_to_int: copy before the sign characters are overwritten -----------------------------------------------------------------
def _setup_sti(ctx):
    st = _ragged_input(ctx, St())
    st.args = [st.arg]
    return st


def _req_rows(ctx, st):
    return [st.n >= 1, Forall(lambda i: Implies(in_range(i, st.n), st.L(i) >= 1), triggers=[st.L], name="non-empty rows")]


str_to_int = Contract("C20.str_to_int[frame]", target=lambda: _strops().str_to_int, setup=_setup_sti, requires=_req_rows,
                      ensures=lambda ctx, st, ret: _frame(st), stop_after='number_text[is_positive, 0] = "0"',
                      callees={"bionumpy.encoded_array.as_encoded_array": PASS},
                      note="PREFIX: verified up to and including the second in-place write (`number_text[is_positive, 0] = \"0\"`); no write follows it",
                      canaries=[("copy removed", "as_encoded_array(number_text).copy()", "as_encoded_array(number_text)")])


# --- str_to_float: the in-place callees only ever receive fresh copies ---------------------------------------------------------------
def _modifies_arg(ip, args, kwargs, lineno):
    """contract of _decimal_str_to_float / _scientific_str_to_float: modifies(number_text); returns one float per row"""
    a = args[0]
    if getattr(a, "buf", None) is None:
        raise Exception("callee that writes its argument received a value without heap identity")
    h = ip.ctx.fresh_fun("overwritten_by_callee")
    a.buf.at = lambda p, h=h: h(I(p))
    u = ip.ctx.fresh_fun("floats")
    return SArr.fresh(a.n, lambda i: u(I(i)))


def _setup_stf(ctx):
    st = _ragged_input(ctx, St())
    st.args = [st.arg]
    return st


str_to_float = Contract("C20.str_to_float[frame]", target=lambda: _strops().str_to_float, setup=_setup_stf, requires=_req_rows,
                        ensures=lambda ctx, st, ret: _frame(st),
                        callees={"bionumpy.encoded_array.as_encoded_array": PASS,
                                 "bionumpy.io.strops._decimal_str_to_float": _modifies_arg,
                                 "bionumpy.io.strops._scientific_str_to_float": _modifies_arg},
                        canaries=[("decimal rows passed without the boolean-index copy", "_decimal_str_to_float(number_text[~scientific])", "_decimal_str_to_float(number_text)")])


# --- merge_intervals: in-place arithmetic only on arrays it allocated ------------------------------------------------------------------
def _setup_merge(ctx):
    st = St()
    st.n, st.d = z3.Int("n"), z3.Int("distance")
    st.s, st.e = z3.Function("start", z3.IntSort(), z3.IntSort()), z3.Function("stop", z3.IntSort(), z3.IntSort())
    st.bs, st.be = Buf(st.n, lambda i: st.s(I(i)), "argument:start"), Buf(st.n, lambda i: st.e(I(i)), "argument:stop")
    st.a0 = (st.bs.at, st.be.at)
    st.cols = {"chromosome": SArr.fresh(st.n, lambda i: 0), "start": SArr(st.bs), "stop": SArr(st.be)}
    st.table = STable(dict(st.cols), st.n)
    st.args = [st.table, st.d]
    return st


def _ens_merge(ctx, st, ret):
    return [("frame: start column not written", st.bs.at is st.a0[0]), ("frame: stop column not written", st.be.at is st.a0[1]),
            ("frame: the argument table still has its own columns", all(st.table.cols[k] is st.cols[k] for k in st.cols)),
            ("result is a new table", ret is not st.table)]


def _req_merge(ctx, st):
    return [st.n >= 1, st.d >= 0, Forall(lambda i: Implies(And(in_range(i, st.n), i + 1 < st.n), st.s(i) <= st.s(i + 1)), triggers=[st.s], name="sorted by start")]


merge = Contract("C20.merge_intervals[frame]", target=lambda: ("ast", "bionumpy/arithmetics/intervals.py", "merge_intervals", "bionumpy.arithmetics.intervals"),
                 setup=_setup_merge, requires=_req_merge, raises={"AssertionError": lambda ctx, st: []},
                 ensures=lambda ctx, st, loc: _ens_merge(ctx, st, loc["new_interval"]), stop_before="assert np.all(new_interval.start[1:] > new_interval.stop[:-1])",
                 note="verified up to the final sanity assert (whose lengths-agree side condition is a counting argument outside this engine); no write follows it",
                 decorators={"@chromosome_map()": "identity when called on a single table"},
                 canaries=[("running maximum dropped: stops aliases the input column", "stops = np.maximum.accumulate(intervals.stop)", "stops = intervals.stop")])

CONTRACTS = [str_to_int, str_to_float, merge]


# --- frame conditions of the interval helpers whose functional contracts are proved for C08: the same executions, but the obligation is that no write
# reaches a heap cell of the caller's table (start / stop / strand / chromosome columns) or of the sizes array - through any alias.
def _mk_frame_of(base, label):
    def setup(ctx):
        st = base.setup(ctx)
        cells = []
        for a in st.args:
            if isinstance(a, STable):
                cells += [("column %s" % k, v.buf) for k, v in a.cols.items() if isinstance(v, SArr)]
            elif isinstance(a, SArr):
                cells.append(("array argument", a.buf))
        st.frame_cells = [(nm, b, b.at) for nm, b in cells]
        return st

    def ens(ctx, st, ret):
        out = [("frame: %s of the argument not written (through any alias)" % nm, b.at is at0) for nm, b, at0 in st.frame_cells]
        res_cols = getattr(ret, "cols", {})
        for k in ("start", "stop"):
            if k in res_cols:
                own = [b for nm, b, at0 in st.frame_cells]
                out.append(("the result's %s column is a new array (a later write to the result cannot reach the argument)" % k, all(res_cols[k].buf is not b for b in own)))
        return out

    return Contract("C20.%s[frame]" % label, target=base.target, setup=setup, requires=base.requires, ensures=ens, callees=base.callees, canaries=[])


from contracts import c08 as _c08      # noqa: E402
CONTRACTS += [_mk_frame_of(_c08.extend_to_size, "extend_to_size"), _mk_frame_of(_c08.clip, "clip")]
