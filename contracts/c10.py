"""C10 - genome-wide operations respect chromosome boundaries.

Proved kernels: GlobalOffset (local <-> global coordinate conversion is a bijection on valid positions, with
bounds checks; an interval crossing a chromosome end can never be silently attributed), built by running the
real __init__ symbolically, so the offsets are literally np.insert(np.cumsum(sizes), 0, 0).
"""
import types
import z3
from pyvc.core import I, B, And, Or, Not, Implies, Ite, Min, Max, in_range, Forall, SArr, SRec, Opaque, conc
from pyvc.pybuiltins import STable
from pyvc.verify import Contract

ASSUMPTIONS = ["as_encoded_array(x, target_encoding=E) returns x unchanged when x is already encoded with E "
               "(chromosome columns handed to GlobalOffset are encoded with the genome's encoding; bounded: rtc/enum_c10.py)",
               "engine lemma: a table whose adjacent elements are ordered is monotone (induction on distance)",
               "bnpdataclass replace()/column access (C19, bounded)"]
NOT_PROVED = ["masks, pileups, merging, sorting in genome order over the concatenated coordinate space (sort-and-count; bounded)",
              "windows / extraction under intervals through GenomicIntervals, GenomicArray, GenomicSequence objects (bounded)",
              "chromosome-name encoding and ignored-chromosome filtering (bounded)"]


class St(types.SimpleNamespace):
    pass


def _GO():
    from bionumpy.genomic_data.global_offset import GlobalOffset
    return GlobalOffset


def _as_encoded_array(ip, args, kwargs, lineno):
    return args[0]


def _hints(ctx, st, ks):
    """terms that guide instantiation: the sorted offset table at the ghost chromosome index and its successor"""
    off = st.selfv.get("_offset")
    T = getattr(off, "_sorted_T", None)
    out = []
    for k in ks:
        if hasattr(st, "c0"):
            c = st.c0(k)
            out += [st.off(c), st.off(c + 1)]
            if T is not None:
                out += [T(c), T(c + 1)]
    if hasattr(st, "i0") and hasattr(st, "c0"):
        c = st.c0(st.i0)
        out += [st.off(c), st.off(c + 1)] + ([T(c), T(c + 1)] if T is not None else [])
    return out


CALLEES = {"bionumpy.encoded_array.as_encoded_array": _as_encoded_array}


def _string_encoding(ip, args, kwargs, lineno):
    return Opaque("StringEncoding(names)")


def _class_models():
    from bionumpy.encodings.string_encodings import StringEncoding
    return {StringEncoding: _string_encoding}


def _make_offset(ctx, st):
    """run the real GlobalOffset.__init__ on a symbolic chrom-sizes table with n chromosomes"""
    st.n = z3.Int("n_chrom")
    st.size = z3.Function("size", z3.IntSort(), z3.IntSort())
    sizes = SArr.fresh(st.n, lambda i: st.size(I(i)))
    table = STable({"name": Opaque("names"), "size": sizes}, st.n)
    ip = ctx.ip
    ip.class_models.update(_class_models())
    ctx.assume(st.n >= 1, Forall(lambda k: Implies(in_range(k, st.n), st.size(k) >= 0), triggers=[st.size], name="sizes >= 0"))
    st.selfv = ip.construct(_GO(), [table], {}, None)
    off = st.selfv.get("_offset")
    st.off = lambda k: off.at(k)
    return st


# ----------------------------------------------------------------------------------------------------------
# to_local_coordinates: global -> (chromosome, local) and it is the inverse of from_local on valid positions
def _setup_to_local(ctx):
    st = _make_offset(ctx, St())
    st.m = z3.Int("m")
    st.g = z3.Function("g", z3.IntSort(), z3.IntSort())
    st.c0 = z3.Function("c0", z3.IntSort(), z3.IntSort())      # ghost: the (chromosome, local) pair the global
    st.x0 = z3.Function("x0", z3.IntSort(), z3.IntSort())      # position was made from
    st.args = [SArr.fresh(st.m, lambda i: st.g(I(i)))]
    return st


def _req_to_local(ctx, st):
    return [st.m >= 0,
            Forall(lambda i: Implies(in_range(i, st.m), And(in_range(st.c0(i), st.n), st.x0(i) >= 0, st.x0(i) < st.size(st.c0(i)),
                                                            st.g(i) == st.off(st.c0(i)) + st.x0(i))),
                   triggers=[st.g], name="g(i) = offset(c0(i)) + x0(i) for a valid local position")]


def _ens_to_local(ctx, st, ret):
    chrom, local = ret
    return [("lengths", And(chrom.length == st.m, local.length == st.m)),
            ("inverse.chromosome", Forall(lambda i: Implies(in_range(i, st.m), chrom.at(i) == st.c0(i)))),
            ("inverse.local", Forall(lambda i: Implies(in_range(i, st.m), local.at(i) == st.x0(i)))),
            ("in.bounds", Forall(lambda i: Implies(in_range(i, st.m), And(in_range(chrom.at(i), st.n), I(local.at(i)) >= 0,
                                                                           I(local.at(i)) < st.size(chrom.at(i))))))]


to_local = Contract("C10.GlobalOffset.to_local_coordinates", target=lambda: _GO().to_local_coordinates,
                    setup=_setup_to_local, requires=_req_to_local, ensures=_ens_to_local, callees=CALLEES, hints=_hints,
                    dropped=["annotations"],
                    canaries=[("side left", 'side="right"', 'side="left"'), ("no -1", 'side="right") - 1', 'side="right")')])


# ----------------------------------------------------------------------------------------------------------
# from_local_coordinates: valid -> offset + local ; any out-of-range coordinate -> raises
def _setup_from_local(ctx):
    st = _make_offset(ctx, St())
    st.m = z3.Int("m")
    st.c0 = z3.Function("c0", z3.IntSort(), z3.IntSort())
    st.x0 = z3.Function("x0", z3.IntSort(), z3.IntSort())
    st.args = [SArr.fresh(st.m, lambda i: st.c0(I(i)), enc="genome"), SArr.fresh(st.m, lambda i: st.x0(I(i)))]
    return st


def _req_from_local_valid(ctx, st):
    return [st.m >= 0, Forall(lambda i: Implies(in_range(i, st.m), And(in_range(st.c0(i), st.n), st.x0(i) >= 0, st.x0(i) < st.size(st.c0(i)))),
                              triggers=[st.c0], name="valid local positions")]


def _ens_from_local(ctx, st, ret):
    return [("length", ret.length == st.m),
            ("value", Forall(lambda i: Implies(in_range(i, st.m), ret.at(i) == st.off(st.c0(i)) + st.x0(i)))),
            ("inside.chromosome", Forall(lambda i: Implies(in_range(i, st.m), And(I(ret.at(i)) >= st.off(st.c0(i)), I(ret.at(i)) < st.off(st.c0(i) + 1)))))]


def _concretize_offsets(model, ctx, st, oid):
    """replay a counter-model on the real GlobalOffset: the last base of every chromosome must map to offset + size - 1 (exact integers)"""
    mv = lambda t: model.eval(t, model_completion=True).as_long()
    n = min(max(mv(st.n), 1), 6)
    sizes = [max(mv(st.size(z3.IntVal(k))), 1) for k in range(n)] + [7]      # one more chromosome, so that the total of the model's sizes is itself an offset
    n += 1
    names = ["c%d" % k for k in range(n)]
    try:
        go = _GO()(dict(zip(names, sizes)))
        got = [int(x) for x in go.from_local_coordinates(names, [s - 1 for s in sizes])]
        exp, acc = [], 0
        for s_ in sizes:
            exp.append(acc + s_ - 1)
            acc += s_
        return {"reproduced": got != exp, "input": {"chromosome sizes": dict(zip(names, sizes))}, "global position of the last base of each chromosome": got, "expected": exp}
    except Exception as e:
        return {"reproduced": True, "input": {"chromosome sizes": dict(zip(names, sizes))}, "raised": repr(e)}


def mk_from_local(prefix):
    return Contract("%s.GlobalOffset.from_local_coordinates[valid]" % prefix, target=lambda: _GO().from_local_coordinates, concretize=_concretize_offsets,
                      setup=_setup_from_local, requires=_req_from_local_valid, ensures=_ens_from_local, callees=CALLEES, hints=_hints,
                      canaries=[("offset of size", "return self.get_offset(sequence_name) + local_offset", "return self.get_size(sequence_name) + local_offset"),
                                ("32-bit offsets (genomes above 4.29 Gbp wrap)", "np.insert(np.cumsum(self._sizes), 0, 0)", "np.insert(np.cumsum(self._sizes, dtype=np.uint32), 0, 0)",
                                 lambda: _GO().__init__)])


from_local = mk_from_local("C10")


def _req_from_local_invalid(ctx, st):
    st.i0 = z3.Int("i0")
    ctx.index_terms.append(st.i0)
    return [st.m >= 0, Forall(lambda i: Implies(in_range(i, st.m), in_range(st.c0(i), st.n)), triggers=[st.c0], name="chromosome codes valid"),
            in_range(st.i0, st.m), st.x0(st.i0) >= st.size(st.c0(st.i0))]


from_local_bad = Contract("C10.GlobalOffset.from_local_coordinates[out of range raises]", target=lambda: _GO().from_local_coordinates,
                          setup=_setup_from_local, requires=_req_from_local_invalid,
                          ensures=lambda ctx, st, ret: [("must.raise", z3.BoolVal(False))], raises={"Exception": lambda ctx, st: []},
                          callees=CALLEES, hints=_hints, canaries=[("> instead of >=", "local_offset >= self.get_size", "local_offset > self.get_size")])


# ----------------------------------------------------------------------------------------------------------
# start_ends_from_intervals
def _setup_se(ctx, do_clip):
    st = _make_offset(ctx, St())
    st.m = z3.Int("m")
    st.c0, st.s0, st.e0 = [z3.Function(x, z3.IntSort(), z3.IntSort()) for x in ("c0", "s0", "e0")]
    st.table = STable({"chromosome": SArr.fresh(st.m, lambda i: st.c0(I(i)), enc="genome"),
                       "start": SArr.fresh(st.m, lambda i: st.s0(I(i))), "stop": SArr.fresh(st.m, lambda i: st.e0(I(i)))}, st.m)
    st.args = [st.table, do_clip]
    return st


def _req_se(ctx, st):
    return [st.m >= 0, Forall(lambda i: Implies(in_range(i, st.m), And(in_range(st.c0(i), st.n), st.s0(i) >= 0, st.s0(i) < st.size(st.c0(i)),
                                                                       st.s0(i) <= st.e0(i), st.e0(i) <= st.size(st.c0(i)))),
                              triggers=[st.c0], name="intervals inside their chromosome")]


def _ens_se(ctx, st, ret):
    a, b = ret
    return [("lengths", And(a.length == st.m, b.length == st.m)),
            ("values", Forall(lambda i: Implies(in_range(i, st.m), And(a.at(i) == st.s0(i) + st.off(st.c0(i)), b.at(i) == st.e0(i) + st.off(st.c0(i)))))),
            ("stay.in.chromosome", Forall(lambda i: Implies(in_range(i, st.m), And(I(a.at(i)) >= st.off(st.c0(i)), I(a.at(i)) < st.off(st.c0(i) + 1),
                                                                                  I(b.at(i)) <= st.off(st.c0(i) + 1)))))]


start_ends = Contract("C10.GlobalOffset.start_ends_from_intervals[inside]", target=lambda: _GO().start_ends_from_intervals,
                      setup=lambda ctx: _setup_se(ctx, False), requires=_req_se, ensures=_ens_se, callees=CALLEES, hints=_hints,
                      canaries=[("stop uses start", "stop_offsets = stop + offsets", "stop_offsets = interval.start + offsets")])


def _req_se_clip(ctx, st):
    return [st.m >= 0, Forall(lambda i: Implies(in_range(i, st.m), And(in_range(st.c0(i), st.n), st.s0(i) >= 0, st.s0(i) < st.size(st.c0(i)),
                                                                       st.s0(i) <= st.e0(i))),
                              triggers=[st.c0], name="starts inside; stops may overhang")]


def _ens_se_clip(ctx, st, ret):
    a, b = ret
    return [("values", Forall(lambda i: Implies(in_range(i, st.m), And(a.at(i) == st.s0(i) + st.off(st.c0(i)),
                                                                        b.at(i) == Min(st.e0(i), st.size(st.c0(i))) + st.off(st.c0(i)))))),
            ("never.spills", Forall(lambda i: Implies(in_range(i, st.m), I(b.at(i)) <= st.off(st.c0(i) + 1))))]


start_ends_clip = Contract("C10.GlobalOffset.start_ends_from_intervals[do_clip]", target=lambda: _GO().start_ends_from_intervals,
                           setup=lambda ctx: _setup_se(ctx, True), requires=_req_se_clip, ensures=_ens_se_clip, callees=CALLEES, hints=_hints,
                           canaries=[("clip with maximum", "stop = np.minimum(stop, sizes)", "stop = np.maximum(stop, sizes)")])


def _req_se_bad(ctx, st):
    st.i0 = z3.Int("i0")
    ctx.index_terms.append(st.i0)
    return [st.m >= 0, Forall(lambda i: Implies(in_range(i, st.m), in_range(st.c0(i), st.n)), triggers=[st.c0], name="chromosome codes valid"),
            in_range(st.i0, st.m), st.s0(st.i0) >= st.size(st.c0(st.i0))]


start_ends_bad = Contract("C10.GlobalOffset.start_ends_from_intervals[start beyond chromosome raises]", target=lambda: _GO().start_ends_from_intervals,
                          setup=lambda ctx: _setup_se(ctx, True), requires=_req_se_bad,
                          ensures=lambda ctx, st, ret: [("must.raise", z3.BoolVal(False))], raises={"Exception": lambda ctx, st: []},
                          callees=CALLEES, hints=_hints, canaries=[("> instead of >=", "if np.any(interval.start >= sizes):", "if np.any(interval.start > sizes):")])


# ----------------------------------------------------------------------------------------------------------
# to_local_interval: an interval inside one chromosome maps back to it; one that crosses a boundary trips the assert
def _setup_tli(ctx):
    st = _make_offset(ctx, St())
    st.m = z3.Int("m")
    st.c0, st.s0, st.e0 = [z3.Function(x, z3.IntSort(), z3.IntSort()) for x in ("c0", "s0", "e0")]
    gs = lambda i: st.s0(I(i)) + st.off(st.c0(I(i)))
    ge = lambda i: st.e0(I(i)) + st.off(st.c0(I(i)))
    st.table = STable({"chromosome": SArr.fresh(st.m, lambda i: 0, enc="global"),
                       "start": SArr.fresh(st.m, gs), "stop": SArr.fresh(st.m, ge)}, st.m)
    st.args = [st.table]
    return st


def _ens_tli(ctx, st, ret):
    c, a, b = ret.cols["chromosome"], ret.cols["start"], ret.cols["stop"]
    return [("chromosome", Forall(lambda i: Implies(in_range(i, st.m), c.at(i) == st.c0(i)))),
            ("start", Forall(lambda i: Implies(in_range(i, st.m), a.at(i) == st.s0(i)))),
            ("stop", Forall(lambda i: Implies(in_range(i, st.m), b.at(i) == st.e0(i))))]


to_local_interval = Contract("C10.GlobalOffset.to_local_interval[inside]", target=lambda: _GO().to_local_interval,
                             setup=_setup_tli, requires=_req_se, ensures=_ens_tli, callees=CALLEES, hints=_hints,
                             canaries=[("stop not shifted", "stop = global_interval.stop - self._offset[chromosome_idxs]", "stop = global_interval.stop - self._offset[chromosome_idxs] + 1")])


def _req_tli_cross(ctx, st):
    st.i0 = z3.Int("i0")
    ctx.index_terms.append(st.i0)
    return [st.m >= 0, Forall(lambda i: Implies(in_range(i, st.m), And(in_range(st.c0(i), st.n), st.s0(i) >= 0, st.s0(i) < st.size(st.c0(i)), st.s0(i) <= st.e0(i))),
                              triggers=[st.c0], name="starts inside"),
            in_range(st.i0, st.m), st.e0(st.i0) > st.size(st.c0(st.i0))]


to_local_interval_cross = Contract("C10.GlobalOffset.to_local_interval[crossing a chromosome end is never silently attributed]",
                                   target=lambda: _GO().to_local_interval, setup=_setup_tli, requires=_req_tli_cross,
                                   ensures=lambda ctx, st, ret: [("must.raise", z3.BoolVal(False))],
                                   raises={"AssertionError": lambda ctx, st: []}, callees=CALLEES, hints=_hints,
                                   canaries=[("assert weakened", "assert np.all(stop <= self._sizes[chromosome_idxs])", "assert np.all(stop <= self._sizes[chromosome_idxs] + 1)")])

CONTRACTS = [to_local, from_local, from_local_bad, start_ends, start_ends_clip, start_ends_bad, to_local_interval, to_local_interval_cross]


# ----------------------------------------------------------------------------------------------------------
# windows around locations stay inside the location's own chromosome (get_windows -> GenomicIntervalsFull.clip), and clip/extend on intervals
from pyvc.pybuiltins import STable as _ST


def _GI():
    from bionumpy.genomic_data import genomic_intervals
    return genomic_intervals


def _table_model(names):
    return lambda ip, args, kwargs, lineno: _ST(dict(zip(names, args)), args[1].length)


def _setup_windows(kind):
    def setup(ctx):
        gi = _GI()
        st = _make_offset(ctx, St())
        st.m, st.par = z3.Int("m"), z3.Int("flank_or_window")
        st.c0, st.p0 = z3.Function("c0", z3.IntSort(), z3.IntSort()), z3.Function("pos", z3.IntSort(), z3.IntSort())
        ctx.ip.class_models[gi.Interval] = _table_model(("chromosome", "start", "stop"))
        ctx.ip.class_models[gi.StrandedInterval] = _table_model(("chromosome", "start", "stop", "strand"))
        locs = _ST({"chromosome": SArr.fresh(st.m, lambda i: st.c0(I(i)), enc="genome"), "position": SArr.fresh(st.m, lambda i: st.p0(I(i)))}, st.m)
        gctx = SRec(None, global_offset=st.selfv)
        st.offset_obj = st.selfv
        st.selfv = SRec(gi.GenomicLocationGlobal, _locations=locs, _genome_context=gctx, _is_stranded=False,
                        _field_dict={"chromosome": "chromosome", "position": "position"})
        st.args = []
        st.kwargs = {kind: st.par}
        st.kind = kind
        return st
    return setup


def _req_windows(ctx, st):
    return [st.m >= 0, st.par >= (0 if st.kind == "flank" else 1),
            Forall(lambda i: Implies(in_range(i, st.m), And(in_range(st.c0(i), st.n), st.p0(i) >= 0, st.p0(i) < st.size(st.c0(i)))), triggers=[st.c0], name="valid locations"),
            Forall(lambda i: Implies(in_range(i, st.m), And(in_range(st.c0(i), st.n), st.p0(i) >= 0, st.p0(i) < st.size(st.c0(i)))), triggers=[st.p0], name="valid locations'")]


def _ens_windows(ctx, st, ret):
    t = ret.get("_intervals")
    a, b, c = t.cols["start"], t.cols["stop"], t.cols["chromosome"]
    if st.kind == "flank":
        lo, hi = (lambda i: st.p0(i) - st.par), (lambda i: st.p0(i) + st.par + 1)
    else:
        q, r = ctx.divmod_(st.par, 2)
        lo, hi = (lambda i: st.p0(i) - q), (lambda i: st.p0(i) + q + r)
    return [("same.chromosome", Forall(lambda i: Implies(in_range(i, st.m), c.at(i) == st.c0(i)))),
            ("inside.the.location's.own.chromosome", Forall(lambda i: Implies(in_range(i, st.m), And(0 <= I(a.at(i)), I(a.at(i)) <= I(b.at(i)), I(b.at(i)) <= st.size(st.c0(i)))))),
            ("contains.the.location", Forall(lambda i: Implies(in_range(i, st.m), And(I(a.at(i)) <= st.p0(i), st.p0(i) < I(b.at(i)))))),
            ("is.the.requested.window.clipped", Forall(lambda i: Implies(in_range(i, st.m), And(a.at(i) == Max(0, lo(i)), b.at(i) == Min(st.size(st.c0(i)), hi(i)))))),
            ("context.kept", ret.get("_genome_context") is st.selfv.get("_genome_context"))]


def _hints_w(ctx, st, ks):
    return []


windows_flank = Contract("C10.GenomicLocationGlobal.get_windows[flank]", target=lambda: _GI().GenomicLocationGlobal.get_windows, setup=_setup_windows("flank"),
                         requires=_req_windows, ensures=_ens_windows, callees=CALLEES,
                         canaries=[("not clipped", "is_stranded=self.is_stranded()).clip()", "is_stranded=self.is_stranded())"),
                                   ("right flank one short", "r_flank = flank + 1", "r_flank = flank")])
windows_size = Contract("C10.GenomicLocationGlobal.get_windows[window_size]", target=lambda: _GI().GenomicLocationGlobal.get_windows, setup=_setup_windows("window_size"),
                        requires=_req_windows, ensures=_ens_windows, callees=CALLEES,
                        canaries=[("odd windows lose a base", "r_flank = window_size // 2 + window_size % 2", "r_flank = window_size // 2")])


def _setup_gi_clip(ctx):
    gi = _GI()
    st = _make_offset(ctx, St())
    st.m = z3.Int("m")
    st.c0, st.s0, st.e0 = [z3.Function(x, z3.IntSort(), z3.IntSort()) for x in ("c0", "s0", "e0")]
    iv = _ST({"chromosome": SArr.fresh(st.m, lambda i: st.c0(I(i)), enc="genome"), "start": SArr.fresh(st.m, lambda i: st.s0(I(i))),
              "stop": SArr.fresh(st.m, lambda i: st.e0(I(i)))}, st.m)
    st.selfv = SRec(gi.GenomicIntervalsFull, _intervals=iv, _genome_context=SRec(None, global_offset=st.selfv), _is_stranded=False)
    st.args = []
    return st


def _ens_gi_clip(ctx, st, ret):
    t = ret.get("_intervals")
    a, b = t.cols["start"], t.cols["stop"]
    return [("clipped.to.its.own.chromosome", Forall(lambda i: Implies(in_range(i, st.m), And(a.at(i) == Max(0, st.s0(i)), b.at(i) == Min(st.size(st.c0(i)), st.e0(i)))))),
            ("chromosome.kept", t.cols["chromosome"] is st.selfv.get("_intervals").cols["chromosome"])]


gi_clip = Contract("C10.GenomicIntervalsFull.clip", target=lambda: _GI().GenomicIntervalsFull.clip, setup=_setup_gi_clip,
                   requires=lambda ctx, st: [st.m >= 0, Forall(lambda i: Implies(in_range(i, st.m), in_range(st.c0(i), st.n)), triggers=[st.c0], name="valid chromosome codes")],
                   ensures=_ens_gi_clip, callees=CALLEES,
                   canaries=[("fast path that forgets negative starts", "        return replace(self,", "        return self if np.all(self.stop <= chrom_sizes) else replace(self,")])
CONTRACTS += [windows_flank, windows_size, gi_clip]


# ----------------------------------------------------------------------------------------------------------
# get_location: the location column handed to GenomicLocationGlobal.from_data, per row and strand-aware:
#   'start': start on '+' and stop-1 on '-';  'stop': stop-1 on '+' and start on '-';  'center': (start+stop)//2;  unstranded: the table itself.
# extended_to_size: extend_to_size (contract proved for C08) is called with the size OF EACH ROW'S OWN CHROMOSOME.
_hl = {}


def _capture_from_data(ip, args, kwargs, lineno):
    st = _hl["st"]
    st.passed = [a for a in args if isinstance(a, _ST)][0]          # (the classmethod receiver comes first)
    st.passed_kwargs = kwargs
    return Opaque("GenomicLocationGlobal")


def _setup_loc(where, stranded):
    def setup(ctx):
        gi = _GI()
        st = _make_offset(ctx, St())
        st.m = z3.Int("m")
        st.c0, st.s0, st.e0, st.sd = [z3.Function(x, z3.IntSort(), z3.IntSort()) for x in ("c0", "s0", "e0", "strand")]
        cols = {"chromosome": SArr.fresh(st.m, lambda i: st.c0(I(i)), enc="genome"), "start": SArr.fresh(st.m, lambda i: st.s0(I(i))),
                "stop": SArr.fresh(st.m, lambda i: st.e0(I(i)))}
        if stranded:
            cols["strand"] = SArr.fresh(st.m, lambda i: st.sd(I(i)), enc="strand/ascii")
        st.iv = _ST(cols, st.m)
        st.selfv = SRec(gi.GenomicIntervalsFull, _intervals=st.iv, _genome_context=SRec(None, global_offset=st.selfv), _is_stranded=stranded)
        st.args = [where]
        st.where, st.stranded = where, stranded
        _hl["st"] = st
        return st
    return setup


def _ens_loc(ctx, st, ret):
    t = st.passed
    if not st.stranded and st.where in ("start", "stop"):
        return [("unstranded: the interval table itself is handed on", t is st.iv), ("position column is start", st.passed_kwargs.get("position_name") == "start")]
    loc = t.cols["start"]
    plus = lambda i: st.sd(i) == ord("+")
    minus = lambda i: st.sd(i) == ord("-")
    if st.where == "center":
        from pyvc import npmodel as _M
        spec = lambda i: _M._divmod_noassert(st.s0(i) + st.e0(i), 2)[0]
        goal = Forall(lambda i: Implies(in_range(i, st.m), I(loc.at(i)) == spec(i)))
    elif st.where == "start":
        goal = Forall(lambda i: Implies(in_range(i, st.m), I(loc.at(i)) == Ite(plus(i), st.s0(i), st.e0(i) - 1)))
    else:
        goal = Forall(lambda i: Implies(in_range(i, st.m), I(loc.at(i)) == Ite(minus(i), st.s0(i), st.e0(i) - 1)))
    return [("location.of.row.i", goal), ("rows", I(loc.length) == st.m),
            ("other.columns.kept", t.cols["chromosome"] is st.iv.cols["chromosome"] and t.cols["stop"] is st.iv.cols["stop"]),
            ("position column is start", st.passed_kwargs.get("position_name") == "start"),
            ("frame: the interval table keeps its own start column", st.iv.cols["start"] is not loc)]


def _mk_loc(where, stranded, canary):
    return Contract("C10.GenomicIntervalsFull.get_location[%s,%s]" % (where, "stranded" if stranded else "unstranded"),
                    target=lambda: _GI().GenomicIntervalsFull.get_location, setup=_setup_loc(where, stranded), requires=lambda ctx, st: [st.m >= 0],
                    ensures=_ens_loc, callees=dict(CALLEES, **{"bionumpy.genomic_data.genomic_intervals.GenomicLocation.from_data": _capture_from_data}),
                    canaries=[canary])


loc_start = _mk_loc("start", True, ("strands swapped", "self.strand == ('+' if where == 'start' else '-')", "self.strand == ('-' if where == 'start' else '+')"))
loc_stop = _mk_loc("stop", True, ("stop not made inclusive", "self.stop - 1)", "self.stop)"))
loc_center = _mk_loc("center", True, ("center of the last base", "location = (self.start + self.stop) // 2", "location = (self.start + self.stop - 1) // 2 + 1"))
loc_unstranded = _mk_loc("start", False, ("unstranded treated as minus", "if not self.is_stranded():", "if self.is_stranded():"))


def _capture_extend(ip, args, kwargs, lineno):
    st = _hl["st"]
    st.ext_args = args
    return args[0]


def _setup_ext(ctx):
    st = _setup_loc("start", True)(ctx)
    st.L = z3.Int("fragment_length")
    st.args = [st.L]
    return st


gi_extended = Contract("C10.GenomicIntervalsFull.extended_to_size", target=lambda: _GI().GenomicIntervalsFull.extended_to_size, setup=_setup_ext,
                       requires=lambda ctx, st: [st.m >= 0, Forall(lambda i: Implies(in_range(i, st.m), in_range(st.c0(i), st.n)), triggers=[st.c0], name="valid chromosome codes")],
                       ensures=lambda ctx, st, ret: [("extend_to_size receives the table, the length and one size per row", st.ext_args[0] is st.iv and st.ext_args[1] is st.L),
                                                     ("size.of.row.i.is.the.size.of.its.own.chromosome", Forall(lambda i: Implies(in_range(i, st.m), I(st.ext_args[2].at(i)) == st.size(st.c0(i))))),
                                                     ("rows", I(st.ext_args[2].length) == st.m),
                                                     ("the result is built with the strandedness of the receiver", st.fi_kwargs.get("is_stranded") is True)],
                       callees=dict(CALLEES, **{"bionumpy.streams.decorators.streamable.__call__.<locals>.new_func": _capture_extend,
                                                 "bionumpy.arithmetics.intervals.extend_to_size": _capture_extend,
                                                 "bionumpy.genomic_data.genomic_intervals.GenomicIntervals.from_intervals": lambda ip, args, kwargs, lineno: _hl["st"].__setattr__("fi_kwargs", dict(kwargs)) or Opaque("GenomicIntervals")}),
                       canaries=[("strandedness not passed on", "self._genome_context, is_stranded=self.is_stranded())", "self._genome_context)"),
                                 ("genome size instead of chromosome sizes", "chrom_sizes = self._genome_context.global_offset.get_size(self._intervals.chromosome)", "chrom_sizes = self._genome_context.global_offset.get_size(self._intervals.chromosome[:1])")])
CONTRACTS += [loc_start, loc_stop, loc_center, loc_unstranded, gi_extended]


# ----------------------------------------------------------------------------------------------------------
# sorted(): the rows are permuted by ONE permutation that orders them by (chromosome code, start, stop); everything else about the object is kept -
# in particular the strandedness flag and the genome context (a sorted stranded table must stay stranded: the next strand-aware step depends on it).
def _setup_sorted(ctx):
    st = _setup_loc("start", True)(ctx)
    st.args = []
    return st


def _ens_sorted(ctx, st, ret):
    t = ret.get("_intervals")
    c2, s2, e2, d2 = t.cols["chromosome"], t.cols["start"], t.cols["stop"], t.cols["strand"]
    perm = getattr(s2, "gather_of", None)
    key = lambda col_c, col_s, col_e, i, j: Or(I(col_c.at(i)) < I(col_c.at(j)), And(I(col_c.at(i)) == I(col_c.at(j)), Or(I(col_s.at(i)) < I(col_s.at(j)),
                                                 And(I(col_s.at(i)) == I(col_s.at(j)), I(col_e.at(i)) <= I(col_e.at(j))))))
    return [("strandedness.kept", ret.get("_is_stranded") is True),
            ("genome.context.kept", ret.get("_genome_context") is st.selfv.get("_genome_context")),
            ("class.kept", ret._cls is _GI().GenomicIntervalsFull),
            ("rows", And(I(s2.length) == st.m, I(e2.length) == st.m, I(c2.length) == st.m, I(d2.length) == st.m)),
            ("ordered.by (chromosome, start, stop)", Forall(lambda i: Implies(And(in_range(i, st.m), i + 1 < st.m), key(c2, s2, e2, i, i + 1))))]


def _from_intervals_model(ip, args, kwargs, lineno):
    """GenomicIntervals.from_intervals(intervals, genome_context, is_stranded=False): wraps the table (contract of the constructor path)"""
    a = [x for x in args if not isinstance(x, type)]
    stranded = kwargs.get("is_stranded", a[2] if len(a) > 2 else False)
    return SRec(_GI().GenomicIntervalsFull, _intervals=a[0], _genome_context=a[1], _is_stranded=stranded)


gi_sorted = Contract("C10.GenomicIntervalsFull.sorted", target=lambda: _GI().GenomicIntervalsFull.sorted, setup=_setup_sorted, requires=lambda ctx, st: [st.m >= 0],
                     ensures=_ens_sorted, callees=dict(CALLEES, **{"bionumpy.genomic_data.genomic_intervals.GenomicIntervals.from_intervals": _from_intervals_model}),
                     canaries=[("strandedness dropped", "return self[args]", "return self.from_intervals(self._intervals[args], self._genome_context)"),
                               ("start is the primary key", "np.lexsort([self.stop, self.start, self.chromosome.raw()])", "np.lexsort([self.stop, self.chromosome.raw(), self.start])")])


# with_ignored_added must not touch the receiver: the ORIGINAL context keeps refusing the names that only the derived context ignores.
def _GCX():
    from bionumpy.genomic_data.genome_context import GenomeContext
    return GenomeContext


_hw = {}


def _setup_wia(ctx):
    st = St()
    st.ign0 = {101, 102}
    st.sizes0 = {1: 10, 2: 20, 101: 5, 102: 6}
    st.selfv = SRec(_GCX(), _ignored=st.ign0, _original_chrom_sizes=st.sizes0)
    st.args = [[103, 104]]
    _hw["st"] = st
    ctx.ip.class_models[_GCX()] = _capture_ctor          # the constructor call is the observation point
    return st


def _capture_ctor(ip, args, kwargs, lineno):
    st = _hw["st"]
    st.ctor_args = args
    return Opaque("GenomeContext")


def mk_with_ignored(prefix):
    return Contract("%s.GenomeContext.with_ignored_added[frame]" % prefix, target=lambda: _GCX().with_ignored_added, setup=_setup_wia, requires=lambda ctx, st: [],
                    ensures=lambda ctx, st, ret: [("receiver's ignored set untouched", st.ign0 == {101, 102} and st.selfv.get("_ignored") is st.ign0),
                                                  ("receiver's sizes untouched", st.sizes0 == {1: 10, 2: 20, 101: 5, 102: 6}),
                                                  ("derived context ignores old and new names", set(st.ctor_args[-1]) == {101, 102, 103, 104}),
                                                  ("derived context knows the new names with size 0", dict(st.ctor_args[-2]) == {1: 10, 2: 20, 101: 5, 102: 6, 103: 0, 104: 0})],
                    note="a concrete instance (sets and dicts of concrete keys): what is proved is the FRAME - no path of the function writes to the receiver",
                    canaries=[("receiver's set extended in place (attribute)", "return self.__class__(c, set(ignored) | set(self._ignored))", "self._ignored |= set(ignored); return self.__class__(c, self._ignored)"),
                              ("receiver's set extended in place (alias)", "return self.__class__(c, set(ignored) | set(self._ignored))", "a = self._ignored; a |= set(ignored); return self.__class__(c, a)"),
                              ("old ignored names forgotten", "set(ignored) | set(self._ignored)", "set(ignored)")])


gc_with_ignored = mk_with_ignored("C10")
CONTRACTS += [gi_sorted, gc_with_ignored]


# Geometry.extend_to_size / Geometry.clip (the geometry helpers): the same call protocol - sizes are those of each row's OWN chromosome, not offsets
# and not ends in concatenated coordinates.
def _GEO():
    from bionumpy.genomic_data.geometry import Geometry
    return Geometry


def _setup_geo(ctx):
    st = _setup_loc("start", True)(ctx)
    st.L = z3.Int("fragment_length")
    st.selfv = SRec(_GEO(), _genome_context=SRec(None, global_offset=st.selfv._f["_genome_context"].get("global_offset")))
    st.args = [st.iv, st.L]
    return st


geo_extend = Contract("C10.Geometry.extend_to_size", target=lambda: _GEO().extend_to_size, setup=_setup_geo,
                      requires=lambda ctx, st: [st.m >= 0, Forall(lambda i: Implies(in_range(i, st.m), in_range(st.c0(i), st.n)), triggers=[st.c0], name="valid chromosome codes")],
                      ensures=lambda ctx, st, ret: [("extend_to_size receives the table, the length and one size per row", st.ext_args[0] is st.iv and st.ext_args[1] is st.L),
                                                    ("size.of.row.i.is.the.size.of.its.own.chromosome", Forall(lambda i: Implies(in_range(i, st.m), I(st.ext_args[2].at(i)) == st.size(st.c0(i))))),
                                                    ("rows", I(st.ext_args[2].length) == st.m)],
                      callees=dict(CALLEES, **{"bionumpy.streams.decorators.streamable.__call__.<locals>.new_func": _capture_extend,
                                               "bionumpy.arithmetics.intervals.extend_to_size": _capture_extend}),
                      canaries=[("end in concatenated coordinates instead of the size", "chrom_sizes = self._genome_context.global_offset.get_size(intervals.chromosome)\n        return extend_to_size",
                                 "chrom_sizes = self._genome_context.global_offset.get_offset(intervals.chromosome)\n        return extend_to_size")])
CONTRACTS.append(geo_extend)
