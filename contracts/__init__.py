"""Sidecar contracts, one module per property.  `THOROUGH` is true when the check runs in the thorough tier (set by pyvc.runner before the
contract module is imported): contract files then add further instances of parametrised contracts (more (|A|, k) pairs, more buffers / chunks /
argument shapes / digit widths).  Every instance is a full-domain proof for its parameters; the baseline of obligation ids is frozen in the
thorough tier."""
import os


def thorough():
    return os.environ.get("VERIF_TIER") == "thorough"
