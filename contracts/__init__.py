"""Sidecar contracts, one module per property.  `THOROUGH` is true when the check runs in the thorough tier (set by pyvc.runner before the
contract module is imported): contract files then add further instances of parametrised contracts (more (|A|, k) pairs, more buffers / chunks /
argument shapes / digit widths).  Every instance is a full-domain proof for its parameters; the baseline of obligation ids is frozen in the
thorough tier."""
import os


def thorough():
    return os.environ.get("VERIF_TIER") == "thorough"


def clone_for(con, prefix, note=None):
    """the same contract (same target, setup, clauses, canaries) instantiated under another property: the function is one of the mechanisms that
    property depends on too, so a change that breaks it is reported there by a named obligation and not only by the bounded check"""
    import copy
    c = copy.copy(con)
    c.name = prefix + con.name[con.name.index("."):]
    c.note = (note or "shared with %s" % con.name.split(".")[0]) + ((" - " + con.note) if con.note else "")
    for attr in ("_base_discharged", "_base_all"):
        if hasattr(c, attr):
            delattr(c, attr)
    return c
