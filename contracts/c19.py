"""C19 - tables of entries behave like column-aligned NumPy records.

Almost all of this property lives outside /repo (npstructures' npdataclass: indexing, concatenation, iteration) or in run-time class
construction (dataclass metaprogramming, pandas) and is decided by the bounded check only.  One kernel is within reach:
  BNPDataClass.sort_by: the result's rows are the operand's rows under ONE permutation applied to every column alike (a sorting
  permutation of the key column), and the operand's columns are not modified - given np.argsort's (partial) contract and the assumed
  column-wise indexing of tables.
"""
import types
import z3
from pyvc.core import I, B, And, Or, Not, Implies, Ite, in_range, Forall, SArr, Buf, conc
from pyvc.pybuiltins import STable
from pyvc.verify import Contract

ASSUMPTIONS = ["table[index array] indexes every column with the same index array (npstructures npdataclass; bounded: rtc/enum_c19.py)",
               "np.argsort returns a sorting permutation (partial contract: the order among equal keys is not specified)"]
NOT_PROVED = ["indexing, masking, slicing, concatenation, iteration, replacement, add_fields, construction/conversion by declared type, "
              "row/dict/pandas round trips: bounded (rtc/enum_c19.py) - the code is npstructures' npdataclass and dataclass metaprogramming"]


class St(types.SimpleNamespace):
    pass


def _cls():
    from bionumpy.bnpdataclass.bnpdataclass import BNPDataClass
    return BNPDataClass


class _Table(STable):
    """a table whose attribute access by name also works through getattr(self, field_name)"""
    pass


def _setup(ctx):
    st = St()
    st.n = z3.Int("n_rows")
    st.key, st.other = z3.Function("key", z3.IntSort(), z3.IntSort()), z3.Function("other", z3.IntSort(), z3.IntSort())
    st.bk, st.bo = Buf(st.n, lambda i: st.key(I(i)), "argument:key column"), Buf(st.n, lambda i: st.other(I(i)), "argument:other column")
    st.a0 = (st.bk.at, st.bo.at)
    st.table = _Table({"k": SArr(st.bk), "v": SArr(st.bo)}, st.n)
    st.selfv = st.table
    st.args = ["k"]
    return st


def _ens(ctx, st, ret):
    k2, v2 = ret.cols["k"], ret.cols["v"]
    return [("rows", I(ret.n) == st.n),
            ("one.permutation.for.all.columns: row i of the result is one whole row of the operand",
             Forall(lambda i: Implies(in_range(i, st.n), And(in_range(st.perm(i), st.n), k2.at(i) == st.key(st.perm(i)), v2.at(i) == st.other(st.perm(i)))))),
            ("key.column.sorted", Forall(lambda i: Implies(And(in_range(i, st.n), I(i) + 1 < st.n), I(k2.at(i)) <= I(k2.at(I(i) + 1))))),
            ("every.operand.row.appears (the permutation is onto)", Forall(lambda j: Implies(in_range(j, st.n), And(in_range(st.inv(j), st.n), st.perm(st.inv(j)) == j)))),
            ("operand.not.modified", st.bk.at is st.a0[0] and st.bo.at is st.a0[1] and st.table.cols["k"].buf is st.bk)]


class _SortTable(_Table):
    def getitem(self, ip, idx, lineno):
        r = STable.getitem(self, ip, idx, lineno)
        if isinstance(idx, SArr) and hasattr(idx, "argsort_of"):
            _holder["st"].perm, _holder["st"].inv = idx.argsort_of[0], idx.argsort_of[1]
        return r


_holder = {}


def _setup2(ctx):
    st = _setup(ctx)
    st.table.__class__ = _SortTable
    _holder["st"] = st
    return st


sort_by = Contract("C19.BNPDataClass.sort_by", target=lambda: _cls().sort_by, setup=_setup2, requires=lambda ctx, st: [st.n >= 0], ensures=_ens,
                   canaries=[("sorted by the wrong column", "np.argsort(getattr(self, field_name))", "np.argsort(getattr(self, 'v'))")])

CONTRACTS = [sort_by]


# --- implicit conversion of a pre-encoded column to the declared alphabet encoding goes through as_encoded_array's re-target rule (contract proved
# for C06): a column whose codes do not all denote the same symbols in the declared alphabet must be refused, never silently relabelled.
from contracts.c06 import mk_retarget      # noqa: E402
CONTRACTS.append(mk_retarget("C19"))


# --- add_fields: the new table is constructed from every column of the operand plus the given columns; a given column wins over an operand
# column of the same name (the dataclass machinery - extend(), the generated __init__ - is abstract: the observation point is the constructor call).
from pyvc.core import SRec, Opaque      # noqa: E402


class _NewClass:
    """what cls.extend(...) returns: calling it records the keyword arguments"""

    def __init__(self, st):
        self.st = st

    def sym_call(self, ip, args, kwargs, lineno):
        self.st.ctor_args, self.st.ctor_kwargs = list(args), dict(kwargs)
        return Opaque("new table")


def _mk_add_fields(label, given):
    """operand columns a, b; `given`: names of the columns handed to add_fields"""
    def setup(ctx):
        st = St()
        st.cols = {"a": z3.Int("column_a"), "b": z3.Int("column_b")}
        st.new = {k: z3.Int("given_" + k) for k in given}
        st.selfv = SRec(_cls(), **st.cols)
        st.args = [dict(st.new)]
        st.ctor_kwargs = None
        return st

    def ens(ctx, st, ret):
        kw = st.ctor_kwargs
        out = [("the.new.table.is.constructed.once.with.keyword.columns", kw is not None and st.ctor_args == [])]
        if kw is None:
            return out
        want = dict(st.cols)
        want.update(st.new)
        out.append(("columns: those of the operand plus the given ones", sorted(kw) == sorted(want)))
        for k, v in want.items():
            got = kw.get(k)
            out.append(("column.%s.is.%s" % (k, "the.given.one" if k in st.new else "the.operand's"), got is not None and conc(I(got) == I(v)) is True))
        return out

    def concretize(model, ctx, st, oid):
        """a real two-column table and real given columns on the real add_fields (public API)"""
        import numpy as np
        from bionumpy.bnpdataclass import bnpdataclass

        @bnpdataclass
        class T:
            a: int
            b: int
        t = T([1, 2, 3], [4, 5, 6])
        new = {k: np.array([10 * (j + 1) + n for n in range(3)]) for j, k in enumerate(given)}
        try:
            r = t.add_fields(dict(new))
            got = {k: np.asarray(getattr(r, k)).tolist() for k in ("a", "b", "c") if hasattr(r, k)}
        except Exception as e:
            return {"reproduced": True, "input": {"table": "a=[1,2,3] b=[4,5,6]", "given": {k: v.tolist() for k, v in new.items()}}, "exception": repr(e)}
        want = {"a": [1, 2, 3], "b": [4, 5, 6]}
        want.update({k: v.tolist() for k, v in new.items()})
        return {"reproduced": got != want, "input": {"table": "a=[1,2,3] b=[4,5,6]", "given": {k: v.tolist() for k, v in new.items()}}, "columns": got, "expected": want}

    return Contract("C19.BNPDataClass.add_fields[%s]" % label, target=lambda: _cls().add_fields, setup=setup, requires=lambda ctx, st: [], ensures=ens,
                    concretize=concretize,
                    callees={"bionumpy.bnpdataclass.bnpdataclass._extract_field_types": lambda ip, args, kwargs, lineno: {k: Opaque("type") for k in args[0]},
                             "bionumpy.bnpdataclass.bnpdataclass.BNPDataClass.extend": lambda ip, args, kwargs, lineno: _NewClass(_af_holder["st"])},
                    dropped=["TypeError message"],
                    canaries=[("operand column wins over the given one", "{**vars(self), **fields}", "{**fields, **vars(self)}")] if set(given) & {"a", "b"} else
                             [("given columns dropped", "{**vars(self), **fields}", "{**vars(self)}")])


_af_holder = {}


def _wrap_setup(con):
    inner = con.setup

    def setup(ctx):
        st = inner(ctx)
        _af_holder["st"] = st
        return st
    con.setup = setup
    return con


for _label, _given in (("new column", ("c",)), ("existing name", ("b",)), ("existing and new", ("b", "c"))):
    CONTRACTS.append(_wrap_setup(_mk_add_fields(_label, _given)))
