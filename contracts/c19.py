"""C19 - tables of entries behave like column-aligned NumPy records.

Almost all of this property lives outside /repo (npstructures' npdataclass: indexing, concatenation, iteration) or in run-time class
construction (dataclass metaprogramming, pandas) and is decided by the bounded check only.  One kernel is within reach:
  BNPDataClass.sort_by: the result's rows are the operand's rows under ONE permutation applied to every column alike (a sorting
  permutation of the key column), and the operand's columns are not modified - given np.argsort's (partial) contract and the assumed
  column-wise indexing of tables.
"""
import types
import z3
from pyvc.core import I, B, And, Or, Not, Implies, Ite, in_range, Forall, SArr, Buf, conc
from pyvc.pybuiltins import STable
from pyvc.verify import Contract

ASSUMPTIONS = ["table[index array] indexes every column with the same index array (npstructures npdataclass; bounded: rtc/enum_c19.py)",
               "np.argsort returns a sorting permutation (partial contract: the order among equal keys is not specified)"]
NOT_PROVED = ["indexing, masking, slicing, concatenation, iteration, replacement, add_fields, construction/conversion by declared type, "
              "row/dict/pandas round trips: bounded (rtc/enum_c19.py) - the code is npstructures' npdataclass and dataclass metaprogramming"]


class St(types.SimpleNamespace):
    pass


def _cls():
    from bionumpy.bnpdataclass.bnpdataclass import BNPDataClass
    return BNPDataClass


class _Table(STable):
    """a table whose attribute access by name also works through getattr(self, field_name)"""
    pass


def _setup(ctx):
    st = St()
    st.n = z3.Int("n_rows")
    st.key, st.other = z3.Function("key", z3.IntSort(), z3.IntSort()), z3.Function("other", z3.IntSort(), z3.IntSort())
    st.bk, st.bo = Buf(st.n, lambda i: st.key(I(i)), "argument:key column"), Buf(st.n, lambda i: st.other(I(i)), "argument:other column")
    st.a0 = (st.bk.at, st.bo.at)
    st.table = _Table({"k": SArr(st.bk), "v": SArr(st.bo)}, st.n)
    st.selfv = st.table
    st.args = ["k"]
    return st


def _ens(ctx, st, ret):
    k2, v2 = ret.cols["k"], ret.cols["v"]
    return [("rows", I(ret.n) == st.n),
            ("one.permutation.for.all.columns: row i of the result is one whole row of the operand",
             Forall(lambda i: Implies(in_range(i, st.n), And(in_range(st.perm(i), st.n), k2.at(i) == st.key(st.perm(i)), v2.at(i) == st.other(st.perm(i)))))),
            ("key.column.sorted", Forall(lambda i: Implies(And(in_range(i, st.n), I(i) + 1 < st.n), I(k2.at(i)) <= I(k2.at(I(i) + 1))))),
            ("every.operand.row.appears (the permutation is onto)", Forall(lambda j: Implies(in_range(j, st.n), And(in_range(st.inv(j), st.n), st.perm(st.inv(j)) == j)))),
            ("operand.not.modified", st.bk.at is st.a0[0] and st.bo.at is st.a0[1] and st.table.cols["k"].buf is st.bk)]


class _SortTable(_Table):
    def getitem(self, ip, idx, lineno):
        r = STable.getitem(self, ip, idx, lineno)
        if isinstance(idx, SArr) and hasattr(idx, "argsort_of"):
            _holder["st"].perm, _holder["st"].inv = idx.argsort_of[0], idx.argsort_of[1]
        return r


_holder = {}


def _setup2(ctx):
    st = _setup(ctx)
    st.table.__class__ = _SortTable
    _holder["st"] = st
    return st


sort_by = Contract("C19.BNPDataClass.sort_by", target=lambda: _cls().sort_by, setup=_setup2, requires=lambda ctx, st: [st.n >= 0], ensures=_ens,
                   canaries=[("sorted by the wrong column", "np.argsort(getattr(self, field_name))", "np.argsort(getattr(self, 'v'))")])

CONTRACTS = [sort_by]


# --- implicit conversion of a pre-encoded column to the declared alphabet encoding goes through as_encoded_array's re-target rule (contract proved
# for C06): a column whose codes do not all denote the same symbols in the declared alphabet must be refused, never silently relabelled.
from contracts.c06 import mk_retarget      # noqa: E402
CONTRACTS.append(mk_retarget("C19"))
