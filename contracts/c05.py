"""C05 - lazy and eager reading are observationally equivalent.

Proved kernel: the bookkeeping of the lazy table's three stores (raw buffer behind the item getter, cache of parsed fields
`_computed_values`, overlay of user-set fields `_set_values`) in the methods of the class that `create_lazy_class` builds for a real
entry type (Interval), as finite-map verification conditions over the entry type's fields, for every configuration of which
fields are set / cached:
  __replace__   : the new table's overlay is the old overlay updated with the replaced fields; it is a NEW dict - the old table's overlay
                  (identity and content) is untouched; the buffer is shared; nothing is cached in the new table;
  __setattr__   : assigning a field stores it in the overlay and drops a stale cache entry; nothing else changes;
  __getitem__   : the index is applied to the buffer, to every cached field and to every user-set field alike;
  __getattr__   : a user-set field wins over the buffer; otherwise the field is parsed once and cached.
The abstraction alpha(t)(f) = overlay[f] if set, else cache[f] if cached, else parse(buffer, f) commutes with these operations.
"""
import types
import z3
from pyvc.core import I, B, And, Or, Not, Implies, Ite, in_range, Forall, SArr, SRec, Opaque, conc
from pyvc.verify import Contract

ASSUMPTIONS = ["the item getter is an abstract object: getter(field) parses that field of the buffer, getter[idx] selects rows (C04 kernels cover the extractor)",
               "field values are arrays; value[idx] is NumPy/npstructures indexing"]
NOT_PROVED = ["np.concatenate of lazy tables (__array_function__): KNOWN FINDING - it merges overlays and caches over the first operand's keys only",
              "get_buffer's choice between raw pass-through and re-join, tolist/str/iter through get_data_object, the eager side, and the equivalence "
              "of whole operation programs: bounded (rtc/enum_c05.py)"]

FIELDS = ("chromosome", "start", "stop")


class St(types.SimpleNamespace):
    pass


def _lazy_cls():
    from bionumpy.bnpdataclass.lazybnpdataclass import create_lazy_class
    from bionumpy.datatypes import Interval
    global _CLS
    try:
        return _CLS
    except NameError:
        _CLS = create_lazy_class(Interval)
        return _CLS


class _Getter:
    """abstract ItemGetter: parse(field) is an uninterpreted column; indexing yields another getter"""

    def __init__(self, st, tag="g"):
        self.st, self.tag, self.calls = st, tag, []

    def sym_call(self, ip, args, kwargs, lineno):
        self.calls.append(args[0])
        return ("parsed", self.tag, args[0])

    def getitem(self, ip, idx, lineno):
        return _Getter(self.st, self.tag + "[idx]")


class _Val:
    """a column value: an opaque array; value[idx] is 'value indexed by idx'"""

    def __init__(self, name):
        self.name = name

    def getitem(self, ip, idx, lineno):
        return ("indexed", self.name)


def _obj(st, set_keys, comp_keys):
    st.set0 = {k: _Val("set:" + k) for k in set_keys}
    st.comp0 = {k: _Val("cached:" + k) for k in comp_keys}
    st.set_dict, st.comp_dict = dict(st.set0), dict(st.comp0)
    st.getter = _Getter(st)
    return SRec(_lazy_cls(), _itemgetter=st.getter, _set_values=st.set_dict, _computed_values=st.comp_dict, _computed=False, _data=None, _header=None)


CONFIGS = [((), ()), (("start",), ()), (("start",), ("stop",)), (("start", "stop"), ("chromosome",)), ((), ("start", "chromosome"))]


def _same_store(d, d0):
    return set(d) == set(d0) and all(d[k] is d0[k] for k in d0)


# ---- __replace__ ----------------------------------------------------------------------------------------------------------------------
def _mk_replace(cfg, repl):
    def setup(ctx):
        st = St()
        st.selfv = _obj(st, *cfg)
        st.new = {k: _Val("new:" + k) for k in repl}
        st.args = []
        st.kwargs = dict(st.new)
        return st

    def ens(ctx, st, ret):
        exp = dict(st.set0)
        exp.update(st.new)
        nd = ret.get("_set_values")
        return [("new.overlay = old.overlay updated with the replaced fields", _same_store(nd, exp)),
                ("new.overlay.is.a.new.dict", nd is not st.set_dict),
                ("old.overlay.untouched", st.selfv.get("_set_values") is st.set_dict and _same_store(st.set_dict, st.set0)),
                ("old.cache.untouched", st.selfv.get("_computed_values") is st.comp_dict and _same_store(st.comp_dict, st.comp0)),
                ("buffer.shared", ret.get("_itemgetter") is st.getter),
                ("nothing.cached.in.the.new.table", len(ret.get("_computed_values")) == 0 and ret.get("_computed_values") is not st.comp_dict),
                ("same.class", ret._cls is _lazy_cls())]
    return Contract("C05.lazy.__replace__[set=%s,cached=%s,replace=%s]" % (",".join(cfg[0]) or "-", ",".join(cfg[1]) or "-", ",".join(repl)),
                    target=lambda: _lazy_cls().__replace__, setup=setup, ensures=ens,
                    canaries=[("overlay shared with the old table", "new_dict = {key: value for key, value in self._set_values.items()}", "new_dict = self._set_values or {}")] if cfg[0] else [])


# ---- __setattr__ ------------------------------------------------------------------------------------------------------------------------
def _mk_setattr(cfg, key):
    def setup(ctx):
        st = St()
        st.selfv = _obj(st, *cfg)
        st.selfv.set("_computed", True)                  # a table was materialised earlier (tolist / iteration / concatenate)
        st.selfv.set("_data", _Val("materialised table"))
        st.v = _Val("assigned:" + key)
        st.args = [key, st.v]
        return st

    def ens(ctx, st, ret):
        exp = dict(st.set0)
        exp[key] = st.v
        expc = {k: v for k, v in st.comp0.items() if k != key}
        return [("overlay.gets.the.value", _same_store(st.selfv.get("_set_values"), exp)),
                ("stale.cache.entry.dropped, other cache entries kept", _same_store(st.selfv.get("_computed_values"), expc)),
                ("buffer.untouched", st.selfv.get("_itemgetter") is st.getter),
                ("the.table.materialised.earlier.is.invalidated", st.selfv.get("_computed") is False)]
    return Contract("C05.lazy.__setattr__[set=%s,cached=%s,assign=%s]" % (",".join(cfg[0]) or "-", ",".join(cfg[1]) or "-", key),
                    target=lambda: _lazy_cls().__setattr__, setup=setup, ensures=ens,
                    canaries=([("stale cache kept", "                del self._computed_values[key]", "                pass")] if key in cfg[1] else []) +
                             [("materialised table kept after an assignment", "            self._computed = False", "            pass")])


# ---- __getitem__ ------------------------------------------------------------------------------------------------------------------------
def _mk_getitem(cfg):
    def setup(ctx):
        st = St()
        st.selfv = _obj(st, *cfg)
        st.idx = SArr.fresh(z3.Int("m"), lambda j: z3.Function("idx", z3.IntSort(), z3.IntSort())(I(j)))
        st.args = [st.idx]
        return st

    def ens(ctx, st, ret):
        nd, nc = ret.get("_set_values"), ret.get("_computed_values")
        return [("index.applied.to.every.user-set.field", set(nd) == set(st.set0) and all(nd[k] == ("indexed", "set:" + k) for k in st.set0)),
                ("index.applied.to.every.cached.field", set(nc) == set(st.comp0) and all(nc[k] == ("indexed", "cached:" + k) for k in st.comp0)),
                ("index.applied.to.the.buffer", isinstance(ret.get("_itemgetter"), _Getter) and ret.get("_itemgetter").tag == "g[idx]"),
                ("operand.untouched", _same_store(st.set_dict, st.set0) and _same_store(st.comp_dict, st.comp0))]
    return Contract("C05.lazy.__getitem__[set=%s,cached=%s]" % (",".join(cfg[0]) or "-", ",".join(cfg[1]) or "-"),
                    target=lambda: _lazy_cls().__getitem__, setup=setup, ensures=ens,
                    canaries=[("user-set fields not indexed", "new_dict = {key: value[idx] for key, value in self._set_values.items()}", "new_dict = {key: value for key, value in self._set_values.items()}")] if cfg[0] else
                             ([("cache not indexed", "new_computed = {key: value[idx] for key, value in self._computed_values.items()}", "new_computed = {key: value for key, value in self._computed_values.items()}")] if cfg[1] else []))


# ---- __getattr__ ------------------------------------------------------------------------------------------------------------------------
def _mk_getattr(cfg, key):
    def setup(ctx):
        st = St()
        st.selfv = _obj(st, *cfg)
        st.args = [key]
        return st

    def ens(ctx, st, ret):
        if key in st.set0:
            exp, calls = st.set0[key], []
        elif key in st.comp0:
            exp, calls = st.comp0[key], []
        else:
            exp, calls = ("parsed", "g", key), [key]
        return [("value.is.alpha(t)(field): user-set, else cached, else parsed from the buffer", ret is exp or ret == exp),
                ("buffer.parsed.only.when.needed", st.getter.calls == calls),
                ("parsed.field.is.cached", key in st.set0 or (key in st.selfv.get("_computed_values"))),
                ("overlay.untouched", _same_store(st.selfv.get("_set_values"), st.set0))]
    return Contract("C05.lazy.__getattr__[set=%s,cached=%s,get=%s]" % (",".join(cfg[0]) or "-", ",".join(cfg[1]) or "-", key),
                    target=lambda: _lazy_cls().__getattr__, setup=setup, ensures=ens,
                    canaries=[("user-set value ignored", "            if var_name in self._set_values:", "            if False:")] if (key in cfg[0]) else [])


CONTRACTS = []
for cfg in CONFIGS:
    for repl in (("stop",), ("start", "chromosome")):
        CONTRACTS.append(_mk_replace(cfg, repl))
    for key in ("start", "stop"):
        CONTRACTS.append(_mk_setattr(cfg, key))
    CONTRACTS.append(_mk_getitem(cfg))
    for key in FIELDS:
        CONTRACTS.append(_mk_getattr(cfg, key))


# --- the raw-text machinery under every lazily read table (contracts proved for C04): row selection keeps rows and fields, compaction re-bases every
# offset, concatenation shifts them - what a lazy table writes and parses after such steps is what the eager table holds
from contracts import clone_for as _clone      # noqa: E402
from contracts import c04 as _c04               # noqa: E402
CONTRACTS += [_clone(_c04.make_contiguous, "C05"), _clone(_c04.getitem, "C05"), _clone(_c04.cat2, "C05"), _clone(_c04.cat2_mixed[0], "C05")]
