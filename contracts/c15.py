"""C15 - malformed input is reported, with the right line number, not mis-parsed.

Proved kernels: the local line-number arithmetic of the record-marker and '+'-line validation
(OneLineBuffer._validate for the real subclasses with 2 and 4 lines per entry, FastQBuffer._validate):
  raises FormatException  iff  some record does not start with its marker (resp. has no '+' line),
  and then  line_number = (lines per entry) * (index of the FIRST offending record) [+ 2 for the '+' line];
and the single-offset rule of NumpyFileReader.read_chunk (the chunk's base line is added exactly once) - see C01's
counters clause (n_lines_read advances by the delivered buffer's own line count).
"""
import types
import z3
from pyvc.core import I, B, And, Or, Not, Implies, Ite, Min, Max, in_range, Forall, SArr, SRec, Opaque, conc
from pyvc import npmodel as M
from pyvc.verify import Contract

ASSUMPTIONS = ["new_lines passed to _validate are the sorted positions of the newline bytes of `data` (established by from_raw_buffer: "
               "np.flatnonzero(chunk == NEWLINE), validated in C01-P2 style for delimited buffers; bounded for one-line buffers)"]
NOT_PROVED = ["that a non-numeric value / foreign character makes the column parser raise at all (the parsers' own checks): bounded; the conversion of its "
              "flat offset into the row number IS proved (DelimitedBuffer._get_field_by_number, both text layouts)",
              "a line with a different number of columns: bounded", "lazy / eager and gzip equivalence of the reported number: bounded"]


class St(types.SimpleNamespace):
    pass


def _setup(cls_getter):
    def setup(ctx):
        st = St()
        st.cls = cls_getter()
        st.nper = st.cls.n_lines_per_entry
        st.H = ord(st.cls.HEADER)
        st.N, st.m = z3.Int("data_len"), z3.Int("n_newlines")
        st.D = z3.Function("D", z3.IntSort(), z3.IntSort())
        st.NL = z3.Function("NL", z3.IntSort(), z3.IntSort())
        st.args = [st.cls, SArr.fresh(st.N, lambda p: st.D(I(p)), enc="BaseEncoding"), SArr.fresh(st.m, lambda t: st.NL(I(t)))]
        st.nrec = z3.Int("n_records")
        return st
    return setup


def _req(ctx, st):
    from pyvc.core import PairForall
    return [st.m >= st.nper, st.m == st.nper * st.nrec, st.N == st.NL(st.m - 1) + 1,
            Forall(lambda t: Implies(in_range(t, st.m), And(in_range(st.NL(t), st.N), st.D(st.NL(t)) == 10, Implies(t + 1 < st.m, st.NL(t) < st.NL(t + 1)))),
                   triggers=[st.NL], name="new_lines: increasing positions of newline bytes")]


def rec_start(st, q):
    return Ite(I(q) == 0, 0, st.NL(I(q) * st.nper - 1) + 1)


def plus_line(st, q):
    return st.NL(I(q) * st.nper + 1) + 1


def _ens_header(ctx, st, ret):
    return [("no.error.only.if.every.record.starts.with.its.marker", Forall(lambda q: Implies(in_range(q, st.nrec), st.D(rec_start(st, q)) == st.H)))]


def _raise_header(ctx, st):
    ln = ctx.last_raise.get("line_number")
    q, r = M._divmod_noassert(ln, st.nper)
    ctx.index_terms.append(q)
    return [("line.is.a.record.start", And(r == 0, in_range(q, st.nrec))),
            ("that.record.lacks.the.marker", st.D(rec_start(st, q)) != st.H),
            ("it.is.the.FIRST.such.record", Forall(lambda q2: Implies(And(I(q2) >= 0, I(q2) < q), st.D(rec_start(st, q2)) == st.H)))]


def _hints(ctx, st, ks):
    out = []
    for k in ks[:1]:
        out += [st.NL(I(k) * st.nper - 1), st.NL(I(k) * st.nper + 1), I(k) - 1]
    return out


def _two():
    from bionumpy.io.one_line_buffer import TwoLineFastaBuffer
    return TwoLineFastaBuffer


def _fq():
    from bionumpy.io.fastq_buffer import FastQBuffer
    return FastQBuffer


def _olb_validate():
    from bionumpy.io.one_line_buffer import OneLineBuffer
    return OneLineBuffer._validate.__func__


validate_fasta = Contract("C15.OneLineBuffer._validate[TwoLineFastaBuffer: 2 lines per entry]", target=_olb_validate, setup=_setup(_two), requires=_req,
                          ensures=_ens_header, raises={"FormatException": _raise_header}, hints=_hints,
                          dropped=["exception message"], decorators={"@classmethod": "receiver is the real subclass"},
                          canaries=[("line number of the previous record", "(np.flatnonzero(data[header_idxs] != header)[0] + 1) * n_lines_per_entry", "(np.flatnonzero(data[header_idxs] != header)[0]) * n_lines_per_entry"),
                                    ("marker of record 0 unchecked", "or data[0] != header:", "or False:"),
                                    ("wrong stride", "new_lines[n_lines_per_entry - 1: -1: n_lines_per_entry]", "new_lines[n_lines_per_entry: -1: n_lines_per_entry]")])
validate_fastq_header = Contract("C15.OneLineBuffer._validate[FastQBuffer: 4 lines per entry]", target=_olb_validate, setup=_setup(_fq), requires=_req,
                                 ensures=_ens_header, raises={"FormatException": _raise_header}, hints=_hints,
                                 canaries=[("line number of the previous record", "(np.flatnonzero(data[header_idxs] != header)[0] + 1) * n_lines_per_entry", "(np.flatnonzero(data[header_idxs] != header)[0]) * n_lines_per_entry")])


# FastQBuffer._validate: marker check (super) then the '+' line
def _ens_plus(ctx, st, ret):
    return [("no.error.only.if.markers.and.plus.lines.are.present",
             Forall(lambda q: Implies(in_range(q, st.nrec), And(st.D(rec_start(st, q)) == st.H, st.D(plus_line(st, q)) == ord("+")))))]


def _raise_plus(ctx, st):
    ln = ctx.last_raise.get("line_number")
    q, r = M._divmod_noassert(ln, st.nper)
    ctx.index_terms.append(q)
    bad_header = And(r == 0, in_range(q, st.nrec), st.D(rec_start(st, q)) != st.H)
    bad_plus = And(r == 2, in_range(q, st.nrec), st.D(plus_line(st, q)) != ord("+"))
    return [("line.number.names.an.offending.line", Or(bad_header, bad_plus)),
            ("first.offender.of.its.kind", Forall(lambda q2: Implies(And(I(q2) >= 0, I(q2) < q),
                                                                   Ite(r == 0, st.D(rec_start(st, q2)) == st.H, st.D(plus_line(st, q2)) == ord("+"))))),
            ("a.plus.error.is.reported.only.when.all.markers.are.fine", Forall(lambda q3: Implies(And(r == 2, in_range(q3, st.nrec)), st.D(rec_start(st, q3)) == st.H)))]


validate_fastq = Contract("C15.FastQBuffer._validate", target=lambda: _fq()._validate.__func__, setup=_setup(_fq), requires=_req,
                          ensures=_ens_plus, raises={"FormatException": _raise_plus}, hints=_hints,
                          canaries=[("plus line offset", "line_number = 2 + entry_number * n_lines_per_entry", "line_number = 3 + entry_number * n_lines_per_entry"),
                                    ("wrong line checked", "if np.any(data[new_lines[1::n_lines_per_entry] + 1] != \"+\"):", "if np.any(data[new_lines[2::n_lines_per_entry] + 1] != \"+\"):")])

# the single-offset rule: NumpyFileReader.read_chunk adds the chunk's base line (lines delivered in earlier chunks) exactly once to
# a format error raised by the buffer - the read_chunk contract of C01 (contracts/c01.py), clause `raises.FormatException`,
# re-run here under C15's name for the seek and the gzip-carry mode
from contracts import c01 as _c01
read_chunk_seek = _c01._mk(False, False, prefix="C15")
read_chunk_carry = _c01._mk(True, False, prefix="C15")

CONTRACTS = [validate_fasta, validate_fastq_header, validate_fastq, read_chunk_seek, read_chunk_carry]


# --- an encoding error inside a column becomes a format error that names the ROW (DelimitedBuffer._get_field_by_number) --------------------------
# The column parser reports the flat offset of the first offending character within the column text.  Proved for both layouts of that text:
#   digit matrix (n rows x w columns):   reported row r satisfies  r*w <= offset < (r+1)*w
#   ragged text (row lengths len(i)):    reported row r satisfies  C(r) <= offset < C(r+1)   (C = prefix sums of the lengths)
# and when the parser succeeds its result is returned unchanged.  (DelimitedBuffer.get_field_by_number -> NpDataclassReader adds the chunk's base line.)
from pyvc.core import SRec, SArr2, Opaque, PathEnd     # noqa: E402
from pyvc.pybuiltins import SRaggedObj                    # noqa: E402


def _DB():
    from bionumpy.io.delimited_buffers import DelimitedBuffer
    return DelimitedBuffer


_hg = {}


class _Parser:
    """the column parser: either succeeds (returns one value per row) or raises EncodingError with the flat offset of an offending character"""

    def sym_call(self, ip, args, kwargs, lineno):
        st = _hg["st"]
        if ip.ctx.branch(st.fails):
            raise PathEnd("raise", "EncodingError", None, {"offset": st.off, "args": ["message"]})
        st.parsed = SArr.fresh(st.n, lambda i: st.val(I(i)))
        return st.parsed


def _mk_gf(layout):
    def setup(ctx):
        st = St()
        st.n, st.w, st.off = z3.Int("n_rows"), z3.Int("width"), z3.Int("error_offset")
        st.fails = z3.Bool("parser_fails")
        st.val, st.len = z3.Function("parsed_value", z3.IntSort(), z3.IntSort()), z3.Function("row_length", z3.IntSort(), z3.IntSort())
        st.fl = lambda i: st.len(I(i))
        if layout == "matrix":
            text = SArr2.fresh(st.n, st.w, lambda i, j: 48, enc="BaseEncoding")
            extractor = SRec(None, get_digit_array=_Ret((text, None, None)))
            ftype = int
        else:
            st.C = M.exclusive_prefix(st.fl, st.n)
            text = SRaggedObj(lambda p: 65, st.n, lambda i: st.C(I(i)), st.fl, "BaseEncoding", st.C(st.n), contiguous=True, C=st.C)
            extractor = SRec(None, get_field_by_number=_Ret(text))
            ftype = str
        st.selfv = SRec(_DB(), _buffer_extractor=extractor, _is_validated=True)
        st.args = [3, ftype]
        _hg["st"] = st
        return st

    def req(ctx, st):
        if layout == "matrix":
            return [st.n >= 1, st.w >= 1, st.off >= 0, st.off < st.n * st.w]
        ctx.assume(st.n >= 1, Forall(lambda i: Implies(in_range(i, st.n), st.len(i) >= 0), triggers=[st.len], name="row lengths >= 0"))
        M.prefix_monotone(st.C, st.fl, st.n)
        return [st.off >= 0, st.off < st.C(st.n)]

    def on_raise(ctx, st):
        r = ctx.last_raise.get("line_number")
        if layout == "matrix":
            return [("raised.only.when.the.parser.failed", st.fails), ("reported.row.contains.the.offending.character", And(I(r) * st.w <= st.off, st.off < (I(r) + 1) * st.w))]
        return [("raised.only.when.the.parser.failed", st.fails),
                ("reported.row.contains.the.offending.character", And(I(r) >= 0, I(r) < st.n, st.C(I(r)) <= st.off, st.off < st.C(I(r) + 1)))]
    return Contract("C15.DelimitedBuffer._get_field_by_number[%s]" % ("digit matrix" if layout == "matrix" else "ragged text"), target=lambda: _DB()._get_field_by_number,
                    setup=setup, requires=req,
                    ensures=lambda ctx, st, ret: [("parser.result.returned.unchanged", ret is st.parsed), ("returns.only.when.the.parser.succeeded", Not(st.fails))],
                    raises={"FormatException": on_raise},
                    callees={"bionumpy.io.file_buffers.FileBuffer._get_parser": lambda ip, args, kwargs, lineno: _Parser(),
                             "bionumpy.io.file_buffers.TextBufferExtractor._get_parser": lambda ip, args, kwargs, lineno: _Parser(),
                             "bionumpy.io.delimited_buffers.DelimitedBuffer.validate_if_not": lambda ip, args, kwargs, lineno: None},
                    hints=lambda ctx, st, ks: [],
                    canaries=[("row taken from the column count", "row_number = e.offset // text.shape[1]", "row_number = e.offset // text.shape[0]")] if layout == "matrix" else
                             [("row before the offending one", 'row_number = np.searchsorted(np.cumsum(text.lengths), e.offset, side="right")', 'row_number = np.searchsorted(np.cumsum(text.lengths), e.offset, side="left")')])


class _Ret:
    def __init__(self, v):
        self.v = v

    def sym_call(self, ip, args, kwargs, lineno):
        return self.v


CONTRACTS += [_mk_gf("matrix"), _mk_gf("ragged")]


# --- which characters a column accepts (the encoding errors this property reports) is the alphabet lookup table proved for C06; where a chunk is cut
# (the line counts behind the reported line number) is the cut proved for C01
from contracts import clone_for as _clone      # noqa: E402
from contracts import c06 as _c06, c01 as _c01  # noqa: E402
CONTRACTS += [_clone(_c06.init2, "C15"), _clone([c for c in _c01.CONTRACTS if c.name == "C01.DelimitedBuffer.from_raw_buffer"][0], "C15")]
