"""C11 - streamed evaluation equals in-memory evaluation for every chunking.

Proved kernel: the re-chunking generator streams.chunk_entries._chunk_entries for ANY stream of chunks (any number of
chunks, any chunk lengths >= 0) and any n >= 1:
  * the concatenation of everything yielded so far plus the retained buffer is exactly the input consumed so far,
    in order (loop invariant; obligations at every yield) - so nothing is lost, duplicated or reordered;
  * every chunk yielded inside the loop has exactly n entries (only the final flush may differ).
Tables are abstracted to sequences of row identities (only row identity and order matter here).
"""
import types
import z3
from pyvc.core import I, B, And, Or, Not, Implies, Ite, Min, Max, in_range, Forall, SArr, SRec, SymList, Opaque, conc
from pyvc import npmodel as M
from pyvc.loops import LoopSpec, GeneratorSpec, CatList, as_catlist
from pyvc.verify import Contract

ASSUMPTIONS = ["np.concatenate of tables / table[:n] / table[n:] / len(table) act on the row sequence (bnpdataclass: C19, bounded)",
               "termination of the stream is not proved"]
NOT_PROVED = ["streamable reductions (mean, bincount, histogram, k-mer counts), group-by on a sorted key, computation graph lock-step, "
              "per-chromosome pipelines: bounded (rtc/enum_c11.py) - additivity of the NumPy reductions is outside this family's reach here",
              "chunk_lines is proved on the row abstraction (a FileBuffer is its sequence of lines; len / slicing / np.concatenate act on it: assumed)"]


class St(types.SimpleNamespace):
    pass


def _target():
    from bionumpy.streams import chunk_entries
    return chunk_entries._chunk_entries


def _setup(ctx):
    st = St()
    st.m, st.n = z3.Int("n_chunks"), z3.Int("n_entries")
    st.ell = z3.Function("chunk_len", z3.IntSort(), z3.IntSort())
    st.IN = z3.Function("row", z3.IntSort(), z3.IntSort())          # row identities of the concatenated input
    st.S = M.exclusive_prefix(lambda j: st.ell(j), st.m)
    stream = SymList(st.m, lambda j: SArr.fresh(st.ell(I(j)), lambda k, j=j: st.IN(st.S(I(j)) + I(k))))
    st.args = [stream, st.n]
    st.OUT = CatList(0, SArr.fresh(0, lambda k: 0))
    st.all_exact = True                                              # ghost: every yield so far had exactly n entries
    ctx.ip.loop_specs[("_chunk_entries", 0)] = LoopSpec(_inv(st), _havoc(st))
    return st


def _req(ctx, st):
    ctx.assume(st.m >= 0, st.n >= 1, Forall(lambda j: Implies(in_range(j, st.m), st.ell(j) >= 0), triggers=[st.ell], name="chunk lengths >= 0"))
    M.prefix_monotone(st.S, lambda j: st.ell(j), st.m)
    return []


def _inv(st):
    def inv(ip, env):
        b = as_catlist(env.vars["b"])
        it = env.vars["_it"]
        out = st.OUT.cat
        consumed = st.S(I(it))
        probe = b.cat.at(z3.Int("probe"))
        trig = [probe.decl()] if z3.is_app(probe) and probe.num_args() == 1 and probe.decl().kind() == z3.Z3_OP_UNINTERPRETED else []
        probe2 = out.at(z3.Int("probe"))
        trig2 = [probe2.decl()] if z3.is_app(probe2) and probe2.num_args() == 1 and probe2.decl().kind() == z3.Z3_OP_UNINTERPRETED else []
        return [("sizes", And(I(out.length) >= 0, I(b.cat.length) >= 0, I(out.length) + I(b.cat.length) == consumed, env.vars["buffer_size"] == b.cat.length)),
                ("yielded.prefix", Forall(lambda k: Implies(in_range(k, out.length), out.at(k) == st.IN(k)), triggers=trig2)),
                ("buffer.is.the.rest", Forall(lambda k: Implies(in_range(k, b.cat.length), b.cat.at(k) == st.IN(I(out.length) + I(k))), triggers=trig))]
        # note: "the retained buffer has fewer than n entries" is NOT an invariant of the real code (an incoming chunk of >= 2n
        # entries leaves >= n behind; at most one chunk is emitted per incoming chunk).  The statement only constrains the
        # chunks yielded before the last one, which is what the at-yield obligation checks.
    return inv


def _havoc(st):
    def havoc(ip, env):
        c = ip.ctx
        g, h = c.fresh_fun("buf"), c.fresh_fun("out")
        nb, no, cb, co = c.fresh_int("buflen"), c.fresh_int("outlen"), c.fresh_int("bufcount"), c.fresh_int("outcount")
        env.vars["b"] = CatList(cb, SArr.fresh(nb, lambda k: g(I(k))))
        st.OUT = CatList(co, SArr.fresh(no, lambda k: h(I(k))))
        env.vars["buffer_size"] = c.fresh_int("buffer_size")
        c.assume(cb >= 0, co >= 0)
    return havoc


def _on_yield(ip, st, v, node, env):
    c = ip.ctx
    inside_loop = "_it" in env.vars and conc(I(env.vars["_it"]) < st.m) is not False and env.vars.get("_in_body", True)
    k = st.OUT.cat.length
    # AT the yield: the value is the next rows of the input, in order
    c.oblige("%s:yield.is.next.input.rows" % c.fname, Forall(lambda t: Implies(in_range(t, v.length), v.at(t) == st.IN(I(k) + I(t)))), "at_yield")
    if getattr(st, "in_loop", False):
        c.oblige("%s:yield.inside.loop.has.exactly.n.entries" % c.fname, I(v.length) == st.n, "at_yield")
    st.OUT.getattr(ip, "append", None).sym_call(ip, [v], {}, None)


class _Spec(LoopSpec):
    def run_for(self, ip, s, env, it, k):
        self.st.in_loop = True
        try:
            LoopSpec.run_for(self, ip, s, env, it, k)
        finally:
            self.st.in_loop = False


def _setup2(ctx):
    st = _setup(ctx)
    spec = _Spec(_inv(st), _havoc(st))
    spec.st = st
    ctx.ip.loop_specs[("_chunk_entries", 0)] = spec
    return st


def _ens(ctx, st, ret):
    out = st.OUT.cat
    total = st.S(st.m)
    return [("everything.delivered", I(out.length) == total),
            ("in.order", Forall(lambda k: Implies(in_range(k, out.length), out.at(k) == st.IN(k))))]


chunk_entries = Contract("C11._chunk_entries", target=_target, setup=_setup2, requires=_req, ensures=_ens,
                         generator=GeneratorSpec(_on_yield),
                         canaries=[("remainder starts one late", "b = [total[n_entries:]]", "b = [total[n_entries + 1:]]"),
                                   ("tail dropped", "if buffer_size:", "if buffer_size > n_entries:"),
                                   ("yield one short", "yield total[:n_entries]", "yield total[:n_entries - 1]")])

CONTRACTS = [chunk_entries]


# --- bincount_reduce: padded element-wise addition, symmetric in its arguments ---------------------------------------------------------------
# r has length max(|a|, |b|) and r[i] = a[i] (if i < |a|) + b[i] (if i < |b|).  This operation is commutative and associative, so folding the
# per-chunk bincounts in stream order gives the same counts for every chunking (np.bincount's additivity over concatenation is assumed).
def _red():
    from bionumpy.streams import reductions
    return reductions


def _setup_br(ctx):
    st = St()
    st.na, st.nb = z3.Int("len_a"), z3.Int("len_b")
    st.a, st.b = z3.Function("a", z3.IntSort(), z3.IntSort()), z3.Function("b", z3.IntSort(), z3.IntSort())
    st.args = [SArr.fresh(st.na, lambda i: st.a(I(i))), SArr.fresh(st.nb, lambda i: st.b(I(i)))]
    return st


def _ens_br(ctx, st, ret):
    pad = lambda f, n, i: Ite(I(i) < n, f(I(i)), 0)
    return [("length.is.the.longer", I(ret.length) == Max(st.na, st.nb)),
            ("padded.sum", Forall(lambda i: Implies(in_range(i, ret.length), ret.at(i) == pad(st.a, st.na, i) + pad(st.b, st.nb, i))))]


bincount_reduce = Contract("C11.bincount_reduce", target=lambda: _red().bincount_reduce, setup=_setup_br,
                           requires=lambda ctx, st: [st.na >= 0, st.nb >= 0], ensures=_ens_br,
                           canaries=[("shorter operand returned", "        return bincount_a", "        return bincount_b"),
                                     ("tail of the longer lost", "bincount_b[:bincount_a.size] += bincount_a", "bincount_b = bincount_b[:bincount_a.size] + bincount_a")])
CONTRACTS.append(bincount_reduce)


# --- chunk_lines (io/parser.py): re-chunking a stream of file buffers to exactly n lines per chunk ---------------------------------------------
# Same abstraction and the same clauses as _chunk_entries: nothing lost, duplicated or reordered; every chunk yielded inside the loops has exactly
# n lines (only the final flush may have fewer).  Nested loops: an invariant for the `for` over the incoming buffers and one for the inner `while`.
def _cl_target():
    from bionumpy.io import parser
    return parser.chunk_lines


def _cl_content(st, env, b, chunk=None):
    out = st.OUT.cat
    b = types.SimpleNamespace(cat=b.cat)      # freeze: the list object is appended to later, the hypotheses are instantiated lazily

    def trig(arr):
        probe = arr.at(z3.Int("probe"))
        return [probe.decl()] if z3.is_app(probe) and probe.num_args() == 1 and probe.decl().kind() == z3.Z3_OP_UNINTERPRETED else []
    goals = [("yielded.prefix", Forall(lambda k: Implies(in_range(k, out.length), out.at(k) == st.IN(k)), triggers=trig(out))),
             ("held.lines.are.the.next.input.lines", Forall(lambda k: Implies(in_range(k, b.cat.length), b.cat.at(k) == st.IN(I(out.length) + I(k))), triggers=trig(b.cat)))]
    if chunk is not None:
        goals.append(("rest.of.the.current.buffer.follows", Forall(lambda k: Implies(in_range(k, chunk.length), chunk.at(k) == st.IN(I(out.length) + I(b.cat.length) + I(k))), triggers=trig(chunk))))
    return goals


def _cl_inv_outer(st):
    def inv(ip, env):
        b = as_catlist(env.vars["cur_buffers"])
        it, rem = env.vars["_it"], env.vars["remaining_lines"]
        out = st.OUT.cat
        return [("sizes", And(I(out.length) >= 0, I(b.cat.length) >= 0, I(out.length) + I(b.cat.length) == st.S(I(it)))),
                ("remaining = n - held, at least 1", And(I(rem) >= 1, I(rem) == st.n - I(b.cat.length)))] + _cl_content(st, env, b)
    return inv


def _cl_havoc_common(ip, env, st):
    c = ip.ctx
    g, h = c.fresh_fun("held"), c.fresh_fun("out")
    nb, no, cb, co = c.fresh_int("heldlen"), c.fresh_int("outlen"), c.fresh_int("heldcount"), c.fresh_int("outcount")
    env.vars["cur_buffers"] = CatList(cb, SArr.fresh(nb, lambda k: g(I(k))))
    st.OUT = CatList(co, SArr.fresh(no, lambda k: h(I(k))))
    env.vars["remaining_lines"] = c.fresh_int("remaining_lines")
    c.assume(cb >= 0, co >= 0)


def _cl_havoc_outer(st):
    def havoc(ip, env):
        _cl_havoc_common(ip, env, st)
        env.vars.pop("chunk", None)
        # variables assigned in the loop body keep SOME value after the loop: unconstrained here (nothing after the loop may depend on them)
        env.vars["n_lines_in_chunk"] = ip.ctx.fresh_int("n_lines_in_chunk_after")
    return havoc


def _cl_inv_inner(st):
    def inv(ip, env):
        b = as_catlist(env.vars["cur_buffers"])
        it, rem, chunk, nl = env.vars["_it"], env.vars["remaining_lines"], env.vars["chunk"], env.vars["n_lines_in_chunk"]
        out = st.OUT.cat
        return [("sizes", And(I(out.length) >= 0, I(b.cat.length) >= 0, I(chunk.length) >= 0,
                              I(out.length) + I(b.cat.length) + I(chunk.length) == st.S(I(it) + 1), I(nl) == I(chunk.length))),
                ("remaining = n - held, at least 1", And(I(rem) >= 1, I(rem) == st.n - I(b.cat.length)))] + _cl_content(st, env, b, chunk)
    return inv


def _cl_havoc_inner(st):
    def havoc(ip, env):
        _cl_havoc_common(ip, env, st)
        c = ip.ctx
        f, nc = c.fresh_fun("rest"), c.fresh_int("restlen")
        env.vars["chunk"] = SArr.fresh(nc, lambda k: f(I(k)))
        env.vars["n_lines_in_chunk"] = c.fresh_int("n_lines_in_chunk")
    return havoc


def _setup_cl(ctx):
    st = _setup(ctx)
    ctx.ip.loop_specs.pop(("_chunk_entries", 0), None)
    outer = _Spec(_cl_inv_outer(st), _cl_havoc_outer(st))
    outer.st = st
    ctx.ip.loop_specs[("chunk_lines", 0)] = outer
    ctx.ip.loop_specs[("chunk_lines", 1)] = LoopSpec(_cl_inv_inner(st), _cl_havoc_inner(st))
    return st


chunk_lines = Contract("C11.chunk_lines", target=_cl_target, setup=_setup_cl, requires=_req, ensures=_ens,
                       generator=GeneratorSpec(_on_yield),
                       canaries=[("rest of the buffer starts one late", "chunk = chunk[remaining_lines:]", "chunk = chunk[remaining_lines + 1:]"),
                                 ("counter not reset after a full chunk", "            remaining_lines = n_lines", "            remaining_lines = n_lines - 1"),
                                 ("held lines dropped at a chunk boundary", "        cur_buffers.append(chunk)", "        cur_buffers = [chunk]")])
CONTRACTS.append(chunk_lines)


# --- streamable._args_stream: the chunk of each streamed argument goes into the slot that argument occupied -------------------------------------
# For a call f(a_0, ..., a_{k-1}) whose arguments at `stream_indices` are streams: the j-th argument list yielded has the j-th chunk of
# every stream at that stream's own position and every other argument unchanged; one list per chunk of the shortest stream.  Proved for the
# argument shapes (x, S), (S, x), (x, S, y), (S, x, T), (x, S, T): any number of chunks.
from pyvc.pybuiltins import SymIter      # noqa: E402


def _as_target():
    from bionumpy.streams.decorators import streamable
    return streamable._args_stream


def _mk_args_stream(shape):
    """shape: string over 'x' (plain argument) and 'S' (stream)"""
    idx = [i for i, ch in enumerate(shape) if ch == "S"]

    def setup(ctx):
        st = St()
        st.plain = {i: z3.Int("arg%d" % i) for i, ch in enumerate(shape) if ch == "x"}
        st.n = {i: z3.Int("n_chunks%d" % i) for i in idx}
        st.chunk = {i: z3.Function("chunk%d" % i, z3.IntSort(), z3.IntSort()) for i in idx}
        st.its = {i: SymIter(st.n[i], (lambda i: lambda ip, p: st.chunk[i](I(p)))(i)) for i in idx}
        st.args = [tuple(st.its[i] if ch == "S" else st.plain[i] for i, ch in enumerate(shape)), list(idx)]
        st.yields = 0
        st.total = st.n[idx[0]]
        for i in idx[1:]:
            st.total = Min(st.total, st.n[i])

        def inv(ip, env):
            return [("one.argument.list.per.chunk.so.far", I(st.yields) == I(env.vars["_it"]))]

        def havoc(ip, env):
            st.yields = env.vars["_it"]
        ctx.ip.loop_specs[("streamable._args_stream", 0)] = LoopSpec(inv, havoc)
        return st

    def on_yield(ip, st, v, node, env):
        c = ip.ctx
        j = env.vars["_it"]
        items = ip.concrete_items(v)
        c.oblige("%s:yield.has.one.entry.per.argument" % c.fname, z3.BoolVal(items is not None and len(items) == len(shape)), "at_yield")
        for i, ch in enumerate(shape):
            want = st.chunk[i](I(j)) if ch == "S" else st.plain[i]
            got = items[i] if items is not None and i < len(items) else None
            ok = (I(got) == want) if isinstance(got, (int, z3.ArithRef)) else z3.BoolVal(False)
            c.oblige("%s:yield.j.slot.%d.is.%s" % (c.fname, i, "chunk.j.of.that.stream" if ch == "S" else "the.plain.argument"), ok, "at_yield")
        c.oblige("%s:exactly.one.yield.per.chunk" % c.fname, I(st.yields) == I(j), "at_yield")
        st.yields = conc(I(st.yields) + 1)

    def ens(ctx, st, ret):
        return [("one.argument.list.per.chunk.of.the.shortest.stream", I(st.yields) == st.total)]

    def concretize(model, ctx, st, oid):
        """the model's plain arguments and chunk counts (capped at 4) on the real generator; chunk j of stream i is the pair (i, j)"""
        ev = lambda t: model.eval(t, model_completion=True).as_long()
        n = {i: max(1, min(ev(st.n[i]), 4)) for i in idx}
        args = tuple(iter([(i, j) for j in range(n[i])]) if ch == "S" else ("plain", i, ev(st.plain[i])) for i, ch in enumerate(shape))
        got = [list(a) for a in _as_target()(args, list(idx))]
        want = [[(i, j) if ch == "S" else args[i] for i, ch in enumerate(shape)] for j in range(min(n.values()))]
        return {"reproduced": got != want, "input": {"shape": shape, "chunks per stream": n}, "yielded": repr(got)[:600], "expected": repr(want)[:600]}

    return Contract("C11.streamable._args_stream[%s]" % shape, target=_as_target, setup=setup, concretize=concretize,
                    requires=lambda ctx, st: [n >= 0 for n in st.n.values()], ensures=ens, generator=GeneratorSpec(on_yield),
                    canaries=[("chunks written to the leading slots", "zip(stream_indices, stream_args)", "enumerate(stream_args)")] if shape[0] != "S" or "xS" in shape else [])


from contracts import thorough as _thorough      # noqa: E402
for _shape in ("xS", "Sx", "xSx", "SxS", "xSS") + (("xxS", "SSS", "SxxS", "xSxSx") if _thorough() else ()):
    CONTRACTS.append(_mk_args_stream(_shape))


# --- GenomicLocationStreamed.get_windows: the streamed windows are built with the same flanks as the in-memory ones (C10 contract of
# GenomicLocationGlobal.get_windows): start = position - l, stop = position + r with l = r - 1 = flank, or l = w // 2 and l + r = w for window_size = w.
# The computation graph is abstract: the observation point is the node that is constructed (Interval / StrandedInterval over chromosome, start, stop[, strand]).
from pyvc.core import SRec, Opaque, Unsupported      # noqa: E402


def _GLS():
    from bionumpy.genomic_data.genomic_intervals import GenomicLocationStreamed
    return GenomicLocationStreamed


def _NodeExpr(base, op=None, k=None):
    """position node +/- integer: recorded (a record, so that the engine routes `node - k` to the contract's handler)"""
    return SRec(None, base=base, op=op, k=k)


def _mk_streamed_windows(kind, stranded):
    def setup(ctx):
        from bionumpy.computation_graph import ComputationNode
        from bionumpy.genomic_data.genomic_intervals import GenomicIntervalsStreamed
        st = St()
        st.par = z3.Int(kind)
        st.pos, st.chrom, st.strand = _NodeExpr("position"), Opaque("chromosome node"), Opaque("strand node")
        st.selfv = SRec(_GLS(), _genome_context=Opaque("genome context"))
        st.node = None
        ctx.ip.class_models[(_GLS(), "position")] = lambda ip, obj: st.pos
        ctx.ip.class_models[(_GLS(), "chromosome")] = lambda ip, obj: st.chrom
        ctx.ip.class_models[(_GLS(), "strand")] = lambda ip, obj: st.strand
        ctx.ip.class_models[(_GLS(), "is_stranded")] = lambda ip, obj: _Const(stranded)
        ctx.ip.class_models[("binop", "Sub")] = lambda ip, a, b, lineno: _NodeExpr(a, "-", b)
        ctx.ip.class_models[("binop", "Add")] = lambda ip, a, b, lineno: _NodeExpr(a, "+", b)

        def node(ip, args, kwargs, lineno):
            st.node = list(args)
            return Opaque("interval node")
        ctx.ip.class_models[ComputationNode] = node

        class _Clipped:
            def getattr(self_, ip, name, lineno):
                if name == "clip":
                    return _Const(Opaque("clipped streamed intervals"))
                raise Unsupported(name)

        def streamed(ip, args, kwargs, lineno):
            st.streamed_args, st.streamed_kwargs = list(args), dict(kwargs)
            return _Clipped()
        ctx.ip.class_models[GenomicIntervalsStreamed] = streamed
        st.args = []
        st.kwargs = {kind: st.par}
        return st

    def ens(ctx, st, ret):
        from bionumpy.datatypes import Interval, StrandedInterval
        nd = st.node
        ok = nd is not None and len(nd) == 2 and isinstance(nd[1], list) and len(nd[1]) == (4 if stranded else 3)
        out = [("an.interval.node.is.built.over (chromosome, start, stop%s)" % (", strand" if stranded else ""), ok and nd[0] is (StrandedInterval if stranded else Interval) and nd[1][0] is st.chrom
                and (not stranded or nd[1][3] is st.strand))]
        if not ok:
            return out
        s, e = nd[1][1], nd[1][2]
        shaped = isinstance(s, SRec) and isinstance(e, SRec) and s.has("op") and e.has("op") and s.get("base") is st.pos and e.get("base") is st.pos and s.get("op") == "-" and e.get("op") == "+"
        out.append(("start.is.position.minus.l, stop.is.position.plus.r", shaped))
        if not shaped:
            return out
        if kind == "flank":
            out += [("l.is.the.flank", I(s.get("k")) == st.par), ("r.is.the.flank.plus.one", I(e.get("k")) == st.par + 1)]
        else:
            q, r = M._divmod_noassert(st.par, 2)
            out += [("l.is.half.the.window.size", I(s.get("k")) == q), ("the.window.is.exactly.window_size.wide", I(s.get("k")) + I(e.get("k")) == st.par)]
        out.append(("strandedness.passed.on", st.streamed_kwargs.get("is_stranded") is stranded))
        return out

    return Contract("C11.GenomicLocationStreamed.get_windows[%s,%s]" % (kind, "stranded" if stranded else "unstranded"), target=lambda: _GLS().get_windows, setup=setup,
                    requires=lambda ctx, st: [st.par >= 0], ensures=ens,
                    canaries=[("right flank one too large for even sizes", "r_flank = window_size // 2 + window_size % 2", "r_flank = window_size // 2 + 1")] if kind == "window_size" else
                             [("symmetric flanks", "r_flank = flank + 1", "r_flank = flank")])


class _Const:
    def __init__(self, v):
        self.v = v

    def sym_call(self, ip, args, kwargs, lineno):
        return self.v


CONTRACTS += [_mk_streamed_windows("window_size", False), _mk_streamed_windows("flank", False), _mk_streamed_windows("window_size", True)]
