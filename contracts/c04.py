"""C04 - unmodified records and fields are written back byte-for-byte.

Representation invariant WF(x) of a TextThroughputExtractor: for every row i and field f
    entry_starts(i) <= field_starts(i,f),  field_starts(i,f) + field_lens(i,f) <= entry_ends(i) <= |data|.
Abstraction: rows(x)(i) = data[entry_starts(i) : entry_ends(i)),  field(x)(i,f) = data[field_starts(i,f) : +field_lens(i,f)).
Proved: selection (__getitem__ with any integer index array) composes gathers and keeps rows/fields; compaction
(_make_contigous) keeps rows/fields, re-bases every offset and makes data the concatenation of the selected rows
in the selected order - the first sentence of the property for every composition of selections.
The same two clauses for the BAM record extractor (BamBufferExtractor.__getitem__ / _make_contigous).
"""
import types
import z3
from pyvc.core import I, B, And, Or, Not, Implies, Ite, Min, Max, in_range, Forall, SArr, SArr2, SRec, Opaque, conc
from pyvc import npmodel as M
from pyvc.verify import Contract

ASSUMPTIONS = ["npstructures: EncodedRaggedArray(data, RaggedView2(starts, lens)).ravel() is the concatenation of the rows "
               "data[starts(i):starts(i)+lens(i)) (validated bounded)",
               "EncodedArray / EncodedRaggedArray are transparent wrappers"]
NOT_PROVED = ["LazyBNPDataClass.get_buffer decision logic and the modified-write path (join of original text and formatted new columns): bounded",
              "concatenate for an arbitrary number of buffers (proved for exactly 2 and 3): bounded for the rest",
              "boolean-mask and slice selections are covered through "
              "their NumPy meaning as index arrays (assumed) - bounded"]


class St(types.SimpleNamespace):
    pass


def _T():
    from bionumpy.io.file_buffers import TextThroughputExtractor
    return TextThroughputExtractor


def _extractor(ctx, st, tag="", contiguous=False):
    n, nf, N = z3.Int("n" + tag), z3.Int("nf" + tag), z3.Int("N" + tag)
    D = z3.Function("D" + tag, z3.IntSort(), z3.IntSort())
    es, ee = z3.Function("es" + tag, z3.IntSort(), z3.IntSort()), z3.Function("ee" + tag, z3.IntSort(), z3.IntSort())
    fs = z3.Function("fs" + tag, z3.IntSort(), z3.IntSort(), z3.IntSort())
    fl = z3.Function("fl" + tag, z3.IntSort(), z3.IntSort(), z3.IntSort())
    x = types.SimpleNamespace(n=n, nf=nf, N=N, D=D, es=es, ee=ee, fs=fs, fl=fl)
    x.obj = SRec(_T(), _data=SArr.fresh(N, lambda p: D(I(p)), enc="BaseEncoding"),
                 _field_starts=SArr2.fresh(n, nf, lambda i, f: fs(I(i), I(f))), _field_lens=SArr2.fresh(n, nf, lambda i, f: fl(I(i), I(f))),
                 _entry_starts=SArr.fresh(n, lambda i: es(I(i))), _entry_ends=SArr.fresh(n, lambda i: ee(I(i))),
                 _is_contiguous=contiguous, _n_fields=nf)
    return x


def WF(x):
    return [x.n >= 0, x.nf >= 1, x.N >= 0,
            Forall(lambda i: Implies(in_range(i, x.n), And(0 <= x.es(i), x.es(i) <= x.ee(i), x.ee(i) <= x.N)), triggers=[x.es], name="WF.entries"),
            Forall(lambda i: Implies(in_range(i, x.n), And(0 <= x.es(i), x.es(i) <= x.ee(i), x.ee(i) <= x.N)), triggers=[x.ee], name="WF.entries'"),
            Forall(lambda i, f: Implies(And(in_range(i, x.n), in_range(f, x.nf)),
                                        And(x.es(i) <= x.fs(i, f), x.fl(i, f) >= 0, x.fs(i, f) + x.fl(i, f) <= x.ee(i))),
                   nvars=2, triggers=[x.fs], name="WF.fields"),
            Forall(lambda i, f: Implies(And(in_range(i, x.n), in_range(f, x.nf)),
                                        And(x.es(i) <= x.fs(i, f), x.fl(i, f) >= 0, x.fs(i, f) + x.fl(i, f) <= x.ee(i))),
                   nvars=2, triggers=[x.fl], name="WF.fields'")]


# --- _make_contigous ------------------------------------------------------------------------------------------
def _setup_mc(ctx):
    st = St()
    st.x = _extractor(ctx, st)
    st.selfv = st.x.obj
    st.args = []
    return st


def _ens_mc(ctx, st, ret):
    x, o = st.x, st.x.obj
    data, nes, nee, nfs, nfl = o.get("_data"), o.get("_entry_starts"), o.get("_entry_ends"), o.get("_field_starts"), o.get("_field_lens")
    return [
        ("flag", o.get("_is_contiguous") is True),
        ("shapes", And(nes.length == x.n, nee.length == x.n, I(nfs.rows) == x.n, I(nfs.cols) == x.nf)),
        ("entries.tile.the.data", And(Implies(x.n > 0, And(nes.at(0) == 0, nee.at(x.n - 1) == data.length)),
                                      Implies(x.n == 0, I(data.length) == 0))),
        ("entries.consecutive", Forall(lambda i: Implies(And(in_range(i, x.n), i + 1 < x.n), nee.at(i) == nes.at(i + 1)))),
        ("entry.length.kept", Forall(lambda i: Implies(in_range(i, x.n), I(nee.at(i)) - I(nes.at(i)) == x.ee(i) - x.es(i)))),
        ("rows.kept: new data is the concatenation of the selected records in the selected order",
         Forall(lambda i, k: Implies(And(in_range(i, x.n), in_range(k, x.ee(i) - x.es(i))), data.at(I(nes.at(i)) + k) == x.D(x.es(i) + k)), nvars=2)),
        ("fields.kept", Forall(lambda i, f, k: Implies(And(in_range(i, x.n), in_range(f, x.nf), in_range(k, x.fl(i, f))),
                                                      data.at(I(nfs.at2(i, f)) + k) == x.D(x.fs(i, f) + k)), nvars=3)),
        ("field.lens.kept", nfl is st.x.obj_field_lens if hasattr(st.x, "obj_field_lens") else True),
        ("WF.kept", Forall(lambda i, f: Implies(And(in_range(i, x.n), in_range(f, x.nf)),
                                               And(I(nes.at(i)) <= I(nfs.at2(i, f)), I(nfs.at2(i, f)) + x.fl(i, f) <= I(nee.at(i)),
                                                   I(nee.at(i)) <= I(data.length))), nvars=2)),
    ]


def _hints_mc(ctx, st, ks):
    """mention the prefix sums at the skolem row and its successor (guides instantiation of the monotonicity lemma)"""
    o = st.x.obj
    nes = o.get("_entry_starts")
    out = []
    for k in ks[:1]:
        out += [nes.at(k), nes.at(k + 1)]
    return out


make_contiguous = Contract("C04.TextThroughputExtractor._make_contigous", target=lambda: _T()._make_contigous, setup=_setup_mc,
                           requires=lambda ctx, st: WF(st.x), ensures=_ens_mc, hints=_hints_mc,
                           canaries=[("offsets computed after the re-base (all zero)", "offsets = self._entry_starts - new_starts[:-1]", "offsets = new_starts[:-1] - new_starts[:-1]"),
                                     ("field starts not re-based", "self._field_starts = self._field_starts - offsets[:, None]", "self._field_starts = self._field_starts"),
                                     ("ends shifted", "self._entry_ends = new_starts[1:]", "self._entry_ends = new_starts[:-1]")])


# --- __getitem__ with an integer index array (every NumPy selection is a gather of rows) ---------------------------
def _setup_gi(ctx):
    st = St()
    st.x = _extractor(ctx, st, contiguous=True)
    st.m = z3.Int("m")
    st.idx = z3.Function("idx", z3.IntSort(), z3.IntSort())
    st.selfv = st.x.obj
    st.args = [SArr.fresh(st.m, lambda j: st.idx(I(j)))]
    return st


def _req_gi(ctx, st):
    return WF(st.x) + [st.m >= 0, Forall(lambda j: Implies(in_range(j, st.m), in_range(st.idx(j), st.x.n)), triggers=[st.idx], name="indices in range")]


def _ens_gi(ctx, st, ret):
    x = st.x
    data, nes, nee, nfs, nfl = [ret.get(a) for a in ("_data", "_entry_starts", "_entry_ends", "_field_starts", "_field_lens")]
    return [("not.contiguous", ret.get("_is_contiguous") is False),
            ("same.bytes", data is x.obj.get("_data")),
            ("rows.selected", Forall(lambda j: Implies(in_range(j, st.m), And(nes.at(j) == x.es(st.idx(j)), nee.at(j) == x.ee(st.idx(j)))))),
            ("fields.selected", Forall(lambda j, f: Implies(And(in_range(j, st.m), in_range(f, x.nf)),
                                                           And(nfs.at2(j, f) == x.fs(st.idx(j), f), nfl.at2(j, f) == x.fl(st.idx(j), f))), nvars=2)),
            ("class.kept", ret._cls is _T())]


getitem = Contract("C04.TextThroughputExtractor.__getitem__[index array]", target=lambda: _T().__getitem__, setup=_setup_gi, requires=_req_gi,
                   ensures=_ens_gi, canaries=[("ends not selected", "entry_ends=self._entry_ends[idx]", "entry_ends=self._entry_ends"),
                                              ("claims contiguous", "is_contiguous=False", "is_contiguous=True")])


# --- get_fields_by_range: "rest of line" -------------------------------------------------------------------------------
def _setup_fr(ctx):
    st = St()
    st.x = _extractor(ctx, st)
    st.f0 = z3.Int("from_nr")
    st.selfv = st.x.obj
    st.args = []
    st.kwargs = {"from_nr": st.f0}
    return st


def _ens_fr(ctx, st, ret):
    x = st.x
    return [("rows", I(ret.n) == x.n),
            ("rest.of.line", Forall(lambda i: Implies(in_range(i, x.n), And(I(ret.starts(i)) == x.fs(i, st.f0), I(ret.lens(i)) == x.ee(i) - 1 - x.fs(i, st.f0))))),
            ("entry_ends.not.written", Forall(lambda i: Implies(in_range(i, x.n), x.obj.get("_entry_ends").at(i) == x.ee(i))))]


def _extract_data(ip, args, kwargs, lineno):
    """callee contract of TextBufferExtractor._extract_data(lens, starts): the ragged view data[starts(i) : +lens(i))"""
    from pyvc.pybuiltins import SRaggedObj
    selfv, lens, starts = args
    d = selfv.get("_data")
    fl, fs = lens.snapshot(), starts.snapshot()
    return SRaggedObj(d.snapshot(), lens.length, fs, fl, d.enc, d.length)


fields_by_range = Contract("C04.TextThroughputExtractor.get_fields_by_range", target=lambda: _T().get_fields_by_range, setup=_setup_fr,
                           requires=lambda ctx, st: WF(st.x) + [in_range(st.f0, st.x.nf)], ensures=_ens_fr,
                           callees={"bionumpy.io.file_buffers.TextBufferExtractor._extract_data": _extract_data},
                           canaries=[("newline kept", "lens -= 1", "lens -= 0")])


# --- concatenate of 2 and of 3 extractors ----------------------------------------------------------------------------------
def _setup_cat(k, flags=None):
    def setup(ctx):
        st = St()
        st.flags = flags or [True] * k
        st.xs = [_extractor(ctx, st, tag="_%d" % j, contiguous=st.flags[j]) for j in range(k)]
        for x in st.xs[1:]:
            ctx.assume(x.nf == st.xs[0].nf)
        st.selfv = None
        st.args = [_T(), [x.obj for x in st.xs]]
        return st
    return setup


def _req_cat(ctx, st):
    out = []
    for x in st.xs:
        out += WF(x)
    return out


def _ens_cat(ctx, st, ret):
    data, nes, nee, nfs, nfl = [ret.get(a) for a in ("_data", "_entry_starts", "_entry_ends", "_field_starts", "_field_lens")]
    goals = []
    row0, off0 = 0, 0
    for j, x in enumerate(st.xs):
        r0, o0 = row0, off0
        goals += [("buffer%d.rows.kept" % j, Forall(lambda i, k, x=x, r0=r0, o0=o0: Implies(And(in_range(i, x.n), in_range(k, x.ee(i) - x.es(i))),
                                                    data.at(I(nes.at(r0 + i)) + k) == x.D(x.es(i) + k)), nvars=2)),
                  ("buffer%d.entry.bounds" % j, Forall(lambda i, x=x, r0=r0, o0=o0: Implies(in_range(i, x.n), And(nes.at(r0 + i) == x.es(i) + o0, nee.at(r0 + i) == x.ee(i) + o0)))),
                  ("buffer%d.fields.kept" % j, Forall(lambda i, f, x=x, r0=r0, o0=o0: Implies(And(in_range(i, x.n), in_range(f, x.nf)),
                                                      And(nfs.at2(r0 + i, f) == x.fs(i, f) + o0, nfl.at2(r0 + i, f) == x.fl(i, f))), nvars=2))]
        row0, off0 = row0 + x.n, off0 + x.N
    goals += [("total.rows", I(nes.length) == row0), ("total.bytes", I(data.length) == off0),
              ("contiguity.flag.is.the.conjunction", ret.get("_is_contiguous") is all(st.flags))]
    return goals


cat2 = Contract("C04.TextThroughputExtractor.concatenate[2 buffers]", target=lambda: _T().concatenate.__func__, setup=_setup_cat(2), requires=_req_cat, ensures=_ens_cat,
                decorators={"@classmethod": "receiver is the class"},
                canaries=[("offset not added to entry ends", "entry_ends = np.concatenate([b._entry_ends + offset", "entry_ends = np.concatenate([b._entry_ends + 0*offset")])
cat3 = Contract("C04.TextThroughputExtractor.concatenate[3 buffers]", target=lambda: _T().concatenate.__func__, setup=_setup_cat(3), requires=_req_cat, ensures=_ens_cat,
                canaries=[("field starts not shifted", "starts = np.concatenate([b._field_starts + offset", "starts = np.concatenate([b._field_starts + 0*offset")])



# --- BAM: BamBufferExtractor.__getitem__ / _make_contigous (record selection and compaction of binary records) ----------------------
def _X():
    from bionumpy.io.bam import BamBufferExtractor
    return BamBufferExtractor


def _bam_extractor(contiguous):
    n, N = z3.Int("n"), z3.Int("N")
    D, es, ee = (z3.Function(k, z3.IntSort(), z3.IntSort()) for k in ("D", "rec_start", "rec_end"))
    x = types.SimpleNamespace(n=n, N=N, D=D, es=es, ee=ee)
    x.obj = SRec(_X(), _data=SArr.fresh(N, lambda p: D(I(p))), _new_lines=SArr.fresh(n, lambda i: es(I(i))), _ends=SArr.fresh(n, lambda i: ee(I(i))),
                 _header_data=[], _is_contigous=contiguous)
    return x


def _wf_bam(x):
    return [x.n >= 0, x.N >= 0,
            Forall(lambda i: Implies(in_range(i, x.n), And(0 <= x.es(i), x.es(i) <= x.ee(i), x.ee(i) <= x.N)), triggers=[x.es], name="WF.records"),
            Forall(lambda i: Implies(in_range(i, x.n), And(0 <= x.es(i), x.es(i) <= x.ee(i), x.ee(i) <= x.N)), triggers=[x.ee], name="WF.records'")]


def _LE(D, p, nb, signed):
    v = z3.IntVal(0)
    for b in range(nb):
        v = v + I(D(p + b)) * (256 ** b)
    return z3.If(v >= 2 ** (8 * nb - 1), v - 2 ** (8 * nb), v) if signed else v


def _bam_offsets(D, start):
    """the four memoised offset tables as functions of the bytes and the record starts (proved for the real properties in C16)"""
    name = lambda i: I(start(i)) + 36
    cigar = lambda i: name(i) + I(D(I(start(i)) + 12))
    seq = lambda i: cigar(i) + 4 * _LE(D, I(start(i)) + 16, 2, False)
    qual = lambda i: seq(i) + M._divmod_noassert(_LE(D, I(start(i)) + 20, 4, True) + 1, 2)[0]
    return {"_read_name_start": name, "_cigar_start": cigar, "_sequence_start": seq, "_quality_start": qual}


def _setup_bmc(ctx, memo=False):
    st = St()
    st.x = _bam_extractor(False)
    st.selfv, st.args = st.x.obj, []
    if memo:
        # fields were read before: the instance holds the four offset tables (and the sequence lengths) of the layout BEFORE compaction
        for k, f in _bam_offsets(st.x.D, st.x.es).items():
            st.x.obj.set(_memo_key(k), SArr.fresh(st.x.n, (lambda f: lambda i: f(I(i)))(f)))
        st.x.obj.set(_memo_key("_get_sequence_length"), SArr.fresh(st.x.n, lambda i: _LE(st.x.D, st.x.es(I(i)) + 20, 4, True)))
    return st


def _memo_key(name):
    """where the running class keeps the memoised value: the instance dict (functools.cached_property), or the never-invalidated
    per-receiver lru_cache (bionumpy.util.cached_property / @lru_cache methods), carried by the engine as a ghost attribute"""
    import inspect, functools
    from pyvc.interp import LRU_GHOST
    raw = inspect.getattr_static(_X(), name)
    if isinstance(raw, functools.cached_property):
        return name
    if isinstance(raw, property):
        return LRU_GHOST + name
    return LRU_GHOST + name + "()"


def _ens_memo(ctx, st, ret):
    """Ghost invariant of the memoised offsets: an offset table held by the instance is the offset function of the CURRENT
    (_data, _new_lines).  cached_property establishes it (C16 offset contracts); compaction must keep it - by dropping the
    tables or by re-basing them."""
    x, o = st.x, st.x.obj
    data, ns = o.get("_data"), o.get("_new_lines")
    now = _bam_offsets(lambda p: data.at(p), lambda i: ns.at(i))
    now["_get_sequence_length"] = lambda i: _LE(lambda p: data.at(p), I(ns.at(i)) + 20, 4, True)
    out = []
    for k, f in now.items():
        if not o.has(_memo_key(k)):
            out.append(("memo.%s: not held, or the offsets of the compacted layout" % k, True))
        else:
            v = o.get(_memo_key(k))
            out.append(("memo.%s.length" % k, v.length == x.n))
            out.append(("memo.%s: not held, or the offsets of the compacted layout" % k,
                        Forall((lambda v, f: lambda i: Implies(in_range(i, x.n), I(v.at(i)) == f(i)))(v, f))))
    return out


def _ens_bmc(ctx, st, ret):
    x, o = st.x, st.x.obj
    data, ns, ne = o.get("_data"), o.get("_new_lines"), o.get("_ends")
    return [("flag", o.get("_is_contigous") is True),
            ("shapes", And(ns.length == x.n, ne.length == x.n)),
            ("records.tile.the.data", And(Implies(x.n > 0, And(ns.at(0) == 0, ne.at(x.n - 1) == data.length)), Implies(x.n == 0, I(data.length) == 0))),
            ("records.consecutive", Forall(lambda i: Implies(And(in_range(i, x.n), i + 1 < x.n), ne.at(i) == ns.at(i + 1)))),
            ("record.length.kept", Forall(lambda i: Implies(in_range(i, x.n), I(ne.at(i)) - I(ns.at(i)) == x.ee(i) - x.es(i)))),
            ("records.kept: new data is the concatenation of the selected records in the selected order",
             Forall(lambda i, k: Implies(And(in_range(i, x.n), in_range(k, x.ee(i) - x.es(i))), data.at(I(ns.at(i)) + k) == x.D(x.es(i) + k)), nvars=2))]


def _hints_bmc(ctx, st, ks):
    ns = st.x.obj.get("_new_lines")
    out = []
    for k in ks[:1]:
        out += [ns.at(k), ns.at(k + 1)]
    return out


bam_make_contiguous = Contract("C04.BamBufferExtractor._make_contigous", target=lambda: _X()._make_contigous, setup=_setup_bmc,
                               requires=lambda ctx, st: _wf_bam(st.x), ensures=_ens_bmc, hints=_hints_bmc,
                               canaries=[("record lengths off by one", "lens = self._ends - self._new_lines", "lens = self._ends - self._new_lines - 1"),
                                         ("ends shifted", "self._ends = new_starts[1:]", "self._ends = new_starts[:-1]"),
                                         ("rows taken from the record ends", "RaggedView2(self._new_lines, lens)", "RaggedView2(self._ends, lens)")])


bam_make_contiguous_memo = Contract("C04.BamBufferExtractor._make_contigous[after field reads]", target=lambda: _X()._make_contigous,
                                    setup=lambda ctx: _setup_bmc(ctx, memo=True),
                                    requires=lambda ctx, st: _wf_bam(st.x) + [Forall(lambda i: Implies(in_range(i, st.x.n), st.x.ee(i) - st.x.es(i) >= 36), triggers=[st.x.es],
                                                                                     name="every record holds its 36 fixed bytes")],
                                    ensures=lambda ctx, st, ret: _ens_bmc(ctx, st, ret) + _ens_memo(ctx, st, ret),
                                    hints=_hints_bmc,
                                    canaries=[("memoised offsets of the old layout kept", "self.__dict__.pop(name, None)", "self.__dict__.get(name, None)"),
                                              ("one table forgotten", "'_cigar_start', '_sequence_start'", "'_cigar_start_', '_sequence_start'")])


def _setup_bgi(ctx):
    st = St()
    st.x = _bam_extractor(True)
    st.m = z3.Int("m")
    st.idx = z3.Function("idx", z3.IntSort(), z3.IntSort())
    st.selfv = st.x.obj
    st.args = [SArr.fresh(st.m, lambda j: st.idx(I(j)))]
    return st


def _ens_bgi(ctx, st, ret):
    x = st.x
    data, ns, ne = ret.get("_data"), ret.get("_new_lines"), ret.get("_ends")
    return [("not.contiguous", ret.get("_is_contigous") is False),
            ("same.bytes", data is x.obj.get("_data")),
            ("header.kept", ret.get("_header_data") is x.obj.get("_header_data")),
            ("records.selected", Forall(lambda j: Implies(in_range(j, st.m), And(ns.at(j) == x.es(st.idx(j)), ne.at(j) == x.ee(st.idx(j)))))),
            ("class.kept", ret._cls is _X())]


bam_getitem = Contract("C04.BamBufferExtractor.__getitem__[index array]", target=lambda: _X().__getitem__, setup=_setup_bgi,
                       requires=lambda ctx, st: _wf_bam(st.x) + [st.m >= 0, Forall(lambda j: Implies(in_range(j, st.m), in_range(st.idx(j), st.x.n)), triggers=[st.idx], name="indices in range")],
                       ensures=_ens_bgi,
                       callees={"bionumpy.encoded_array.as_encoded_array": lambda ip, args, kwargs, lineno: Opaque("chromosome names (header)")},
                       canaries=[("ends not selected", "self._ends[item]", "self._ends"),
                                 ("claims contiguous", "is_contigous=False", "is_contigous=True")])

# pieces that are row selections (not contiguous) next to untouched ones: the merged extractor may claim contiguity only when EVERY piece is contiguous -
# otherwise an unmodified write would emit the rows a selection dropped
cat2_mixed = [Contract("C04.TextThroughputExtractor.concatenate[2 buffers, contiguous=%s]" % "".join("T" if f else "F" for f in fl), target=lambda: _T().concatenate.__func__,
                       setup=_setup_cat(2, fl), requires=_req_cat, ensures=_ens_cat, decorators={"@classmethod": "receiver is the class"},
                       canaries=[("flag of the first piece only", "is_contiguous=all(b._is_contiguous for b in buffers))", "is_contiguous=buffers[0]._is_contiguous)")] if fl == [True, False] else [])
              for fl in ([True, False], [False, True], [False, False])]
# a unit-step slice of a BAM selection - of a freshly read (contiguous) buffer and of a row selection that still shares the file's bytes
def _setup_bgs(contiguous):
    def setup(ctx):
        st = St()
        st.x = _bam_extractor(contiguous)
        st.a, st.b = z3.Int("slice_start"), z3.Int("slice_stop")
        st.selfv = st.x.obj
        st.args = [slice(st.a, st.b)]
        return st
    return setup


def _ens_bgs(ctx, st, ret):
    x = st.x
    data, ns, ne = ret.get("_data"), ret.get("_new_lines"), ret.get("_ends")
    m = st.b - st.a
    out = [("rows", And(I(ns.length) == m, I(ne.length) == m)),
           ("header.kept", ret.get("_header_data") is x.obj.get("_header_data")), ("class.kept", ret._cls is _X())]
    if ret.get("_is_contigous") is False:
        # a view: the parent's bytes with the selected record bounds (compaction - proved above - makes it the concatenation of exactly these records)
        return out + [("same.bytes", data is x.obj.get("_data")),
                      ("records.selected", Forall(lambda j: Implies(in_range(j, m), And(ns.at(j) == x.es(st.a + j), ne.at(j) == x.ee(st.a + j)))))]
    # claimed contiguous: then the data must BE the concatenation of exactly the selected records, in order, tiling it
    return out + [("claims.contiguity.only.for.data.that.is.the.selected.records: tiling", And(Implies(m > 0, And(ns.at(0) == 0, ne.at(m - 1) == data.length)), Implies(m == 0, I(data.length) == 0))),
                  ("claims.contiguity...: consecutive", Forall(lambda j: Implies(And(in_range(j, m), j + 1 < m), ne.at(j) == ns.at(j + 1)))),
                  ("claims.contiguity...: content", Forall(lambda j, k: Implies(And(in_range(j, m), in_range(k, x.ee(st.a + j) - x.es(st.a + j))),
                                                                              And(I(ne.at(j)) - I(ns.at(j)) == x.ee(st.a + j) - x.es(st.a + j), data.at(I(ns.at(j)) + k) == x.D(x.es(st.a + j) + k))), nvars=2))]


def _conc_bgs(contiguous):
    def concretize(model, ctx, st, oid):
        """the model's record count and slice bounds (capped) on a real extractor: records of unequal sizes, separated by unused bytes when the
        parent is a row selection; the real result must describe exactly the selected records"""
        import numpy as np
        ev = lambda t: model.eval(t, model_completion=True).as_long()
        n = max(2, min(ev(st.x.n), 6))
        a = max(0, min(ev(st.a), n))
        b = max(a, min(ev(st.b), n))
        if b - a < 1:
            a, b = 0, min(2, n)
        sizes = [3 + (i % 3) for i in range(n)]
        gap = 0 if contiguous else 2
        starts, pos = [], 0
        for s in sizes:
            starts.append(pos)
            pos += s + gap
        data = (np.arange(pos) % 251).astype(np.uint8)
        starts, ends = np.array(starts), np.array(starts) + np.array(sizes)
        parent = _X()(data, starts, ends, [("chr1", 10)], is_contigous=contiguous)
        want = [data[s:e].tolist() for s, e in zip(starts[a:b], ends[a:b])]
        child = parent[slice(a, b)]
        got = [np.asarray(child._data)[s:e].tolist() for s, e in zip(child._new_lines, child._ends)]
        written = np.asarray(child.data).tolist()
        flat = [v for r in want for v in r]
        return {"reproduced": got != want or written != flat, "input": {"record sizes": sizes, "unused bytes between records": gap, "slice": [a, b]},
                "records of the result": got, "expected": want, "bytes handed to the writer": written, "expected bytes": flat}
    return concretize


bam_getitem_slice = [Contract("C04.BamBufferExtractor.__getitem__[slice of a %s buffer]" % ("contiguous" if c else "row-selected"), target=lambda: _X().__getitem__, setup=_setup_bgs(c),
                              requires=(lambda c: lambda ctx, st: _wf_bam(st.x) + [st.a >= 0, st.a <= st.b, st.b <= st.x.n] + (
                                  [Implies(st.x.n > 0, And(st.x.es(0) == 0, st.x.ee(st.x.n - 1) == st.x.N)),
                                   Forall(lambda i: Implies(And(in_range(i, st.x.n), i + 1 < st.x.n), st.x.ee(i) == st.x.es(i + 1)), triggers=[st.x.ee], name="a contiguous buffer: its records tile the data")]
                                  if c else []))(c), ensures=_ens_bgs,
                              callees={"bionumpy.encoded_array.as_encoded_array": lambda ip, args, kwargs, lineno: Opaque("chromosome names (header)")},
                              concretize=_conc_bgs(c))
                     for c in (True, False)]
CONTRACTS = [make_contiguous, getitem, fields_by_range, cat2, cat3] + cat2_mixed + bam_getitem_slice + [bam_make_contiguous, bam_make_contiguous_memo, bam_getitem]
from contracts import thorough as _thorough      # noqa: E402
if _thorough():
    CONTRACTS += [Contract("C04.TextThroughputExtractor.concatenate[%d buffers]" % _k, target=lambda: _T().concatenate.__func__, setup=_setup_cat(_k), requires=_req_cat,
                           ensures=_ens_cat) for _k in (4, 5)]
