"""C13 - sliding-window sequence functions are row-local and match their definitions.

Proved kernels: the trimming / row-locality arithmetic shared by RollableFunction.rolling_window (mode 'valid'),
kmers.convolution (the wrapper of the bit-packed k-mer path) and util.rolling_window_function, for a ragged input
with arbitrary row lengths (including rows shorter than the window and empty rows) and ANY window w >= 1.
The windowed function itself is an abstract callable f: the contract states that it is applied to exactly the
windows x[p : p+w) of the flattened data, and that output row r, column j is f's value for p = start_r + j with
the whole window inside row r.
"""
import types
import z3
from pyvc.core import I, B, And, Or, Not, Implies, Ite, Min, Max, in_range, Forall, SArr, SArr2, SRec, Opaque, conc
from pyvc import npmodel as M
from pyvc.pybuiltins import SRaggedObj
from pyvc.verify import Contract

ASSUMPTIONS = ["npstructures: RaggedArray(data, shape, safe_mode=False) indexes data at the shape's row starts; ragged[..., a:b] slices each "
               "row against its own length; ravel() of a contiguous ragged array is its data (validated bounded in rtc/enum_c13.py)",
               "as_encoded_array(x, E) returns x when x is already encoded with E",
               "the windowed function (self.__call__ / func) is an abstract function of the window content"]
NOT_PROVED = ["the 2-bit packed sliding window (npstructures BitArray.pack / sliding_window): bounded",
              "k-mer hash value = little-endian base-|A| number and its rendering back to text: bounded (exhaustive small k)",
              "minimizers, PWM float sums, count_encoded: bounded"]


class St(types.SimpleNamespace):
    pass


def _ragged_input(ctx, st, enc="E"):
    st.n, st.w = z3.Int("n_rows"), z3.Int("w")
    st.L = z3.Function("rowlen", z3.IntSort(), z3.IntSort())
    st.x = z3.Function("x", z3.IntSort(), z3.IntSort())
    st.C = M.exclusive_prefix(lambda i: st.L(i), st.n)
    st.N = st.C(st.n)
    st.seq = SRaggedObj(lambda p: st.x(I(p)), st.n, lambda i: st.C(I(i)), lambda i: st.L(I(i)), enc, st.N, contiguous=True, C=st.C)
    st.F = z3.Function("f_of_window_at", z3.IntSort(), z3.IntSort())
    return st


class WindowFn:
    """abstract `self(windows)`: callee contract = it receives exactly the sliding windows of the flat data"""

    def __init__(self, st, out_enc=None, takes_w=False):
        self.st, self.out_enc, self.takes_w = st, out_enc, takes_w

    def sym_call(self, ip, args, kwargs, lineno):
        st, c = self.st, ip.ctx
        win = args[0]
        c.oblige("%s:callee.windows.shape" % c.fname, And(I(win.rows) == st.N - st.w + 1, I(win.cols) == st.w), "requires")
        c.oblige("%s:callee.windows.content" % c.fname,
                 Forall(lambda p, j: Implies(And(in_range(p, st.N - st.w + 1), in_range(j, st.w)), win.at2(p, j) == st.x(p + j)), nvars=2), "requires")
        return SArr.fresh(win.rows, lambda p: st.F(I(p)), "int", self.out_enc)


class FlatFn:
    """abstract `func(sequence, window_size)` of kmers.convolution: receives the flat data, returns N-w+1 values"""

    def __init__(self, st, out_enc="KmerEncoding"):
        self.st, self.out_enc = st, out_enc

    def __call__(self, ip, args, kwargs, lineno):
        st, c = self.st, ip.ctx
        seq, w = args[0], args[1]
        c.oblige("%s:callee.flat.length" % c.fname, I(seq.length) == st.N, "requires")
        c.oblige("%s:callee.flat.content" % c.fname, Forall(lambda p: Implies(in_range(p, st.N), seq.at(p) == st.x(p))), "requires")
        c.oblige("%s:callee.window" % c.fname, I(w) == st.w, "requires")
        return SArr.fresh(conc(st.N - st.w + 1), lambda p: st.F(I(p)), "int", self.out_enc)


def _requires(ctx, st):
    ctx.assume(st.n >= 1, Forall(lambda i: Implies(in_range(i, st.n), st.L(i) >= 0), triggers=[st.L], name="row lengths >= 0"))
    M.prefix_monotone(st.C, lambda i: st.L(i), st.n)       # premise obliged, lemma conclusion assumed
    return [st.w >= 1, st.N >= st.w]


def _ensures(ctx, st, ret):
    return [("rows", I(ret.n) == st.n),
            ("row.length", Forall(lambda r: Implies(in_range(r, st.n), I(ret.lens(r)) == Max(st.L(r) - st.w + 1, 0)))),
            ("value.is.window.of.same.row", Forall(lambda r, j: Implies(And(in_range(r, st.n), in_range(j, ret.lens(r))),
                                                                        And(ret.at(r, j) == st.F(st.C(r) + j),
                                                                            st.C(r) + j + st.w <= st.C(r) + st.L(r))), nvars=2))]


def _as_encoded_array(ip, args, kwargs, lineno):
    return args[0]


CALLEES = {"bionumpy.encoded_array.as_encoded_array": _as_encoded_array}


# --- RollableFunction.rolling_window -------------------------------------------------------------------------
def _rollable():
    from bionumpy.sequence.rollable import RollableFunction
    return RollableFunction


def _setup_rolling(out_enc):
    def setup(ctx):
        st = _ragged_input(ctx, St())
        st.selfv = SRec(_rollable(), window_size=st.w, _encoding="E")
        st.selfv.set("__call__", WindowFn(st, out_enc))
        st.args = [st.seq]
        return st
    return setup


def _concretize_rolling(model, ctx, st, oid):
    """replay on the real RollableFunction.rolling_window with a concrete windowed function (first letter of the window)"""
    import numpy as np
    import bionumpy as bnp
    from bionumpy.sequence.rollable import RollableFunction
    mv = lambda t: model.eval(t, model_completion=True).as_long()
    n, w = mv(st.n), mv(st.w)
    if n > 50:
        return {"reproduced": None, "why": "model too large"}
    lens = [max(0, mv(st.L(z3.IntVal(i)))) for i in range(n)]
    if sum(lens) < w:
        lens[0] += w
    rows = ["".join("ACGT"[(i * 3 + k) % 4] for k in range(l)) for i, l in enumerate(lens)]

    class First(RollableFunction):
        _encoding = bnp.encodings.BaseEncoding
        window_size = w

        def __call__(self, windows):
            return windows.raw()[..., 0].astype(int) * 1000 + windows.raw()[..., -1]
    got = First().rolling_window(bnp.as_encoded_array(rows)).tolist()
    exp = [[ord(r[j]) * 1000 + ord(r[j + w - 1]) for j in range(len(r) - w + 1)] for r in rows]
    return {"reproduced": got != exp, "input": {"rows": rows, "window": w}, "observed": got, "expected": exp}


rolling_plain = Contract("C13.RollableFunction.rolling_window[valid,ragged,plain output]", target=lambda: _rollable().rolling_window,
                         setup=_setup_rolling(None), requires=_requires, ensures=_ensures, callees=CALLEES,
                         concretize=_concretize_rolling, dropped=["docstring", "mode 'same' branch not taken (mode='valid' is the contracted case)"],
                         canaries=[("trim one too few", "out[..., : (-window_size + 1) or None]", "out[..., : (-window_size + 2) or None]"),
                                   ("window size 1 trims everything (the repaired defect)", "out[..., : (-window_size + 1) or None]", "out[..., : (-window_size + 1)]"),
                                   ("window one short", "sliding_window_view(sequence, window_size, subok=True)", "sliding_window_view(sequence, window_size - 1, subok=True)")])
rolling_encoded = Contract("C13.RollableFunction.rolling_window[valid,ragged,encoded output]", target=lambda: _rollable().rolling_window,
                           setup=_setup_rolling("KmerEncoding"), requires=_requires, ensures=_ensures, callees=CALLEES,
                           concretize=_concretize_rolling,
                           canaries=[("trim one too many", "out[..., : (-window_size + 1) or None]", "out[..., : -window_size]")])


# --- kmers.convolution(func).new_func and util.rolling_window_function(func).new_func ---------------------------
def _conv_target():
    from bionumpy.sequence import kmers
    return kmers._get_dna_kmers          # = convolution(<raw function>): the closure new_func


def _setup_conv(ctx):
    st = _ragged_input(ctx, St())
    st.args = [st.seq, st.w]
    return st


def _conv_callees():
    import bionumpy.sequence.kmers as K
    raw = [c.cell_contents for c in K._get_dna_kmers.__closure__][0]
    return raw


class _Reg(dict):
    pass


def _callees_conv(st_holder):
    raw = _conv_callees()
    qn = raw.__module__ + "." + raw.__qualname__
    d = dict(CALLEES)
    d[qn] = lambda ip, args, kwargs, lineno: FlatFn(st_holder["st"])(ip, args, kwargs, lineno)
    return d


_holder = {}


def _setup_conv2(ctx):
    st = _setup_conv(ctx)
    _holder["st"] = st
    return st


def _concretize_conv(model, ctx, st, oid):
    import bionumpy as bnp
    mv = lambda t: model.eval(t, model_completion=True).as_long()
    n, w = mv(st.n), mv(st.w)
    if n > 50 or w > 31:
        return {"reproduced": None, "why": "model outside the replayable range"}
    lens = [max(0, mv(st.L(z3.IntVal(i)))) for i in range(n)]
    if sum(lens) < w:
        lens[0] += w
    rows = ["".join("ACGT"[(i * 3 + k) % 4] for k in range(l)) for i, l in enumerate(lens)]
    got = [[str(x) for x in r] for r in bnp.sequence.get_kmers(bnp.as_encoded_array(rows, bnp.DNAEncoding), w).tolist()] if False else \
        [len(r) for r in bnp.sequence.get_kmers(bnp.as_encoded_array(rows, bnp.DNAEncoding), w)]
    exp = [max(len(r) - w + 1, 0) for r in rows]
    return {"reproduced": got != exp, "input": {"rows": rows, "k": w}, "observed_row_lengths": got, "expected_row_lengths": exp}


convolution = Contract("C13.kmers.convolution.new_func[ragged]", target=_conv_target, setup=_setup_conv2, requires=_requires, ensures=_ensures,
                       callees=None, concretize=_concretize_conv,
                       decorators={"@convolution": "the verified function IS the closure the decorator returns; the decorated raw function is the abstract callee"},
                       canaries=[("trim one too few", "out[..., : (-window_size + 1) or None]", "out[..., : (-window_size + 2) or None]")])
convolution.callees = _callees_conv(_holder)

CONTRACTS = [rolling_plain, rolling_encoded, convolution]


# --- k-mer code = little-endian base-|A| number of the window's letters, and it renders back to the letters -------------------------------
# KmerEncoder.__call__ / KmerEncoder.inverse for concrete (|A|, k): each pair is a separate, loop-free, full-domain obligation over an
# arbitrary number of windows with arbitrary letters in [0, |A|) - complete for that (|A|, k), not bounded.
def _KE():
    from bionumpy.sequence.kmers import KmerEncoder
    return KmerEncoder


PAIRS = [(4, k) for k in range(1, 7)] + [(5, k) for k in range(1, 5)] + [(21, k) for k in range(1, 4)] + [(3, 3)]     # larger k: bounded (solver time grows with k)
from contracts import thorough as _thorough      # noqa: E402
if _thorough():
    PAIRS += [(4, 7), (5, 5), (2, 4), (3, 5)]


def _setup_kmer(A, k):
    def setup(ctx):
        from bionumpy.encodings.kmer_encodings import KmerEncoding
        st = St()
        st.A, st.k = A, k
        st.n = z3.Int("n_windows")
        st.x = z3.Function("letter", z3.IntSort(), z3.IntSort(), z3.IntSort())
        ctx.ip.class_models[KmerEncoding] = lambda ip, args, kwargs, lineno: "KmerEncoding(%d)" % k
        st.selfv = ctx.ip.construct(_KE(), [k, SRec(None, alphabet_size=A)], {}, None)
        st.windows = SArr2.fresh(st.n, k, lambda i, j: st.x(I(i), I(j)), enc="alphabet")
        return st
    return setup


def _req_kmer(ctx, st):
    return [st.n >= 0, Forall(lambda i, j: And(st.x(i, j) >= 0, st.x(i, j) < st.A), nvars=2, triggers=[st.x], name="letters are codes in [0, |A|)")]


def code(st, i):
    return sum(st.x(I(i), j) * (st.A ** j) for j in range(st.k))


def _mk_call(A, k):
    def setup(ctx):
        st = _setup_kmer(A, k)(ctx)
        st.args = [st.windows]
        return st
    return Contract("C13.KmerEncoder.__call__[|A|=%d,k=%d]" % (A, k), target=lambda: _KE().__call__, setup=setup, requires=_req_kmer,
                    ensures=lambda ctx, st, ret: [("length", I(ret.length) == st.n),
                                                  ("code.is.the.little-endian.base-|A|.number", Forall(lambda i: Implies(in_range(i, st.n), ret.at(i) == code(st, i)))),
                                                  ("encoding", ret.enc is not None)],
                    callees=CALLEES, canaries=[("big-endian weights", "self._alphabet_size ** np.arange(self._k)", "self._alphabet_size ** np.arange(self._k)[::-1]", lambda: _KE().__init__)] if k == 3 else [])


def _mk_inverse(A, k):
    def setup(ctx):
        st = _setup_kmer(A, k)(ctx)
        st.args = [SArr.fresh(st.n, lambda i: code(st, i))]
        return st
    return Contract("C13.KmerEncoder.inverse[|A|=%d,k=%d]" % (A, k), target=lambda: _KE().inverse, setup=setup, requires=_req_kmer,
                    ensures=lambda ctx, st, ret: [("renders.back.to.the.window's.letters",
                                                   Forall(lambda i, j: Implies(And(in_range(i, st.n), in_range(j, st.k)), ret.at2(i, j) == st.x(i, j)), nvars=2))],
                    callees=CALLEES, canaries=[("modulus off", "% self._alphabet_size", "% (self._alphabet_size + 1)")] if k == 3 else [])


KMER = [_mk_call(A, k) for A, k in PAIRS] + [_mk_inverse(A, k) for A, k in PAIRS]
CONTRACTS += KMER


# --- KmerEncoding.to_string (what str / repr / get_labels / count labels show): the digits taken out of a scalar code are the window's letters --------
# Verified prefix: up to the digit array `tmp` (the rest wraps it in the alphabet encoding and decodes - C06 kernels).  2 bits per letter only
# when |A| = 4; base-|A| digits otherwise.
def _KEnc():
    from bionumpy.encodings.kmer_encodings import KmerEncoding
    return KmerEncoding


TS_PAIRS = [(4, 1), (4, 3), (4, 6), (2, 3), (3, 1), (3, 3), (5, 3), (21, 2)]
if _thorough():
    TS_PAIRS += [(4, 8), (2, 6), (3, 5), (5, 5), (21, 4)]


def _mk_to_string(A, k):
    def setup(ctx):
        st = St()
        st.A, st.k = A, k
        st.d = [z3.Int("letter_%d" % j) for j in range(k)]
        st.selfv = SRec(_KEnc(), _k=k, _alphabet_encoding=SRec(None, alphabet_size=A))
        st.args = [sum(st.d[j] * (A ** j) for j in range(k))]
        return st

    def ens(ctx, st, loc):
        tmp = loc["tmp"]
        return [("k.digits", I(tmp.length) == k)] + [("digit.%d.is.letter.%d" % (j, j), I(tmp.at(j)) == st.d[j]) for j in range(k)]

    def concretize(model, ctx, st, oid):
        """the model's letters on the real KmerEncoding.to_string over an alphabet of |A| distinct letters"""
        from bionumpy.encodings.alphabet_encoding import AlphabetEncoding
        letters = "ACGTNBDEFHIKLMPQRSVWY"[:A]
        d = [model.eval(x, model_completion=True).as_long() for x in st.d]
        kmer_code = sum(d[j] * A ** j for j in range(k))
        want = "".join(letters[x] for x in d)
        try:
            got = _KEnc()(AlphabetEncoding(letters), k).to_string(kmer_code)
        except Exception as e:
            return {"reproduced": True, "input": {"alphabet": letters, "k": k, "code": kmer_code}, "exception": repr(e), "expected": want}
        return {"reproduced": got != want, "input": {"alphabet": letters, "k": k, "code": kmer_code}, "to_string": got, "expected": want}

    return Contract("C13.KmerEncoding.to_string[|A|=%d,k=%d]" % (A, k), target=lambda: _KEnc().to_string, setup=setup, concretize=concretize,
                    requires=lambda ctx, st: [And(x >= 0, x < A) for x in st.d], ensures=ens, stop_before="chars = EncodedArray(tmp",
                    callees={"numpy.asanyarray": None} if False else None,
                    note="prefix: up to the digit array; scalar code (the array branch maps the scalar branch over the elements)",
                    canaries=([("two bits per letter for every small alphabet", "alphabet_size == 4", "alphabet_size <= 4")] if A < 4 and k > 1 else
                              [("base-|A| digits for the 4-letter alphabet taken with a wrong shift", "2 * np.arange(self._k)", "3 * np.arange(self._k)")] if A == 4 and k > 1 else []))


CONTRACTS += [_mk_to_string(A, k) for A, k in TS_PAIRS]
