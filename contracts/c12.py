"""C12 - per-chromosome streaming never silently drops or misattributes entries.

Proved kernels (generators, with obligations AT every yield):
  K1 GenomeContext._included_groups: yields exactly the groups that are not ignored, in order; reaching a name that is neither
     ignored nor included raises GenomeError.
  K2 GenomeContext.iter_chromosomes, for a genome order order(0..nG) of distinct names and a stream of groups with pairwise
     distinct names (the precondition "entries of one contig are contiguous"), every known name being a genome name:
       * the j-th yield is the group named order(j) if that group is the next unconsumed one, else the empty table;
       * groups are consumed in stream order, each exactly once (Q(j) = number consumed before contig j);
       * normal completion implies EVERY group was yielded (Q(nG) = number of groups): order incompatibilities, unknown
         names and left-over groups can only end in GenomeError, never in completion.
  K4 SynchedStream.__iter__ (default value set): the k-th yield is the table of contig k (the next unconsumed group iff its name is
     order(k), else the default); completion implies every group was yielded at its own contig; the subscript
     `self._contig_order[cur_contig_idx]` is in range.
  K3 streams.left_join.left_join: one triple per left group, in order; the right datum is the next unconsumed right group iff the names
     agree; completion implies every right group was joined (left-overs end in AssertionError / Exception).
"""
import types
import z3
from pyvc.core import (I, B, And, Or, Not, Implies, Ite, in_range, Forall, PairForall, SArr, SRec, SymList, Opaque, conc, PathEnd, Unsupported)
from pyvc.loops import LoopSpec, GeneratorSpec
from pyvc.pybuiltins import SymIter
from pyvc.verify import Contract

ASSUMPTIONS = ["groupby(data, field) yields (name, group) pairs with pairwise distinct names (entries of one contig are contiguous: the property's precondition)",
               "chromosome_order() lists every included genome contig once (false on the current tree for included names containing '_': known finding)",
               "dataclass.empty() is the empty table"]
NOT_PROVED = ["the clause 'no error is needed from a consumer that stops pulling after the last contig' (checks sit after the yield): known findings, bounded",
              "MultiStream (zip of SynchedStreams), the similarity measures' use of them, groupby fast path: bounded (rtc/enum_c12.py)"]


class St(types.SimpleNamespace):
    pass


def _GC():
    from bionumpy.genomic_data.genome_context import GenomeContext
    return GenomeContext


EMPTY = -1


class NameSet:
    def __init__(self, pred):
        self.pred = pred

    def contains(self, ip, x):
        return self.pred(I(x))


# ---- K1: _included_groups ---------------------------------------------------------------------------------------------------------
def _setup_k1(ctx):
    st = St()
    st.n = z3.Int("n_groups")
    st.name, st.grp = z3.Function("name", z3.IntSort(), z3.IntSort()), z3.Function("group", z3.IntSort(), z3.IntSort())
    st.ign, st.inc = z3.Function("ignored", z3.IntSort(), z3.BoolSort()), z3.Function("included", z3.IntSort(), z3.BoolSort())
    st.selfv = SRec(_GC(), _ignored=NameSet(st.ign), _included=NameSet(st.inc))
    st.args = [SymList(st.n, lambda p: (st.name(I(p)), st.grp(I(p))))]
    st.out_n, st.out_src = 0, None          # ghost: number of yields so far; source index of each yield
    st.src = z3.Function("yield_src", z3.IntSort(), z3.IntSort())
    ctx.assume(st.n >= 0)
    spec = LoopSpec(_inv_k1(st), _havoc_k1(st))
    ctx.ip.loop_specs[("GenomeContext._included_groups", 0)] = spec
    return st


def _inv_k1(st):
    def inv(ip, env):
        it = env.vars["_it"]
        # every group before `it` was either ignored (skipped) or yielded; yields are in stream order; none was unknown
        return [("no.unknown.group.passed", Forall(lambda p: Implies(in_range(p, it), Or(st.ign(st.name(p)), st.inc(st.name(p)))))),
                ("yield.count.bounded", And(I(st.out_n) >= 0, I(st.out_n) <= I(it)))]
    return inv


def _havoc_k1(st):
    def havoc(ip, env):
        st.out_n = ip.ctx.fresh_int("n_yielded")
    return havoc


def _yield_k1(ip, st, v, node, env):
    c = ip.ctx
    it = env.vars["_it"]
    name, grp = v
    c.oblige("%s:yield.is.the.current.group" % c.fname, And(name == st.name(it), grp == st.grp(it)), "at_yield")
    c.oblige("%s:yield.only.for.groups.that.are.not.ignored" % c.fname, And(Not(st.ign(st.name(it))), st.inc(st.name(it))), "at_yield")
    st.out_n = conc(I(st.out_n) + 1)


included_groups = Contract("C12.GenomeContext._included_groups", target=lambda: _GC()._included_groups, setup=_setup_k1,
                           generator=GeneratorSpec(_yield_k1),
                           ensures=lambda ctx, st, ret: [("all.groups.known", Forall(lambda p: Implies(in_range(p, st.n), Or(st.ign(st.name(p)), st.inc(st.name(p))))))],
                           raises={"GenomeError": lambda ctx, st: [("only.for.an.unknown.name", z3.BoolVal(True))]},
                           canaries=[("unknown names skipped silently", "raise GenomeError(f'{name} not included in genome: {set(self._chrom_size_dict.keys())}')", "continue"),
                                     ("ignored names yielded", "if name in self._ignored:", "if False:")])


# ---- K2: iter_chromosomes -----------------------------------------------------------------------------------------------------------
def _setup_k2(ctx):
    st = St()
    st.nG, st.nR = z3.Int("n_contigs"), z3.Int("n_groups")
    st.order = z3.Function("order", z3.IntSort(), z3.IntSort())
    st.nameR, st.grpR = z3.Function("nameR", z3.IntSort(), z3.IntSort()), z3.Function("groupR", z3.IntSort(), z3.IntSort())
    st.unknown = z3.Function("unknown", z3.IntSort(), z3.BoolSort())
    st.J = z3.Function("contig_of_group", z3.IntSort(), z3.IntSort())
    st.Q = z3.Function("consumed_before", z3.IntSort(), z3.IntSort())

    def pull(ip, p):
        if ip.ctx.branch(st.unknown(I(p))):
            raise PathEnd("raise", "GenomeError")
        return (st.nameR(I(p)), st.grpR(I(p)))
    st.it = SymIter(st.nR, pull)
    st.selfv = SRec(_GC())
    st.args = [Opaque("data"), SRec(None, empty=_Empty())]
    st.yields = 0
    ctx.ip.loop_specs[("GenomeContext.iter_chromosomes", 0)] = LoopSpec(_inv_k2(st), _havoc_k2(st))
    return st


class _Empty:
    def sym_call(self, ip, args, kwargs, lineno):
        return EMPTY


def _callees_k2(holder):
    return {"bionumpy.genomic_data.genome_context.GenomeContext.chromosome_order":
            lambda ip, args, kwargs, lineno: SymList(holder["st"].nG, lambda j: holder["st"].order(I(j))),
            "bionumpy.streams.decorators.streamable.__call__.<locals>.new_func": lambda ip, args, kwargs, lineno: Opaque("raw groups (groupby, decorated with @streamable)"),
            "bionumpy.genomic_data.genome_context.GenomeContext._included_groups": lambda ip, args, kwargs, lineno: holder["st"].it}


_h = {}


def _setup_k2b(ctx):
    st = _setup_k2(ctx)
    _h["st"] = st
    return st


def _req_k2(ctx, st):
    match = lambda j: And(st.Q(j) < st.nR, st.order(j) == st.nameR(st.Q(j)))
    ctx.assume(st.nG >= 0, st.nR >= 0, st.Q(0) == 0,
               Forall(lambda j: Implies(in_range(j, st.nG), st.Q(j + 1) == st.Q(j) + Ite(match(j), 1, 0)), triggers=[st.Q], name="Q: groups consumed before contig j (definition)"))
    # lemma by induction over the definition: 0 <= Q(j) <= number of groups
    ctx.induct("C12.GenomeContext.iter_chromosomes:lemma.Q.bounds", lambda j: And(st.Q(j) >= 0, st.Q(j) <= st.nR), st.Q, lo=0, hi=st.nG)
    return [PairForall(st.order, lambda a, b: Implies(And(in_range(a, st.nG), in_range(b, st.nG), a != b), st.order(a) != st.order(b)), name="contig names distinct"),
            PairForall(st.nameR, lambda a, b: Implies(And(in_range(a, st.nR), in_range(b, st.nR), a != b), st.nameR(a) != st.nameR(b)), name="group names distinct"),
            Forall(lambda p: Implies(And(in_range(p, st.nR), Not(st.unknown(p))), And(in_range(st.J(p), st.nG), st.order(st.J(p)) == st.nameR(p))),
                   triggers=[st.nameR], name="every known group name is a genome contig")]


def _inv_k2(st):
    def inv(ip, env):
        j = env.vars["_it"]
        q = st.Q(I(j))
        nn, ng = env.vars["next_name"], env.vars["next_group"]
        pending_ok = (And(q < st.nR, nn == st.nameR(q), ng == st.grpR(q)) if nn is not None else q == st.nR)
        seen = env.vars["seen"]
        seen_ok = (And(I(seen.count) == I(j)) if isinstance(seen, SymList) else z3.BoolVal(len(seen) == 0 and conc(I(j)) == 0))
        goals = [("one.table.per.contig.so.far", I(st.yields) == I(j)),
                 ("pending.group.is.the.next.unconsumed.one", pending_ok),
                 ("iterator.position", I(st.it.pos) == Ite(q < st.nR, q + 1, st.nR)),
                 ("seen.is.the.contigs.done", seen_ok),
                 ("consumed.groups.were.known", Forall(lambda p: Implies(And(I(p) >= 0, I(p) <= q, I(p) < st.nR), Not(st.unknown(p))))),
                 ("pending.name.is.not.a.contig.already.done", Forall(lambda k: Implies(And(in_range(k, j), q < st.nR), st.order(k) != st.nameR(q))))]
        if isinstance(seen, SymList):
            goals.append(("seen.content", Forall(lambda k: Implies(in_range(k, j), seen.at(k) == st.order(k)))))
        return goals
    return inv


def _havoc_k2(st):
    def havoc(ip, env):
        c = ip.ctx
        j = env.vars["_it"]
        q = st.Q(I(j))
        if c.branch(q < st.nR):
            env.vars["next_name"], env.vars["next_group"] = st.nameR(q), st.grpR(q)
            st.it.pos = q + 1
        else:
            env.vars["next_name"], env.vars["next_group"] = None, None
            st.it.pos = st.nR
        st.yields = j
        env.vars["seen"] = SymList(j, lambda k: st.order(I(k)))
        env.vars["seen_group"] = SymList(c.fresh_int("n_seen_group"), lambda k: 0)
    return havoc


def _yield_k2(ip, st, v, node, env):
    c = ip.ctx
    j = env.vars["_it"]
    q = st.Q(I(j))
    matched = And(q < st.nR, st.order(I(j)) == st.nameR(q))
    c.oblige("%s:yield.j.is.the.group.named.order(j).or.the.empty.table" % c.fname, I(v) == Ite(matched, st.grpR(q), EMPTY), "at_yield")
    c.oblige("%s:exactly.one.yield.per.contig" % c.fname, I(st.yields) == I(j), "at_yield")
    st.yields = conc(I(st.yields) + 1)


def _ens_k2(ctx, st, ret):
    return [("completion.implies.every.group.was.yielded", st.Q(st.nG) == st.nR),
            ("every.contig.received.a.table (data or empty)", I(st.yields) == st.nG)]


def _hints_k2(ctx, st, ks):
    out = [st.Q(st.nG), st.J(st.Q(st.nG)), st.nameR(st.Q(st.nG))]
    for k in ks[:1]:
        out += [st.Q(k), st.Q(k + 1)]
    return out


iter_chromosomes = Contract("C12.GenomeContext.iter_chromosomes", target=lambda: _GC().iter_chromosomes, setup=_setup_k2b, requires=_req_k2,
                            ensures=_ens_k2, generator=GeneratorSpec(_yield_k2), raises={"GenomeError": lambda ctx, st: []}, hints=_hints_k2,
                            dropped=["logger.debug calls", "exception messages"],
                            canaries=[("early return: trailing contigs get no table", "seen.append(name)", "return"),
                                      # removing the final left-over check is NOT a canary: under this contract's precondition (every known group name
                                      # is a genome contig) a left-over group is impossible there, so the mutant is equivalent (it survives, correctly)
                                      ("already-seen check removed", "if next_name in seen:", "if False:"),
                                      ("empty table for a contig that has data", "if name == next_name:", "if name == next_name and len(seen) > 0:")])
iter_chromosomes.callees = _callees_k2(_h)



# ---- K3: left_join ------------------------------------------------------------------------------------------------------------------
# left_join(grouped_left, grouped_right): for every left group j (name order(j), data dataL(j)) exactly one triple is yielded, in order;
# its third component is the NEXT unconsumed right group iff that group carries the same name, else None; right groups are consumed in
# stream order, each at most once (Q(j) = number consumed before left group j); normal completion implies that EVERY right group was
# joined to the left group of its own name (left-over right groups end in AssertionError / Exception, never in completion).
def _setup_k3(ctx):
    st = St()
    st.nG, st.nR = z3.Int("n_left"), z3.Int("n_right")
    st.order, st.dataL = z3.Function("name_left", z3.IntSort(), z3.IntSort()), z3.Function("data_left", z3.IntSort(), z3.IntSort())
    st.nameR, st.grpR = z3.Function("name_right", z3.IntSort(), z3.IntSort()), z3.Function("data_right", z3.IntSort(), z3.IntSort())
    st.Q = z3.Function("joined_before", z3.IntSort(), z3.IntSort())
    st.it = SymIter(st.nR, lambda ip, p: (st.nameR(I(p)), st.grpR(I(p))))
    st.args = [SymList(st.nG, lambda j: (st.order(I(j)), st.dataL(I(j)))), st.it]
    st.yields = 0
    ctx.ip.loop_specs[("left_join", 0)] = LoopSpec(_inv_k3(st), _havoc_k3(st))
    return st


def _req_k3(ctx, st):
    match = lambda j: And(st.Q(j) < st.nR, st.order(j) == st.nameR(st.Q(j)))
    ctx.assume(st.nG >= 0, st.nR >= 0, st.Q(0) == 0,
               Forall(lambda j: Implies(in_range(j, st.nG), st.Q(j + 1) == st.Q(j) + Ite(match(j), 1, 0)), triggers=[st.Q], name="Q: right groups joined before left group j (definition)"))
    ctx.induct("C12.left_join:lemma.Q.bounds", lambda j: And(st.Q(j) >= 0, st.Q(j) <= st.nR), st.Q, lo=0, hi=st.nG)
    return []


def _inv_k3(st):
    def inv(ip, env):
        j = env.vars["_it"]
        q = st.Q(I(j))
        nn, ng = env.vars["name_right"], env.vars["data_right"]
        pending_ok = (And(q < st.nR, nn == st.nameR(q), ng == st.grpR(q)) if nn is not None else (q == st.nR if ng is None else z3.BoolVal(False)))
        return [("one.triple.per.left.group.so.far", I(st.yields) == I(j)),
                ("pending.right.group.is.the.next.unconsumed.one", pending_ok),
                ("iterator.position", I(st.it.pos) == Ite(q < st.nR, q + 1, st.nR))]
    return inv


def _havoc_k3(st):
    def havoc(ip, env):
        c = ip.ctx
        j = env.vars["_it"]
        q = st.Q(I(j))
        if c.branch(q < st.nR):
            env.vars["name_right"], env.vars["data_right"] = st.nameR(q), st.grpR(q)
            st.it.pos = q + 1
        else:
            env.vars["name_right"], env.vars["data_right"] = None, None
            st.it.pos = st.nR
        st.yields = j
    return havoc


def _yield_k3(ip, st, v, node, env):
    c = ip.ctx
    j = env.vars["_it"]
    q = st.Q(I(j))
    matched = And(q < st.nR, st.order(I(j)) == st.nameR(q))
    name, left, right = v
    c.oblige("%s:yield.j.carries.left.group.j" % c.fname, And(I(name) == st.order(I(j)), I(left) == st.dataL(I(j))), "at_yield")
    if right is None:
        c.oblige("%s:yield.j.has.no.right.data.only.when.the.next.right.group.has.another.name" % c.fname, Not(matched), "at_yield")
    else:
        c.oblige("%s:yield.j.right.data.is.the.next.right.group.and.has.the.same.name" % c.fname, And(matched, I(right) == st.grpR(q)), "at_yield")
    c.oblige("%s:exactly.one.yield.per.left.group" % c.fname, I(st.yields) == I(j), "at_yield")
    st.yields = conc(I(st.yields) + 1)


def _ens_k3(ctx, st, ret):
    return [("completion.implies.every.right.group.was.joined", st.Q(st.nG) == st.nR),
            ("every.left.group.received.a.triple", I(st.yields) == st.nG)]


def _hints_k3(ctx, st, ks):
    out = [st.Q(st.nG), st.nameR(st.Q(st.nG))]
    for k in ks[:1]:
        out += [st.Q(k), st.Q(k + 1)]
    return out


def _left_join():
    from bionumpy.streams.left_join import left_join
    return left_join


left_join_c = Contract("C12.left_join", target=_left_join, setup=_setup_k3, requires=_req_k3, ensures=_ens_k3,
                       generator=GeneratorSpec(_yield_k3), hints=_hints_k3,
                       raises={"AssertionError": lambda ctx, st: [("only.when.a.right.group.is.left.over", st.Q(st.nG) < st.nR)],
                               "Exception": lambda ctx, st: [("only.when.a.right.group.is.left.over", st.Q(st.nG) < st.nR)]},
                       dropped=["print(next_group)", "exception message"],
                       canaries=[("right data attached to a left group of another name", "if name_left != name_right:", "if name_right is None:"),
                                 ("left-over check removed", "assert name_right is None and data_right is None", "pass"),
                                 ("right iterator not advanced after a join", "        name_right, data_right = next(grouped_right, (None, None))", "        pass")])



# ---- K4: SynchedStream.__iter__ -------------------------------------------------------------------------------------------------------
# For a contig order order(0..nG) of distinct names and ANY stream of groups (names may repeat, be unknown or out of order):
#   * the k-th yield is the table for contig k: the data of the next unconsumed group iff it carries the name order(k), else the default;
#   * groups are consumed in stream order (Q(k) = number consumed before contig k);
#   * completion implies nG yields and Q(nG) = number of groups: every group reached the contig of its own name; repeated, unknown or
#     out-of-order names can only end in StreamError;
#   * `self._contig_order[cur_contig_idx]` is never out of range (safety obligation generated from the subscript).
def _SS():
    from bionumpy.streams.multistream import SynchedStream
    return SynchedStream


class _Ident:
    def sym_call(self, ip, args, kwargs, lineno):
        return args[0]


def _setup_k4(ctx):
    st = St()
    st.nG, st.nR = z3.Int("n_contigs"), z3.Int("n_groups")
    st.order = z3.Function("order", z3.IntSort(), z3.IntSort())
    st.nameR, st.grpR = z3.Function("nameR", z3.IntSort(), z3.IntSort()), z3.Function("groupR", z3.IntSort(), z3.IntSort())
    st.Q = z3.Function("consumed_before", z3.IntSort(), z3.IntSort())
    st.it = SymIter(st.nR, lambda ip, p: (st.nameR(I(p)), st.grpR(I(p))))
    st.selfv = SRec(_SS(), _stream=Opaque("stream"), _contig_order=SymList(st.nG, lambda k: st.order(I(k))), _grouping_attribute=Opaque("chromosome"),
                    _has_default=True, _default_value=EMPTY, _key_func=_Ident())
    st.args = []
    st.yields = 0
    _h4["st"] = st
    ctx.ip.loop_specs[("SynchedStream.__iter__", 0)] = LoopSpec(_inv_k4_outer(st), _havoc_k4_outer(st))
    ctx.ip.loop_specs[("SynchedStream.__iter__", 1)] = LoopSpec(_inv_k4_inner(st), _havoc_k4_inner(st))
    ctx.ip.loop_specs[("SynchedStream.__iter__", 2)] = LoopSpec(_inv_k4_tail(st), _havoc_k4_tail(st))
    return st


_h4 = {}


def _req_k4(ctx, st):
    match = lambda j: And(st.Q(j) < st.nR, st.order(j) == st.nameR(st.Q(j)))
    ctx.assume(st.nG >= 0, st.nR >= 0, st.Q(0) == 0,
               Forall(lambda j: Implies(in_range(j, st.nG), st.Q(j + 1) == st.Q(j) + Ite(match(j), 1, 0)), triggers=[st.Q], name="Q: groups consumed before contig j (definition)"))
    return [PairForall(st.order, lambda a, b: Implies(And(in_range(a, st.nG), in_range(b, st.nG), a != b), st.order(a) != st.order(b)), name="contig names distinct")]


def _seen_ok(seen, c):
    if isinstance(seen, SymList):
        return [("seen.is.the.contigs.done", I(seen.count) == I(c)),
                ("seen.content", Forall(lambda k: Implies(in_range(k, c), seen.at(k) == _h4["st"].order(k))))]
    return [("seen.is.the.contigs.done", z3.BoolVal(len(seen) == 0 and conc(I(c) == 0) is True))]


def _inv_k4_outer(st):
    def inv(ip, env):
        p, c = env.vars["_it"], env.vars["cur_contig_idx"]
        return [("contig.index.in.range", And(I(c) >= 0, I(c) <= st.nG)),
                ("one.table.per.contig.so.far", I(st.yields) == I(c)),
                ("groups.consumed.so.far = Q(contigs done)", st.Q(I(c)) == I(p))] + _seen_ok(env.vars["seen_contig_names"], c)
    return inv


def _havoc_k4_outer(st):
    def havoc(ip, env):
        c = ip.ctx.fresh_int("cur_contig_idx")
        env.vars["cur_contig_idx"] = c
        env.vars["seen_contig_names"] = SymList(c, lambda k: st.order(I(k)))
        env.vars["used_names"] = SymList(ip.ctx.fresh_int("n_used"), lambda k: 0)
        st.yields = c
    return havoc


def _inv_k4_inner(st):
    def inv(ip, env):
        p, c, name = env.vars["_it"], env.vars["cur_contig_idx"], env.vars["name"]
        return [("contig.index.in.range", And(I(c) >= 0, I(c) <= st.nG)),
                ("one.table.per.contig.so.far", I(st.yields) == I(c)),
                ("the.current.group.is.still.unconsumed", And(st.Q(I(c)) == I(p), I(p) < st.nR, I(name) == st.nameR(I(p)))),
                ("its.name.is.not.a.contig.already.done", Forall(lambda k: Implies(in_range(k, c), st.order(k) != I(name))))] + _seen_ok(env.vars["seen_contig_names"], c)
    return inv


def _havoc_k4_inner(st):
    def havoc(ip, env):
        c = ip.ctx.fresh_int("cur_contig_idx")
        env.vars["cur_contig_idx"] = c
        env.vars["seen_contig_names"] = SymList(c, lambda k: st.order(I(k)))
        st.yields = c
    return havoc


def _inv_k4_tail(st):
    def inv(ip, env):
        t, c = env.vars["_it"], env.vars["cur_contig_idx"]
        return [("one.table.per.contig.so.far", I(st.yields) == I(c) + I(t)),
                ("no.group.is.left", st.Q(I(c) + I(t)) == st.nR)]
    return inv


def _havoc_k4_tail(st):
    def havoc(ip, env):
        st.yields = conc(I(env.vars["cur_contig_idx"]) + I(env.vars["_it"]))
    return havoc


def _yield_k4(ip, st, v, node, env):
    c = ip.ctx
    k = st.yields
    q = st.Q(I(k))
    matched = And(q < st.nR, st.order(I(k)) == st.nameR(q))
    c.oblige("%s:yield.k.is.for.a.contig.of.the.order" % c.fname, And(I(k) >= 0, I(k) < st.nG), "at_yield")
    c.oblige("%s:yield.k.is.the.group.named.order(k).or.the.default" % c.fname, I(v) == Ite(matched, st.grpR(q), EMPTY), "at_yield")
    st.yields = conc(I(k) + 1)


def _ens_k4(ctx, st, ret):
    return [("completion.implies.every.group.was.yielded.at.its.own.contig", st.Q(st.nG) == st.nR),
            ("every.contig.received.a.table (data or default)", I(st.yields) == st.nG)]


def _hints_k4(ctx, st, ks):
    out = [st.Q(st.nG)]
    for k in ks[:2]:
        out += [st.Q(k), st.Q(k + 1), st.order(k)]
    return out


synched = Contract("C12.SynchedStream.__iter__", target=lambda: _SS().__iter__, setup=_setup_k4, requires=_req_k4, ensures=_ens_k4,
                   generator=GeneratorSpec(_yield_k4), raises={"StreamError": lambda ctx, st: []}, hints=_hints_k4,
                   callees={"bionumpy.streams.decorators.streamable.__call__.<locals>.new_func": lambda ip, args, kwargs, lineno: _h4["st"].it},
                   dropped=["logger.debug / logger.info calls", "sys.stdout.flush(), sys.stderr.flush()", "exception messages"],
                   canaries=[("a skipped contig receives the group's data instead of the default", "                    yield self._default_value\n                    seen_contig_names", "                    yield data\n                    seen_contig_names"),
                             # (`if name == self._contig_order[cur_contig_idx]` -> `if True` and removing the final `remains` check are EQUIVALENT
                             #  mutants: the while loop only exits at the group's own contig, and a for loop leaves its iterator exhausted)
                             ("repeated name accepted", "if name in seen_contig_names:", "if False:"),
                             ("trailing contigs get no table", "for i in range(cur_contig_idx, len(self._contig_order)):", "for i in range(cur_contig_idx + 1, len(self._contig_order)):"),
                             ("contig index not advanced after a default", "                    cur_contig_idx += 1", "                    pass")])

CONTRACTS = [included_groups, iter_chromosomes, left_join_c, synched]


# --- the genome walk consults the context's ignored set: deriving a more tolerant context must not make the ORIGINAL context tolerant -----------------
from contracts.c10 import mk_with_ignored       # noqa: E402
CONTRACTS.append(mk_with_ignored("C12"))
