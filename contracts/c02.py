"""C02 - parsed columns mean what the file format says the text means.

Proved kernel: the field table of delimited formats - DelimitedBuffer._get_buffer_extractor with
_modify_for_carriage_return and _get_n_fields - for any number of rows r and columns c:
field (i,f) is data[start(i,f) : end(i,f)) where start is the byte after the previous delimiter (or the buffer start) and
end is the field's own delimiter; a '\\r' before the row's '\\n' is excluded from the last field of every row (uniform line
ends); entry_starts(i) = start(i,0) and entry_ends(i) - 1 is the position of the row's '\\n' - for LF and for CRLF files.
"""
import types
import z3
from pyvc.core import I, B, And, Or, Not, Implies, Ite, Min, Max, in_range, Forall, PairForall, SArr, SArr2, SRec, Opaque, conc
from pyvc.verify import Contract

ASSUMPTIONS = ["well-formed chunk: every line has exactly c fields (this is what delimiters.reshape(-1, c) needs); line ends are uniform (all LF or all CRLF)",
               "the delimiter table handed in is the one DelimitedBuffer.from_raw_buffer builds (C01-P2): -1 followed by the increasing positions of tab/newline bytes"]
NOT_PROVED = ["value decoding of every column type (digit matrix, padded matrix, ragged text, floats, lists), VCF INFO / genotype columns, "
              "header and interior-comment handling, FASTA/FASTQ line roles, SAM rest-of-line: bounded (rtc/enum_c02.py)"]


class St(types.SimpleNamespace):
    pass


def _D():
    from bionumpy.io.delimited_buffers import DelimitedBuffer
    return DelimitedBuffer


def _setup(ctx):
    st = St()
    st.N, st.r, st.c = z3.Int("N"), z3.Int("n_rows"), z3.Int("n_cols")
    st.D = z3.Function("D", z3.IntSort(), z3.IntSort())
    st.dl = z3.Function("delim", z3.IntSort(), z3.IntSort())
    st.crlf = z3.Bool("crlf")
    st.data = SArr.fresh(st.N, lambda p: st.D(I(p)), enc="BaseEncoding")
    st.args = [_D(), st.data, SArr.fresh(st.r * st.c + 1, lambda t: st.dl(I(t))), st.c]
    return st


def nl(st, i):
    return st.dl((I(i) + 1) * st.c)


def _req(ctx, st):
    m = st.r * st.c
    ctx.index_terms.append(z3.IntVal(0))          # the code inspects row 0: instantiate the row hypotheses there too
    return [st.r >= 1, st.c >= 1, st.N == st.dl(m) + 1, st.dl(0) == -1,
            Forall(lambda t: Implies(And(I(t) >= 1, I(t) <= m), And(in_range(st.dl(t), st.N), st.dl(t - 1) < st.dl(t))), triggers=[st.dl], name="delimiters strictly increasing inside the data"),
            PairForall(st.dl, lambda a, b: Implies(And(a >= 0, a < b, b <= m), st.dl(a) < st.dl(b)), name="L4 strictly increasing"),
            Forall(lambda i: Implies(in_range(i, st.r), And(st.D(nl(st, i)) == 10, nl(st, i) >= 1, (st.D(nl(st, i) - 1) == 13) == st.crlf,
                                                            Implies(st.crlf, st.dl((I(i) + 1) * st.c - 1) < nl(st, i) - 1))),
                   triggers=[], name="every row ends in a newline; line ends uniform; a CR is not itself a delimiter position")]


def _ens(ctx, st, ret):
    fs, fl = ret.get("_field_starts"), ret.get("_field_lens")
    es, ee = ret.get("_entry_starts"), ret.get("_entry_ends")
    end = lambda i, f: I(fs.at2(i, f)) + I(fl.at2(i, f))
    return [("shape", And(I(fs.rows) == st.r, I(fs.cols) == st.c, I(es.length) == st.r, I(ee.length) == st.r)),
            ("field.starts.after.previous.delimiter", Forall(lambda i, f: Implies(And(in_range(i, st.r), in_range(f, st.c)), fs.at2(i, f) == st.dl(I(i) * st.c + I(f)) + 1), nvars=2)),
            ("field.ends.at.its.delimiter (CR excluded from the last field)",
             Forall(lambda i, f: Implies(And(in_range(i, st.r), in_range(f, st.c)),
                                         end(i, f) == st.dl(I(i) * st.c + I(f) + 1) - Ite(And(I(f) == st.c - 1, st.crlf), 1, 0)), nvars=2)),
            ("entry.starts", Forall(lambda i: Implies(in_range(i, st.r), es.at(i) == st.dl(I(i) * st.c) + 1))),
            ("entry.ends.just.after.the.row's.newline (LF and CRLF)", Forall(lambda i: Implies(in_range(i, st.r), I(ee.at(i)) - 1 == nl(st, i)))),
            ("data.kept", ret.get("_data") is st.data)]


def _concretize(model, ctx, st, oid):
    """replay: a two-row CRLF / LF BED file through the real buffer class"""
    import numpy as np
    from bionumpy.io.delimited_buffers import BedBuffer
    if "entry.ends" not in oid:
        return None
    crlf = bool(model.eval(st.crlf, model_completion=True))
    eol = "\r\n" if crlf else "\n"
    text = ("chr1\t1\t20" + eol + "chr2\t300\t4" + eol).encode()
    buf = BedBuffer.from_raw_buffer(np.frombuffer(text, dtype=np.uint8))
    x = buf._buffer_extractor
    ends = [int(e) for e in x._entry_ends]
    exp = [i + 1 for i, b in enumerate(text) if b == 10]
    return {"reproduced": ends != exp, "input": {"chunk": text.decode()}, "observed_entry_ends": ends, "expected(one past each newline)": exp}


buffer_extractor = Contract("C02.DelimitedBuffer._get_buffer_extractor", target=lambda: _D()._get_buffer_extractor.__func__, setup=_setup, requires=_req, ensures=_ens,
                            concretize=_concretize, decorators={"@classmethod": "receiver is the class"},
                            hints=lambda ctx, st, ks: [st.dl(I(k) * st.c) for k in ks[:1]] + [st.dl((I(k) + 1) * st.c) for k in ks[:1]] + ([ks[0] * st.c + ks[1], ks[0] * st.c + ks[1] + 1] if len(ks) > 1 else []),
                            canaries=[("field starts at the delimiter itself", "delimiters[:-1].reshape(-1, n_cols) + 1", "delimiters[:-1].reshape(-1, n_cols)"),
                                      ("entry ends before the newline", "entry_ends = ends[:, -1] + 1", "entry_ends = ends[:, -1]")])

CONTRACTS = [buffer_extractor]


# --- FASTA / FASTQ line roles: OneLineBuffer._get_buffer_extractor for the real subclasses with 2 and 4 lines per entry -------------------------
# field l of entry e is line e*n + l without its first _line_offsets[l] bytes (the header marker) and without a trailing '\r';
# an entry spans from the start of its first line to just after the newline of its last line.
def _olb(name):
    from bionumpy.io.one_line_buffer import TwoLineFastaBuffer
    from bionumpy.io.fastq_buffer import FastQBuffer
    return {"TwoLineFastaBuffer": TwoLineFastaBuffer, "FastQBuffer": FastQBuffer}[name]


def _setup_olb(name):
    def setup(ctx):
        st = St()
        st.cls = _olb(name)
        st.nper, st.offs = st.cls.n_lines_per_entry, tuple(st.cls._line_offsets)
        st.N, st.r = z3.Int("N"), z3.Int("n_entries")
        st.D = z3.Function("D", z3.IntSort(), z3.IntSort())
        st.NL = z3.Function("NL", z3.IntSort(), z3.IntSort())
        st.crlf = z3.Bool("crlf")
        st.data = SArr.fresh(st.N, lambda p: st.D(I(p)), enc="BaseEncoding")
        st.args = [st.cls, st.data, SArr.fresh(st.r * st.nper, lambda t: st.NL(I(t)))]
        return st
    return setup


def _req_olb(ctx, st):
    m = st.r * st.nper
    ctx.index_terms.append(z3.IntVal(0))
    line_start = lambda t: Ite(I(t) == 0, 0, st.NL(I(t) - 1) + 1)
    st.cr = z3.Function("line_ends_with_CR", z3.IntSort(), z3.BoolSort())
    # CRLF input: the first header line ends with CR; every other line may or may not (a file without a final line terminator gets a bare
    # "\n" appended by the reader, so its last line has no CR).  LF input: no line ends with CR.
    return [st.r >= 1, st.N == st.NL(m - 1) + 1, st.cr(0) == st.crlf,
            Forall(lambda t: Implies(in_range(t, m), And(in_range(st.NL(t), st.N), st.D(st.NL(t)) == 10, Implies(t + 1 < m, st.NL(t) < st.NL(t + 1)),
                                                         (st.D(st.NL(t) - 1) == 13) == st.cr(t), Implies(st.cr(t), st.crlf),
                                                         st.NL(t) >= line_start(t) + 1, Implies(st.cr(t), st.NL(t) >= line_start(t) + 2))),
                   triggers=[st.NL], name="new_lines: increasing newline positions; CR only in CRLF input; no empty line (a header line has at least its marker)")]


def _ens_olb(ctx, st, ret):
    fs, fl = ret.get("_field_starts"), ret.get("_field_lens")
    es, ee = ret.get("_entry_starts"), ret.get("_entry_ends")
    n = st.nper
    line_start = lambda t: Ite(I(t) == 0, 0, st.NL(I(t) - 1) + 1)
    goals = [("shape", And(I(fs.rows) == st.r, I(fs.cols) == n, I(es.length) == st.r, I(ee.length) == st.r))]
    for l in range(n):
        goals.append(("line.%d.of.every.entry.is.field.%d (marker offset %d, CR stripped)" % (l, l, st.offs[l]),
                      Forall(lambda e, l=l: Implies(in_range(e, st.r), And(fs.at2(e, l) == line_start(I(e) * n + l) + st.offs[l],
                                                                       I(fs.at2(e, l)) + I(fl.at2(e, l)) == st.NL(I(e) * n + l) - Ite(st.cr(I(e) * n + l), 1, 0))))))
    goals += [("entry.starts.at.its.first.line", Forall(lambda e: Implies(in_range(e, st.r), es.at(e) == line_start(I(e) * n)))),
              ("entry.ends.after.the.newline.of.its.last.line", Forall(lambda e: Implies(in_range(e, st.r), I(ee.at(e)) - 1 == st.NL(I(e) * n + n - 1))))]
    return goals


def _mk_olb(name):
    return Contract("C02.OneLineBuffer._get_buffer_extractor[%s]" % name, target=lambda: _olb(name)._get_buffer_extractor.__func__, setup=_setup_olb(name),
                    requires=_req_olb, ensures=_ens_olb,
                    hints=lambda ctx, st, ks: [st.NL(I(k) * st.nper + l) for k in ks[:1] for l in range(-1, st.nper)],
                    decorators={"@classmethod": "receiver is the real subclass"},
                    canaries=[("CR assumed on every line once seen", "return field_ends - (data[field_ends-1] == '\\r')", "return field_ends - 1", lambda: _olb(name)._modify_for_carriage_return.__func__),
                              ("marker offset dropped", "+(np.array(cls._line_offsets))", "+(0*np.array(cls._line_offsets))"),
                              ("entry ends one line early", "entry_ends = tmp[::cls.n_lines_per_entry][1:]", "entry_ends = tmp[cls.n_lines_per_entry-1::cls.n_lines_per_entry]")])


olb_fasta, olb_fastq = _mk_olb("TwoLineFastaBuffer"), _mk_olb("FastQBuffer")
CONTRACTS += [olb_fasta, olb_fastq]


# --- VCF: POS is 1-based in the file and 0-based in memory: VCFBuffer._get_field_by_number subtracts 1 from field 1 and from no other field -----------
def _VB():
    from bionumpy.io.vcf_buffers import VCFBuffer
    return VCFBuffer


_hv = {}


def _setup_vcf_field(nr):
    def setup(ctx):
        st = St()
        st.n = z3.Int("n")
        st.parsed = z3.Function("parsed_text_value", z3.IntSort(), z3.IntSort())
        st.selfv = SRec(_VB())
        st.args = [nr, int]
        _hv["st"] = st
        return st
    return setup


def _parsed(ip, args, kwargs, lineno):
    st = _hv["st"]
    st.col = SArr.fresh(st.n, lambda i: st.parsed(I(i)))
    return st.col


vcf_pos = Contract("C02.VCFBuffer._get_field_by_number[POS]", target=lambda: _VB()._get_field_by_number, setup=_setup_vcf_field(1), requires=lambda ctx, st: [st.n >= 0],
                   ensures=lambda ctx, st, ret: [("position = POS - 1", Forall(lambda i: Implies(in_range(i, st.n), I(ret.at(i)) == st.parsed(i) - 1))), ("rows", I(ret.length) == st.n)],
                   callees={"bionumpy.io.delimited_buffers.DelimitedBuffer._get_field_by_number": _parsed},
                   canaries=[("POS kept 1-based", "val -= 1", "val -= 0"), ("wrong column shifted", "if field_nr == 1:", "if field_nr == 2:")])
vcf_other = Contract("C02.VCFBuffer._get_field_by_number[other column]", target=lambda: _VB()._get_field_by_number, setup=_setup_vcf_field(5), requires=lambda ctx, st: [st.n >= 0],
                     ensures=lambda ctx, st, ret: [("value.as.parsed", Forall(lambda i: Implies(in_range(i, st.n), I(ret.at(i)) == st.parsed(i)))), ("rows", I(ret.length) == st.n)],
                     callees={"bionumpy.io.delimited_buffers.DelimitedBuffer._get_field_by_number": _parsed},
                     canaries=[("every column shifted", "if field_nr == 1:", "if field_nr >= 1:")])
CONTRACTS += [vcf_pos, vcf_other]


# --- the dispatcher in front of the digit matrix (int columns): '+' / '-' signed columns never reach the digits-only path (contract shared with C18)
from contracts.c18 import mk_digit_dispatch      # noqa: E402
CONTRACTS.append(mk_digit_dispatch("C02"))
