"""C03 - write then read returns the same table; writing is canonical and composable.

Proved kernel: the FASTA wrapping arithmetic of MultiLineFastaBuffer.from_data for ANY line width W >= 1 and any
sequence lengths L >= 1 - the line-length table that decides the record layout (lines per entry, last-line length,
header line, where every line of every record sits).  The function is verified up to the statement that completes the
table (a PREFIX of the function, stated in the evidence); scattering the text into the pre-allocated lines is
npstructures ragged assignment: bounded only.
"""
import types
import z3
from pyvc.core import I, B, And, Or, Not, Implies, Ite, Min, Max, in_range, Forall, SArr, SArr2, SRec, Opaque, conc
from pyvc import npmodel as M
from pyvc.pybuiltins import STable
from pyvc.verify import Contract

ASSUMPTIONS = ["the class attribute n_characters_per_line is a positive integer (80 in the repository; proved for every W >= 1)"]
NOT_PROVED = ["text placement into the line table of the WRAPPED FASTA writer (EncodedRaggedArray item assignment after the proved prefix), "
              "join_columns / delimited serialisation (dump_csv), FastQBuffer.join_fields' insertion of the '+' line and the from_data plumbing around "
              "join_fields, gzip, append mode, float formatting: bounded (rtc/enum_c03.py)",
              "read-back equality: bounded"]


class St(types.SimpleNamespace):
    pass


def _F():
    from bionumpy.io.multiline_buffer import MultiLineFastaBuffer
    return MultiLineFastaBuffer


def _setup(ctx):
    st = St()
    st.n, st.W = z3.Int("n_entries"), z3.Int("W")
    st.L = z3.Function("seqlen", z3.IntSort(), z3.IntSort())
    st.NL = z3.Function("namelen", z3.IntSort(), z3.IntSort())
    cls = SRec(_F(), n_characters_per_line=st.W)
    entries = STable({"name": SRec(None, lengths=SArr.fresh(st.n, lambda e: st.NL(I(e)))),
                      "sequence": SRec(None, lengths=SArr.fresh(st.n, lambda e: st.L(I(e))))}, st.n)
    st.args = [cls, entries]
    return st


def _req(ctx, st):
    return [st.n >= 0, st.W >= 1,
            Forall(lambda e: Implies(in_range(e, st.n), st.L(e) >= 1), triggers=[st.L], name="sequences are non-empty (values representable)"),
            Forall(lambda e: Implies(in_range(e, st.n), st.NL(e) >= 0), triggers=[st.NL], name="name lengths >= 0")]


def _ens(ctx, st, loc):
    ll, ES, nl, last = loc["line_lengths"], loc["entry_starts"], loc["n_lines"], loc["last_length"]
    st.ES = ES
    return [
        ("wrap: every line but the last carries W bases, the last 1..W, total = L",
         Forall(lambda e: Implies(in_range(e, st.n), And(I(nl.at(e)) >= 1, I(last.at(e)) >= 1, I(last.at(e)) <= st.W,
                                                         (I(nl.at(e)) - 1) * st.W + I(last.at(e)) == st.L(e))))),
        ("entry_starts.first", ES.at(0) == 0),
        ("entry_starts.are.prefix.sums", Forall(lambda e: Implies(in_range(e, st.n), ES.at(e + 1) == I(ES.at(e)) + I(nl.at(e)) + 1))),
        ("one.length.per.line", I(ll.length) == I(ES.at(st.n))),
        ("header.line", Forall(lambda e: Implies(in_range(e, st.n), ll.at(ES.at(e)) == st.NL(e) + 2))),
        ("last.sequence.line", Forall(lambda e: Implies(in_range(e, st.n), ll.at(I(ES.at(e + 1)) - 1) == I(last.at(e)) + 1))),
        ("full.lines", Forall(lambda e, t: Implies(And(in_range(e, st.n), I(ES.at(e)) < t, t < I(ES.at(e + 1)) - 1), ll.at(t) == st.W + 1), nvars=2)),
    ]


def _hints(ctx, st, ks):
    ES = getattr(st, "ES", None)
    if ES is None:
        return []
    out = []
    for k in ks[:1]:
        out += [ES.at(k), ES.at(k + 1)]
    return out


from_data = Contract("C03.MultiLineFastaBuffer.from_data[line table]", target=lambda: _F().from_data.__func__, setup=_setup, requires=_req, ensures=_ens,
                     hints=_hints, timeout_ms=120000, rounds=2, stop_after="line_lengths[entry_starts[1:]-1] = last_length + 1",
                     decorators={"@classmethod": "receiver is the class (its n_characters_per_line made symbolic)"},
                     note="PREFIX of the function: verified up to and including `line_lengths[entry_starts[1:]-1] = last_length + 1`",
                     canaries=[("multiple of W gets an extra empty line", "(sequence_lengths-1) // (cls.n_characters_per_line) + 1", "(sequence_lengths) // (cls.n_characters_per_line) + 1"),
                               ("last length off", "(sequence_lengths-1) % cls.n_characters_per_line + 1", "(sequence_lengths) % cls.n_characters_per_line"),
                               ("header length", "name_lengths + 2", "name_lengths + 1")])

CONTRACTS = [from_data]


# --- NpBufferedWriter.write: the header is emitted exactly once -----------------------------------------------------------------------------
# Class invariant of a writer: `_header_written` is true iff this writer has emitted the header bytes.  Contract of one write(table) call:
#   bytes emitted = [header, iff the buffer type has make_header, the file is not opened in append mode 'ab' and no header was emitted before]
#                   ++ [from_data(table), iff the table is not empty],
# and the invariant holds again.  By induction over the calls any split of the rows into successive writes emits the header once.
from pyvc.core import SFile


def _W():
    from bionumpy.io.parser import NpBufferedWriter
    return NpBufferedWriter


class _BT:
    def __init__(self, st, has_header):
        self.st, self.has_header = st, has_header

    def sym_hasattr(self, name):
        return name == "make_header" and self.has_header

    def getattr(self, ip, name, lineno):
        st = self.st

        class _F:
            def __init__(s_, what):
                s_.what = what

            def sym_call(s_, ip, args, kwargs, lineno):
                if s_.what == "make_header":
                    return "HEADER-BYTES"
                return st.body
        if name in ("make_header", "from_data"):
            return _F(name)
        raise Exception("buffer type attribute " + name)


def _setup_w(mode, hw, has_header):
    def setup(ctx):
        st = St()
        st.n = z3.Int("n_rows")
        st.body = SArr.fresh(z3.Int("body_len"), lambda p: z3.Function("body", z3.IntSort(), z3.IntSort())(I(p)))
        st.file = SFile(0, lambda p: 0)
        st.file.mode = mode
        st.file.writes = []
        st.mode, st.hw, st.has_header = mode, hw, has_header
        st.selfv = SRec(_W(), _file_obj=st.file, _buffer_type=_BT(st, has_header), _header_written=hw, _f_name="f")
        st.args = [STable({"chromosome": SArr.fresh(st.n, lambda i: 0)}, st.n)]
        ctx.assume(st.n >= 0)
        return st
    return setup


def _ens_w(ctx, st, ret):
    expect_header = st.has_header and st.mode != "ab" and not st.hw
    w = st.file.writes
    emitted_header = len(w) > 0 and w[0] == "HEADER-BYTES"
    n_body = len([x for x in w if x is not "HEADER-BYTES"])
    return [("header.emitted.iff.due", emitted_header == expect_header),
            ("header.at.most.once.per.call", len([x for x in w if x == "HEADER-BYTES"]) <= 1),
            ("invariant: flag set iff a header has been emitted by this writer", bool(st.selfv.get("_header_written")) == (st.hw or emitted_header)),
            ("body.emitted.iff.the.table.is.not.empty", Ite(st.n > 0, n_body == 1, n_body == 0)),
            ("body.is.from_data(table)", n_body == 0 or any(x is st.body for x in w))]


WRITERS = []
for mode in ("wb", "ab"):
    for hw in (False, True):
        for hh in (True, False):
            WRITERS.append(Contract("C03.NpBufferedWriter.write[mode=%s,header already written=%s,buffer has header=%s]" % (mode, hw, hh),
                                    target=lambda: _W().write, setup=_setup_w(mode, hw, hh), ensures=_ens_w,
                                    dropped=["docstring", "logger.debug call"],
                                    canaries=[("flag set only after a body was written", "                self._header_written = True\n", "                pass\n")] if (mode == "wb" and not hw and hh) else []))
CONTRACTS += WRITERS


# --- VCF: POS is 0-based in memory and 1-based in the file: +1 on BOTH write paths, on a NEW column (the table being written is not touched) ---------
def _VB():
    from bionumpy.io.vcf_buffers import VCFBuffer
    return VCFBuffer


class _Capture:
    def __init__(self, st):
        self.st = st

    def __call__(self, ip, args, kwargs, lineno):
        self.st.passed_on = args[-1] if args else None
        return Opaque("buffer bytes (DelimitedBuffer.from_data)")


def _setup_vcf_fd(ctx):
    st = St()
    st.n = z3.Int("n")
    st.pos, st.other = z3.Function("position", z3.IntSort(), z3.IntSort()), z3.Function("other", z3.IntSort(), z3.IntSort())
    st.pcol, st.ocol = SArr.fresh(st.n, lambda i: st.pos(I(i))), SArr.fresh(st.n, lambda i: st.other(I(i)))
    st.p_at0 = st.pcol.buf.at
    st.table = STable({"chromosome": st.ocol, "position": st.pcol}, st.n)
    st.args = [_VB(), st.table]
    st.passed_on = None
    _hv["st"] = st
    return st


_hv = {}


def _ens_vcf_fd(ctx, st, ret):
    t = st.passed_on
    return [("the.generic.writer.receives.a.table", isinstance(t, STable)),
            ("written.POS = position + 1", Forall(lambda i: Implies(in_range(i, st.n), I(t.cols["position"].at(i)) == st.pos(i) + 1)) if isinstance(t, STable) else False),
            ("rows", I(t.cols["position"].length) == st.n if isinstance(t, STable) else False),
            ("other.columns.passed.through", isinstance(t, STable) and t.cols["chromosome"] is st.ocol),
            ("frame: the table being written keeps its position column (no in-place +1)", st.pcol.buf.at is st.p_at0 and st.table.cols["position"] is st.pcol)]


vcf_from_data = Contract("C03.VCFBuffer.from_data[POS+1]", target=lambda: _VB().from_data.__func__, setup=_setup_vcf_fd, requires=lambda ctx, st: [st.n >= 0],
                         ensures=_ens_vcf_fd, decorators={"@classmethod": "receiver is the class"},
                         callees={"bionumpy.io.delimited_buffers.DelimitedBuffer.from_data": lambda ip, args, kwargs, lineno: _Capture(_hv["st"])(ip, args, kwargs, lineno)},
                         canaries=[("POS written 0-based", "position=data.position + 1", "position=data.position + 0"),
                                   ("+1 applied in place on the caller's column", "data = dataclasses.replace(data, position=data.position + 1)", "data.position += 1")])


def _setup_vcf_pf(name):
    def setup(ctx):
        st = St()
        st.n = z3.Int("n")
        st.val = z3.Function("value", z3.IntSort(), z3.IntSort())
        st.col = SArr.fresh(st.n, lambda i: st.val(I(i)))
        st.at0 = st.col.buf.at
        st.args = [_VB(), name, st.col]
        return st
    return setup


vcf_field_pos = Contract("C03.VCFBuffer.process_field_for_write[position]", target=lambda: _VB().process_field_for_write.__func__, setup=_setup_vcf_pf("position"),
                         requires=lambda ctx, st: [st.n >= 0],
                         ensures=lambda ctx, st, ret: [("written.POS = position + 1", Forall(lambda i: Implies(in_range(i, st.n), I(ret.at(i)) == st.val(i) + 1))),
                                                       ("rows", I(ret.length) == st.n), ("frame: column not modified", st.col.buf.at is st.at0)],
                         decorators={"@classmethod": "receiver is the class"},
                         canaries=[("lazy write path forgets the +1", "return value+1", "return value")])
vcf_field_other = Contract("C03.VCFBuffer.process_field_for_write[other field]", target=lambda: _VB().process_field_for_write.__func__, setup=_setup_vcf_pf("ref_seq"),
                           requires=lambda ctx, st: [st.n >= 0],
                           ensures=lambda ctx, st, ret: [("other.fields.unchanged", ret is st.col)],
                           decorators={"@classmethod": "receiver is the class"},
                           callees={"bionumpy.io.delimited_buffers.DelimitedBuffer.process_field_for_write": lambda ip, args, kwargs, lineno: args[-1]},
                           canaries=[("every field shifted", "if field_name == 'position':", "if True:")])
CONTRACTS += [vcf_from_data, vcf_field_pos, vcf_field_other]


# --- FASTA / FASTQ record layout: OneLineBuffer.join_fields for the real subclasses (2 and 4 lines per entry) ---------------------------------------
# For ANY number of entries n >= 1 and ANY field texts: the returned flat buffer is, entry after entry, line after line,
#     [marker (line 0 only)] field text  '\n'
# with line r of the buffer starting at C(r), C = prefix sums of the line lengths len(field) + 1 (+1 for the marker line).  The ragged line view
# `lines` shares the flat buffer: the stores through it are written through (heap-backed ragged array, exact ragged stores).
from pyvc.pybuiltins import SRaggedObj       # noqa: E402


def _OLB(name):
    import bionumpy.io.one_line_buffer as m1
    import bionumpy.io.fastq_buffer as m2
    return getattr(m1, name, None) or getattr(m2, name)


def _mk_jf(name, base_join=False):
    cls = _OLB(name)
    F = cls.n_lines_per_entry

    def setup(ctx):
        st = St()
        ctx.ragged_heap = True
        st.n = z3.Int("n_entries")
        st.Ls = [z3.Function("len_field%d" % f, z3.IntSort(), z3.IntSort()) for f in range(F)]
        st.chs = [z3.Function("char_field%d" % f, z3.IntSort(), z3.IntSort(), z3.IntSort()) for f in range(F)]
        st.fields = []
        for f in range(F):
            fl = (lambda i, f=f: st.Ls[f](I(i)))
            C = M.exclusive_prefix(fl, st.n)
            r = SRaggedObj(None, st.n, lambda i, C=C: C(I(i)), fl, "BaseEncoding", C(st.n), contiguous=True, C=C)
            r.at = (lambda i, k, f=f: st.chs[f](I(i), I(k)))
            st.fields.append(r)
        st.args = [cls, list(st.fields)]
        return st

    def req(ctx, st):
        out = [st.n >= 1]
        for f in range(F):
            out.append(Forall(lambda i, f=f: Implies(in_range(i, st.n), st.Ls[f](i) >= 0), triggers=[st.Ls[f]], name="field %d: row lengths >= 0" % f))
        return out

    offs = cls._line_offsets

    def ghost(ip, env, st):
        """lemma by induction over the entries: the prefix sum of the raveled line lengths at row F*e is the prefix sum of the entry lengths at e"""
        el, ll = env.vars["entry_lengths"], env.vars["line_lengths"]
        fe = el.snapshot()
        CE = M.exclusive_prefix(fe, el.length, el)
        flat = ip.call_method(ll, "ravel", [], {}, None)
        ff = flat.snapshot()
        CL = M.exclusive_prefix(ff, flat.length, flat)
        st.CL, st.CE, st.ff = CL, CE, ff
        c = ip.ctx
        # unfold the recurrence of CL over one entry (F steps): hint terms are supplied through `hints`
        c.induct("C03.OneLineBuffer.join_fields[%s]:lemma.line.offsets.of.entry.e" % name, lambda e: CL(F * I(e)) == CE(I(e)), CE, lo=0, hi=st.n)

    def ens(ctx, st, ret):
        loc = st.ip.last_locals
        lines = loc["lines"]
        C = lines.C
        st.C = C
        goals = [("n.lines", I(lines.n) == F * st.n)]
        for f in range(F):
            goals.append(("line.%d.of.every.entry.has.length.len(field)+1%s" % (f, "+marker" if offs[f] else ""),
                          Forall(lambda e, f=f: Implies(in_range(e, st.n), I(lines.lens(F * I(e) + f)) == st.Ls[f](e) + 1 + offs[f]))))
            goals.append(("line.%d: field text" % f,
                          Forall(lambda e, k, f=f: Implies(And(in_range(e, st.n), in_range(k, st.Ls[f](e))),
                                                          I(ret.at(C(F * I(e) + f) + offs[f] + I(k))) == st.chs[f](e, k)), nvars=2)))
            goals.append(("line.%d: newline at its end" % f,
                          Forall(lambda e, f=f: Implies(in_range(e, st.n), I(ret.at(C(F * I(e) + f) + offs[f] + st.Ls[f](e))) == 10))))
        goals.append(("marker.at.the.start.of.every.entry", Forall(lambda e: Implies(in_range(e, st.n), I(ret.at(C(F * I(e)))) == ord(cls.HEADER)))))
        goals.append(("buffer.size.is.the.sum.of.the.line.lengths", I(ret.length) == C(F * st.n)))
        return goals

    def hints(ctx, st, ks):
        out = []
        C = getattr(st, "C", None)
        if C is None:
            C = getattr(st, "CL", None)
        if C is None:
            return out
        for k in ks[:1]:
            for f in range(F + 1):
                out.append(C(F * I(k) + f))
            out += [F * I(k) + f for f in range(F + 1)]
            if hasattr(st, "CE"):
                out += [st.CE(k), st.CE(I(k) + 1)]
        return out
    return Contract("C03.OneLineBuffer.join_fields[%s%s]" % (name, ": the generic layout with 4 lines per entry (the '+' line is one of the fields)" if base_join else ""), target=lambda: (_OLB("OneLineBuffer") if base_join else cls).join_fields.__func__, setup=setup, requires=req, ensures=ens,
                    hints=hints, ghost=[("buf = EncodedArray(np.empty(buffer_size", ghost)], timeout_ms=60000, rounds=2,
                    decorators={"@classmethod": "receiver is the real subclass"},
                    canaries=[("marker overwrites the first character", "line_lengths[:, i] += cls._line_offsets[i]", "line_lengths[:, i] += 0"),
                              ("newline one position early", 'lines[:, -1] = "\\n"', 'lines[:, -2] = "\\n"'),
                              ("fields written to the wrong line", "lines[i::step, cls._line_offsets[i]:-1] = field", "lines[(i+1)%step::step, cls._line_offsets[i]:-1] = field")])


CONTRACTS += [_mk_jf("TwoLineFastaBuffer"), _mk_jf("FastQBuffer", base_join=True)]


# --- writing an unmodified selection hands on the compacted raw text (contract proved for C04)
from contracts import clone_for as _clone      # noqa: E402
from contracts import c04 as _c04               # noqa: E402
CONTRACTS += [_clone(_c04.make_contiguous, "C03"), _clone(_c04.cat2_mixed[0], "C03")]
