"""C03 - write then read returns the same table; writing is canonical and composable.

Proved kernel: the FASTA wrapping arithmetic of MultiLineFastaBuffer.from_data for ANY line width W >= 1 and any
sequence lengths L >= 1 - the line-length table that decides the record layout (lines per entry, last-line length,
header line, where every line of every record sits).  The function is verified up to the statement that completes the
table (a PREFIX of the function, stated in the evidence); scattering the text into the pre-allocated lines is
npstructures ragged assignment: bounded only.
"""
import types
import z3
from pyvc.core import I, B, And, Or, Not, Implies, Ite, Min, Max, in_range, Forall, SArr, SArr2, SRec, Opaque, conc
from pyvc import npmodel as M
from pyvc.pybuiltins import STable
from pyvc.verify import Contract

ASSUMPTIONS = ["the class attribute n_characters_per_line is a positive integer (80 in the repository; proved for every W >= 1)"]
NOT_PROVED = ["text placement into the line table (EncodedRaggedArray item assignment), join_columns / delimited serialisation, "
              "header-once logic across write calls, gzip, append mode, float formatting: bounded (rtc/enum_c03.py)",
              "read-back equality: bounded"]


class St(types.SimpleNamespace):
    pass


def _F():
    from bionumpy.io.multiline_buffer import MultiLineFastaBuffer
    return MultiLineFastaBuffer


def _setup(ctx):
    st = St()
    st.n, st.W = z3.Int("n_entries"), z3.Int("W")
    st.L = z3.Function("seqlen", z3.IntSort(), z3.IntSort())
    st.NL = z3.Function("namelen", z3.IntSort(), z3.IntSort())
    cls = SRec(_F(), n_characters_per_line=st.W)
    entries = STable({"name": SRec(None, lengths=SArr.fresh(st.n, lambda e: st.NL(I(e)))),
                      "sequence": SRec(None, lengths=SArr.fresh(st.n, lambda e: st.L(I(e))))}, st.n)
    st.args = [cls, entries]
    return st


def _req(ctx, st):
    return [st.n >= 0, st.W >= 1,
            Forall(lambda e: Implies(in_range(e, st.n), st.L(e) >= 1), triggers=[st.L], name="sequences are non-empty (values representable)"),
            Forall(lambda e: Implies(in_range(e, st.n), st.NL(e) >= 0), triggers=[st.NL], name="name lengths >= 0")]


def _ens(ctx, st, loc):
    ll, ES, nl, last = loc["line_lengths"], loc["entry_starts"], loc["n_lines"], loc["last_length"]
    st.ES = ES
    return [
        ("wrap: every line but the last carries W bases, the last 1..W, total = L",
         Forall(lambda e: Implies(in_range(e, st.n), And(I(nl.at(e)) >= 1, I(last.at(e)) >= 1, I(last.at(e)) <= st.W,
                                                         (I(nl.at(e)) - 1) * st.W + I(last.at(e)) == st.L(e))))),
        ("entry_starts.first", ES.at(0) == 0),
        ("entry_starts.are.prefix.sums", Forall(lambda e: Implies(in_range(e, st.n), ES.at(e + 1) == I(ES.at(e)) + I(nl.at(e)) + 1))),
        ("one.length.per.line", I(ll.length) == I(ES.at(st.n))),
        ("header.line", Forall(lambda e: Implies(in_range(e, st.n), ll.at(ES.at(e)) == st.NL(e) + 2))),
        ("last.sequence.line", Forall(lambda e: Implies(in_range(e, st.n), ll.at(I(ES.at(e + 1)) - 1) == I(last.at(e)) + 1))),
        ("full.lines", Forall(lambda e, t: Implies(And(in_range(e, st.n), I(ES.at(e)) < t, t < I(ES.at(e + 1)) - 1), ll.at(t) == st.W + 1), nvars=2)),
    ]


def _hints(ctx, st, ks):
    ES = getattr(st, "ES", None)
    if ES is None:
        return []
    out = []
    for k in ks[:1]:
        out += [ES.at(k), ES.at(k + 1)]
    return out


from_data = Contract("C03.MultiLineFastaBuffer.from_data[line table]", target=lambda: _F().from_data.__func__, setup=_setup, requires=_req, ensures=_ens,
                     hints=_hints, timeout_ms=120000, rounds=2, stop_after="line_lengths[entry_starts[1:]-1] = last_length + 1",
                     decorators={"@classmethod": "receiver is the class (its n_characters_per_line made symbolic)"},
                     note="PREFIX of the function: verified up to and including `line_lengths[entry_starts[1:]-1] = last_length + 1`",
                     canaries=[("multiple of W gets an extra empty line", "(sequence_lengths-1) // (cls.n_characters_per_line) + 1", "(sequence_lengths) // (cls.n_characters_per_line) + 1"),
                               ("last length off", "(sequence_lengths-1) % cls.n_characters_per_line + 1", "(sequence_lengths) % cls.n_characters_per_line"),
                               ("header length", "name_lengths + 2", "name_lengths + 1")])

CONTRACTS = [from_data]
