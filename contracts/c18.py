"""C18 - numbers survive conversion between text and arrays.

Proved kernel: the digit count used by ints_to_strings / int_to_str (io/strops.py::_n_decimal_digits, an exact search in
a table of powers of ten): for EVERY magnitude 0 <= x < 2**63 the result is the number of decimal digits of x
(1 for x < 10, d+1 for 10**d <= x < 10**(d+1), 19 for x >= 10**18) - a 19-case split over the real table.
"""
import types
import z3
from pyvc.core import I, B, And, Or, Not, Implies, Ite, in_range, Forall, SArr, conc
from pyvc.verify import Contract

ASSUMPTIONS = ["np.searchsorted(table, x, side='right') bracketing contract (validated bounded)", "magnitudes are mathematical integers below 2**63"]
NOT_PROVED = ["digit placement through the ragged power table (_build_power_array), sign handling of str_to_int, int_lists_to_strings, float parsing and "
              "formatting (floating point), batch independence: bounded (rtc/enum_c18.py)", "np.abs(-2**63) overflow: known finding"]


class St(types.SimpleNamespace):
    pass


def _f():
    from bionumpy.io import strops
    return strops._n_decimal_digits


def _setup(ctx):
    st = St()
    st.n = z3.Int("n")
    st.x = z3.Function("x", z3.IntSort(), z3.IntSort())
    st.args = [SArr.fresh(st.n, lambda i: st.x(I(i)))]
    return st


def _req(ctx, st):
    return [st.n >= 0, Forall(lambda i: Implies(in_range(i, st.n), And(st.x(i) >= 0, st.x(i) < 2 ** 63)), triggers=[st.x], name="magnitudes in [0, 2**63)")]


def _ens(ctx, st, ret):
    goals = [("length", ret.length == st.n),
             ("one.digit", Forall(lambda i: Implies(And(in_range(i, st.n), st.x(i) < 10), ret.at(i) == 1)))]
    for d in range(1, 18):
        goals.append(("digits.%d" % (d + 1), Forall(lambda i, d=d: Implies(And(in_range(i, st.n), st.x(i) >= 10 ** d, st.x(i) < 10 ** (d + 1)), ret.at(i) == d + 1))))
    goals.append(("digits.19", Forall(lambda i: Implies(And(in_range(i, st.n), st.x(i) >= 10 ** 18), ret.at(i) == 19))))
    return goals


n_digits = Contract("C18._n_decimal_digits", target=_f, setup=_setup, requires=_req, ensures=_ens,
                    canaries=[("side left: exact powers of ten get one digit too few", 'side="right"', 'side="left"'),
                              ("missing +1", 'side="right") + 1', 'side="right")')])

CONTRACTS = [n_digits]
