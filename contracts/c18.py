"""C18 - numbers survive conversion between text and arrays.

Proved kernel: the digit count used by ints_to_strings / int_to_str (io/strops.py::_n_decimal_digits, an exact search in
a table of powers of ten): for EVERY magnitude 0 <= x < 2**63 the result is the number of decimal digits of x
(1 for x < 10, d+1 for 10**d <= x < 10**(d+1), 19 for x >= 10**18) - a 19-case split over the real table.
Also: str_to_int on a fixed-width digit matrix (widths 1, 2, 7, 19: exact decimal value) and _build_power_array without decimal points (entry k
of row i is lens(i)-1-k for every batch: the one-cumulative-sum trick re-bases correctly at every row start; lemma by induction).
"""
import types
import z3
from pyvc.core import I, B, And, Or, Not, Implies, Ite, in_range, Forall, SArr, conc
from pyvc.verify import Contract

ASSUMPTIONS = ["np.searchsorted(table, x, side='right') bracketing contract (validated bounded)", "magnitudes are mathematical integers below 2**63"]
NOT_PROVED = ["the power table with decimal points (dots is not None), the ragged branch of str_to_int beyond its frame (C20) - sum of digit * 10**exponent -, "
              "ints_to_strings' digit extraction, int_lists_to_strings, float parsing and formatting (floating point), batch independence as a whole: "
              "bounded (rtc/enum_c18.py)", "np.abs(-2**63) overflow: known finding"]


class St(types.SimpleNamespace):
    pass


def _f():
    from bionumpy.io import strops
    return strops._n_decimal_digits


def _setup(ctx):
    st = St()
    st.n = z3.Int("n")
    st.x = z3.Function("x", z3.IntSort(), z3.IntSort())
    st.args = [SArr.fresh(st.n, lambda i: st.x(I(i)))]
    return st


def _req(ctx, st):
    return [st.n >= 0, Forall(lambda i: Implies(in_range(i, st.n), And(st.x(i) >= 0, st.x(i) < 2 ** 63)), triggers=[st.x], name="magnitudes in [0, 2**63)")]


def _ens(ctx, st, ret):
    goals = [("length", ret.length == st.n),
             ("one.digit", Forall(lambda i: Implies(And(in_range(i, st.n), st.x(i) < 10), ret.at(i) == 1)))]
    for d in range(1, 18):
        goals.append(("digits.%d" % (d + 1), Forall(lambda i, d=d: Implies(And(in_range(i, st.n), st.x(i) >= 10 ** d, st.x(i) < 10 ** (d + 1)), ret.at(i) == d + 1))))
    goals.append(("digits.19", Forall(lambda i: Implies(And(in_range(i, st.n), st.x(i) >= 10 ** 18), ret.at(i) == 19))))
    return goals


n_digits = Contract("C18._n_decimal_digits", target=_f, setup=_setup, requires=_req, ensures=_ens,
                    canaries=[("side left: exact powers of ten get one digit too few", 'side="right"', 'side="left"'),
                              ("missing +1", 'side="right") + 1', 'side="right")')])

CONTRACTS = [n_digits]


# --- str_to_int, fixed-width branch (a 2-D EncodedArray of digit characters: the digit matrix of an unsigned integer column of a file) ----------
# For a matrix of n rows and w digit characters (w = 1, 2, 7, 19): value(i) = sum_j (byte(i,j) - '0') * 10**(w-1-j), an exact integer dot product.
from pyvc.core import SArr2, SRec, Opaque       # noqa: E402


def _s2i():
    from bionumpy.io import strops
    return strops.str_to_int


_hw = {}


def _mk_fixed(w):
    def setup(ctx):
        st = St()
        st.n = z3.Int("n")
        st.D = z3.Function("digit_char", z3.IntSort(), z3.IntSort(), z3.IntSort())
        st.text = SArr2.fresh(st.n, w, lambda i, j: st.D(I(i), I(j)), enc="BaseEncoding")
        st.args = [st.text]
        _hw["st"] = st
        return st

    def as_enc(ip, args, kwargs, lineno):
        """as_encoded_array: identity for already encoded text; with target_encoding=DigitEncoding the code of a digit character is byte - 48
        (AlphabetEncoding('0123456789'), contract proved in C06; non-digits raise there)"""
        x = args[0]
        tgt = kwargs.get("target_encoding", args[1] if len(args) > 1 else None)
        if tgt is None:
            return x
        f = x.snapshot2()
        return SArr2.fresh(x.rows, x.cols, lambda i, j: I(f(i, j)) - 48, enc="DigitEncoding")

    def ens(ctx, st, ret):
        def val(i):
            r = z3.IntVal(0)
            for j in range(w):
                r = r + (st.D(i, z3.IntVal(j)) - 48) * (10 ** (w - 1 - j))
            return r
        return [("rows", I(ret.length) == st.n), ("value.is.the.decimal.number", Forall(lambda i: Implies(in_range(i, st.n), I(ret.at(i)) == val(i))))]
    return Contract("C18.str_to_int[fixed width %d]" % w, target=_s2i, setup=setup, requires=lambda ctx, st: [st.n >= 0], ensures=ens,
                    callees={"bionumpy.encoded_array.as_encoded_array": as_enc},
                    canaries=[("powers not reversed (least significant digit first)", "powers = 10**np.arange(number_text.shape[-1])[::-1]", "powers = 10**np.arange(number_text.shape[-1])")] if w > 1 else
                             [("wrong base", "powers = 10**np.arange(number_text.shape[-1])[::-1]", "powers = 9**np.arange(number_text.shape[-1])[::-1] + 1")])


from contracts import thorough as _thorough      # noqa: E402
CONTRACTS += [_mk_fixed(w) for w in ((1, 2, 7, 19) if not _thorough() else (1, 2, 3, 4, 5, 7, 10, 13, 16, 18, 19))]


# --- _build_power_array(shape) without decimal points: the power table of a ragged batch of digit strings ------------------------------------------
# For ANY batch of n >= 1 rows with lengths >= 1: entry k of row i is lens(i) - 1 - k (the exponent of ten of the k-th character), whatever the
# other rows are - the table is computed by ONE cumulative sum over the whole batch, re-based at every row start.
from pyvc.pybuiltins import RShape, ragged_ravel, SRaggedObj     # noqa: E402
from pyvc import npmodel as M                                      # noqa: E402


def _bpa():
    from bionumpy.io import strops
    return strops._build_power_array


class _Shape(RShape):
    def getattr(self, ip, name, lineno):
        if name == "ends":
            C = self.C
            return SArr.fresh(self.n, lambda i: C(I(i) + 1))
        return RShape.getattr(self, ip, name, lineno)


def _setup_bpa(ctx):
    st = St()
    st.n = z3.Int("n_rows")
    st.L = z3.Function("row_length", z3.IntSort(), z3.IntSort())
    st.fl = lambda i: st.L(I(i))
    st.C = M.exclusive_prefix(st.fl, st.n)
    st.shape = _Shape(st.n, lambda i: st.C(I(i)), st.fl, C=st.C, contiguous=True)
    st.args = [st.shape]
    return st


def _req_bpa(ctx, st):
    ctx.assume(st.n >= 1, Forall(lambda i: Implies(in_range(i, st.n), st.L(i) >= 1), triggers=[st.L], name="every row has at least one character"))
    M.prefix_monotone(st.C, st.fl, st.n)
    from pyvc.core import PairForall
    # strictly increasing row starts (engine lemma L4: summands >= 1)
    ctx.assume(PairForall(st.C, lambda a, b: Implies(And(a >= 0, a < b, b <= st.n), st.C(a) + (b - a) <= st.C(b)), name="L4 row starts strictly increasing"))
    return []


def _ghost_bpa(ip, env, st):
    """lemma by induction over q = p + 1 (p a flat position): the running sum up to and including p is C(row(p)+1) - 1 - p"""
    c = ip.ctx
    ia = env.vars["index_array"]
    fa = ia.snapshot()
    X = M.exclusive_prefix(fa, ia.length, ia)
    dummy = SRaggedObj(lambda p: 0, st.n, lambda i: st.C(I(i)), st.fl, None, st.C(st.n), contiguous=False, C=st.C)
    flat = ragged_ravel(ip, dummy, None)
    row = flat.ravel_ragged[0]
    st.row, st.X = row, X
    total = st.C(st.n)
    c.induct("C18._build_power_array:lemma.running.sum.is.the.remaining.length.of.the.row",
             lambda q: Implies(And(I(q) >= 1, I(q) <= total), X(I(q)) == st.C(row(I(q) - 1) + 1) - I(q)), X, lo=1, hi=total)


def _ens_bpa(ctx, st, ret):
    return [("rows", I(ret.n) == st.n),
            ("row.lengths", Forall(lambda i: Implies(in_range(i, st.n), I(ret.lens(i)) == st.L(i)))),
            ("entry.k.of.row.i.is.the.exponent.of.its.digit", Forall(lambda i, k: Implies(And(in_range(i, st.n), in_range(k, st.L(i))), I(ret.at(i, k)) == st.L(i) - 1 - k), nvars=2))]


def _hints_bpa(ctx, st, ks):
    if not hasattr(st, "row"):
        return []
    if len(ks) >= 2:                      # the entry clause: flat position of entry k of row i
        i, k = ks[0], ks[1]
        p = st.C(i) + k
        return [p, st.row(p), st.X(p + 1), st.C(i + 1), st.C(st.row(p)), st.C(st.row(p) + 1)]
    out = []
    for q in ks[:1]:                      # the induction step: flat positions q-1 and q, their rows and the row starts around them
        out += [st.row(q - 1), st.row(q), st.C(st.row(q - 1)), st.C(st.row(q - 1) + 1), st.C(st.row(q)), st.C(st.row(q) + 1), st.X(q), st.X(q + 1), st.row(q) - 1]
    return out


build_power_array = Contract("C18._build_power_array[no decimal point]", target=_bpa, setup=_setup_bpa, requires=_req_bpa, ensures=_ens_bpa, hints=_hints_bpa,
                             ghost=[("np.cumsum(index_array, out=index_array)", _ghost_bpa)], timeout_ms=60000,
                             canaries=[("row starts not re-based", "index_array[np.cumsum(lengths)[:-1]] += lengths[1:]-offset_rest", "index_array[np.cumsum(lengths)[:-1]] += lengths[:-1]-offset_rest"),
                                       ("first row one short", "index_array[0] += lengths[0]-offset_0", "index_array[0] += lengths[0]-offset_0-1")])
CONTRACTS.append(build_power_array)


# --- ints_to_strings: digit placement of a whole batch -------------------------------------------------------------------------------------------
# Modular: _n_decimal_digits (proved above) is abstracted to DIG(i) in [1, 19], _build_power_array to its proved contract, change_encoding
# (digits -> ASCII) to +48.  For EVERY batch: row i has DIG(|x_i|) + [x_i < 0] characters; character k is '-' for k = 0 of a negative number and
# otherwise the digit  (|x_i| // 10**(len_i - 1 - k)) % 10  - the exponent of the k-th character of ITS OWN row, whatever the other rows are.
from pyvc.core import SRagged     # noqa: E402


def _i2s():
    from bionumpy.io import strops
    return strops.ints_to_strings


_hi = {}


def _setup_i2s(ctx):
    st = St()
    st.n = z3.Int("n")
    st.x, st.DIG = z3.Function("x", z3.IntSort(), z3.IntSort()), z3.Function("n_digits", z3.IntSort(), z3.IntSort())
    st.args = [SArr.fresh(st.n, lambda i: st.x(I(i)))]
    _hi["st"] = st
    return st


def _callee_ndigits(ip, args, kwargs, lineno):
    st = _hi["st"]
    mag = args[0]
    st.mag = mag.snapshot()
    return SArr.fresh(st.n, lambda i: st.DIG(I(i)))


def _callee_bpa(ip, args, kwargs, lineno):
    """contract of _build_power_array (proved above): entry k of row i is lens(i) - 1 - k; precondition lens >= 1 (obliged here)"""
    shape = args[0]
    c = ip.ctx
    ln = shape.lens
    c.oblige("%s:callee._build_power_array.requires.row.lengths>=1" % c.fname, Forall(lambda i: Implies(in_range(i, shape.n), I(ln(i)) >= 1)), "callee-pre")
    out = SRaggedObj(None, shape.n, shape.starts, shape.lens, None, None, True, shape.C)
    out.at = lambda i, k: conc(I(ln(i)) - 1 - I(k))
    return out


def _callee_change_encoding(ip, args, kwargs, lineno):
    r = args[0]
    old_at = r.at
    out = SRaggedObj(None, r.n, r.starts, r.lens, "BaseEncoding", r.total, r.contiguous, getattr(r, "C", None))
    out.at = lambda i, k: conc(I(old_at(i, k)) + 48)
    return out


def _ens_i2s(ctx, st, ret):
    P10 = M.pow10()
    neg = lambda i: st.x(i) < 0
    mag = lambda i: Ite(st.x(i) < 0, -st.x(i), st.x(i))
    ln = lambda i: st.DIG(i) + Ite(neg(i), 1, 0)

    def digit(i, k):
        q, _ = M._divmod_noassert(mag(i), P10(ln(i) - 1 - I(k)))
        return M._divmod_noassert(q, 10)[1]
    st.C = getattr(ret, "C", None)
    return [("rows", I(ret.n) == st.n),
            ("row.length = digits + sign", Forall(lambda i: Implies(in_range(i, st.n), I(ret.lens(i)) == ln(i)))),
            ("minus.sign.first", Forall(lambda i: Implies(And(in_range(i, st.n), neg(i)), I(ret.at(i, 0)) == 45))),
            ("character.k.is.the.digit.of.its.own.row", Forall(lambda i, k: Implies(And(in_range(i, st.n), in_range(k, ln(i)), Not(And(neg(i), I(k) == 0))),
                                                                                     I(ret.at(i, k)) == 48 + digit(i, k)), nvars=2))]


ints_to_strings = Contract("C18.ints_to_strings", target=_i2s, setup=_setup_i2s,
                           requires=lambda ctx, st: [st.n >= 0, Forall(lambda i: Implies(in_range(i, st.n), And(st.DIG(i) >= 1, st.DIG(i) <= 19)), triggers=[st.DIG],
                                                                       name="digit counts are in 1..19 (contract of _n_decimal_digits)")],
                           ensures=_ens_i2s,
                           hints=lambda ctx, st, ks: ([t for k in ks[:1] for t in (st.C(k), st.C(k + 1))] + ([st.C(ks[0]) + ks[1]] if len(ks) > 1 else [])) if getattr(st, "C", None) is not None else [],
                           callees={"bionumpy.io.strops._n_decimal_digits": _callee_ndigits, "bionumpy.io.strops._build_power_array": _callee_bpa,
                                    "bionumpy.encoded_array.change_encoding": _callee_change_encoding},
                           canaries=[("sign written after the first digit", 'digits[is_negative, 0] = "-"', 'digits[is_negative, 1] = "-"'),
                                     ("no room for the sign", "shape = RaggedShape(lengths+is_negative)", "shape = RaggedShape(lengths)"),
                                     ("digits of the signed value", "digits = np.abs(number)[:, np.newaxis] // 10**ragged_index % 10", "digits = number[:, np.newaxis] // 10**ragged_index % 10")])
CONTRACTS.append(ints_to_strings)


# --- TextBufferExtractor.get_digit_array: the dispatcher in front of the fixed-width digit matrix ---------------------------------------------------
# The digit matrix (whose contract above needs digits only) is chosen ONLY when no field of the column starts with '+' or '-'; otherwise the text of the
# column goes on together with the two sign masks, each row's mask telling what ITS field starts with.
def _TBE():
    from bionumpy.io.file_buffers import TextBufferExtractor
    return TextBufferExtractor


def _setup_gda(ctx):
    st = St()
    st.n, st.nf, st.N, st.f = z3.Int("n_rows"), z3.Int("n_fields"), z3.Int("n_bytes"), z3.Int("field")
    st.D = z3.Function("byte", z3.IntSort(), z3.IntSort())
    fs2, fl2 = z3.Function("field_start", z3.IntSort(), z3.IntSort(), z3.IntSort()), z3.Function("field_len", z3.IntSort(), z3.IntSort(), z3.IntSort())
    st.fsf, st.flf = z3.Function("start_in_the_column", z3.IntSort(), z3.IntSort()), z3.Function("len_in_the_column", z3.IntSort(), z3.IntSort())
    st.fs = lambda i, j: Ite(I(j) == st.f, st.fsf(I(i)), fs2(I(i), I(j)))
    st.fl = lambda i, j: Ite(I(j) == st.f, st.flf(I(i)), fl2(I(i), I(j)))
    st.selfv = SRec(_TBE(), _data=SArr.fresh(st.N, lambda p: st.D(I(p)), enc="BaseEncoding"),
                    _field_starts=SArr2.fresh(st.n, st.nf, lambda i, j: st.fs(I(i), I(j))), _field_lens=SArr2.fresh(st.n, st.nf, lambda i, j: st.fl(I(i), I(j))), _n_fields=st.nf)
    st.args = [st.f]
    st.moved = None
    st.text = Opaque("text of the column (get_field_by_number)")
    _hg["st"] = st
    return st


_hg = {}


def _moved(ip, args, kwargs, lineno):
    st = _hg["st"]
    st.moved = (list(args), dict(kwargs))
    return Opaque("digit matrix")


def _ens_gda(ctx, st, ret):
    first = lambda i: st.D(st.fsf(I(i)))
    a, neg, pos = ret
    if neg is None and pos is None:
        m = st.moved
        ok = m is not None and len(m[0]) == 3
        return [("digit.matrix.only.when.no.field.starts.with.a.sign", Forall(lambda i: Implies(in_range(i, st.n), And(first(i) != 45, first(i) != 43)))),
                ("the.matrix.is.built.from.this.column's.fields", ok and m[0][0] is st.selfv.get("_data") and m[1].get("fill_value") == "0"),
                ("field.bounds", ok and Forall(lambda i: Implies(in_range(i, st.n), And(I(m[0][1].at(i)) == st.fsf(i), I(m[0][2].at(i)) == st.fsf(i) + st.flf(i)))))]
    return [("signed.path: the column's text goes on", a is st.text),
            ("is_negative.tells.what.each.row's.field.starts.with", Forall(lambda i: Implies(in_range(i, st.n), B(neg.at(i)) == (first(i) == 45)))),
            ("is_positive.tells.what.each.row's.field.starts.with", Forall(lambda i: Implies(in_range(i, st.n), B(pos.at(i)) == (first(i) == 43)))),
            ("mask.lengths", And(I(neg.length) == st.n, I(pos.length) == st.n))]


def mk_digit_dispatch(prefix):
    return Contract("%s.TextBufferExtractor.get_digit_array" % prefix, target=lambda: _TBE().get_digit_array, setup=_setup_gda,
                                requires=lambda ctx, st: [st.n >= 0, st.nf >= 1, in_range(st.f, st.nf), st.N >= 0,
                                                          Forall(lambda i: Implies(in_range(i, st.n), in_range(st.fsf(i), st.N)), triggers=[st.fsf], name="field starts inside the data")],
                                ensures=_ens_gda,
                                callees={"bionumpy.io.file_buffers.move_intervals_to_digit_array": _moved,
                                         "bionumpy.io.file_buffers.TextBufferExtractor.get_field_by_number": lambda ip, args, kwargs, lineno: _hg["st"].text},
                                canaries=[("'+' columns sent down the digit-matrix path", "if np.any(is_negative) or np.any(is_positive):", "if np.any(is_negative):"),
                                          ("positive mask is the negative one", 'is_positive = possible_signs == "+"', 'is_positive = possible_signs == "-"')])
CONTRACTS.append(mk_digit_dispatch("C18"))
