"""C17 - indexed FASTA random access agrees with the file.

File-layout predicate (faidx): base k of a record with (offset, lenc, lenb) sits at byte
    pos_of(k) = offset + (k // lenc) * lenb + (k % lenc),      lenb > lenc >= 1.
Every postcondition below is phrased over that spec function and the ghost file F.
"""
import types
import z3
from pyvc.core import (I, B, And, Or, Not, Implies, Ite, Max, in_range, Forall, SArr, SRec, SFile, SymList, conc)
from pyvc.verify import Contract
from pyvc import npmodel as M


ASSUMPTIONS = ["CPython io: seek/read/readinto on the ghost byte function of the FASTA file", "np.delete for a strictly increasing in-bounds index list (validated bounded)",
               "the .fai rows describe the file (layout predicate): this is what create_index / samtools faidx guarantee; create_index's offset accumulation is proved, "
               "FastaIdxBuffer.get_data (per-chunk rows) is bounded", "get_interval_sequences: LF line ends (lenb = lenc + 1); CRLF FASTA is outside the precondition"]
NOT_PROVED = ["get_interval_sequences: the CONTENT clause (row j is exactly the bases a_j..b_j-1) - proved are the row lengths, the allocation offsets, that the "
              "deleted positions are in bounds, strictly increasing and that (start_mod + p) // lenc newline bytes precede the p-th surviving byte; the last "
              "step needs uniqueness of division by a symbolic divisor (solver timeouts): bounded (rtc/enum_c17.py, every interval of every small FASTA)",
              "_get_interval_sequences_fast: same accounting clauses as the per-interval path are proved; content clause and the label-order correspondence of index_table[chromosome_i] are bounded", "FastaIdxBuffer.get_data, read_index, Genome.read_sequence: bounded"]


def _indexed_fasta():
    from bionumpy.io import indexed_fasta
    return indexed_fasta.IndexedFasta


class St(types.SimpleNamespace):
    pass


def pos_of(ctx, st, k):
    q, r = M._divmod_noassert(k, st.lenc)
    return st.offset + q * st.lenb + r


# ---------------------------------------------------------------------------------------------
# IndexedFasta.__getitem__
def _setup_getitem(ctx):
    st = St()
    st.rlen, st.offset, st.lenc, st.lenb = z3.Ints("rlen offset lenc lenb")
    st.flen = z3.Int("flen")
    st.F = z3.Function("F", z3.IntSort(), z3.IntSort())
    st.file = SFile(st.flen, lambda p: st.F(I(p)))
    idx = {"rlen": st.rlen, "offset": st.offset, "lenc": st.lenc, "lenb": st.lenb}
    st.selfv = SRec(_indexed_fasta(), _index={"chrX": idx}, _f_obj=st.file)
    st.args = ["chrX"]
    return st


def _requires_getitem(ctx, st):
    # well-formed index entry for a record that lies completely inside the file, whose bases are
    # non-NUL bytes (the code asserts this)
    last = pos_of(ctx, st, st.rlen - 1)
    return [st.rlen >= 1, st.lenc >= 1, st.lenb > st.lenc, st.offset >= 0, st.flen >= 0,
            last < st.flen,
            Forall(lambda p: Implies(in_range(p, st.flen), And(st.F(p) > 0, st.F(p) < 256)), triggers=[st.F],
                   name="file bytes are in 1..255")]


def _ensures_getitem(ctx, st, ret):
    return [("length", ret.length == st.rlen),
            ("content", Forall(lambda k: Implies(in_range(k, st.rlen), ret.at(k) == st.F(pos_of(ctx, st, k))))),
            ("encoding", ret.enc is not None)]


getitem = Contract(
    "C17.IndexedFasta.__getitem__",
    target=lambda: _indexed_fasta().__getitem__,
    setup=_setup_getitem, requires=_requires_getitem, ensures=_ensures_getitem,
    dropped=["docstring", "assert messages", "unreachable second return statement"],
    canaries=[("ceil->floor rows", "(rlen + lenc - 1) // lenc", "rlen // lenc"),
              ("keep newline column", "data[:, :lenc]", "data[:, :lenb]"),
              ("row stride", "(n_rows - 1) * lenb + (rlen", "(n_rows - 1) * lenc + (rlen")],
)


# ---------------------------------------------------------------------------------------------
# IndexedFasta.get_contig_lengths: value for `name` is the index's sequence length
def _setup_lengths(ctx):
    st = St()
    st.rlen, st.offset, st.lenc, st.lenb = z3.Ints("rlen offset lenc lenb")
    st.rlen2, st.lenc2 = z3.Ints("rlen2 lenc2")
    st.selfv = SRec(_indexed_fasta(), _index={
        "a": {"rlen": st.rlen, "offset": st.offset, "lenc": st.lenc, "lenb": st.lenb},
        "b": {"rlen": st.rlen2, "offset": st.offset, "lenc": st.lenc2, "lenb": st.lenb}})
    st.args = []
    return st


def _ensures_lengths(ctx, st, ret):
    return [("keys", isinstance(ret, dict) and sorted(ret) == ["a", "b"]),
            ("value.a", I(ret["a"]) == st.rlen), ("value.b", I(ret["b"]) == st.rlen2)]


contig_lengths = Contract(
    "C17.IndexedFasta.get_contig_lengths",
    target=lambda: _indexed_fasta().get_contig_lengths,
    setup=_setup_lengths, ensures=_ensures_lengths,
    dropped=["docstring"],
    canaries=[("lenb instead", '"rlen"', '"lenb"')] ,
)



# ---------------------------------------------------------------------------------------------
# replay of counter-models on the real code
def _mv(model, term, default=0):
    v = model.eval(term, model_completion=True)
    try:
        return v.as_long()
    except Exception:
        return default


def _write_case(tmp, records, fbytes):
    """records: list of (name, rlen, offset, lenc, lenb); fbytes: bytes of the FASTA file"""
    import os
    fa = os.path.join(tmp, "x.fa")
    open(fa, "wb").write(fbytes)
    with open(fa + ".fai", "w") as f:
        for r in records:
            f.write("\t".join(str(x) for x in r) + "\n")
    return fa


def _concretize_getitem(model, ctx, st, oid):
    import tempfile, numpy as np
    rlen, offset, lenc, lenb, flen = [_mv(model, t) for t in (st.rlen, st.offset, st.lenc, st.lenb, st.flen)]
    if flen > 200000 or flen < 0:
        return {"reproduced": None, "why": "model file too large (%d bytes)" % flen}
    fb = bytes(_mv(model, st.F(p)) % 256 for p in range(flen))
    expect = [fb[offset + (k // lenc) * lenb + k % lenc] for k in range(rlen)]
    inp = {"rlen": rlen, "offset": offset, "lenc": lenc, "lenb": lenb, "file_bytes": list(fb)[:400]}
    with tempfile.TemporaryDirectory() as tmp:
        fa = _write_case(tmp, [("chrX", rlen, offset, lenc, lenb)], fb)
        from bionumpy.io.indexed_fasta import IndexedFasta
        try:
            got = IndexedFasta(fa)["chrX"].raw().tolist()
        except Exception as e:
            return {"reproduced": True, "input": inp, "observed": "raised %r" % (e,), "expected": expect[:100]}
    return {"reproduced": got != expect, "input": inp, "observed": got[:100], "expected": expect[:100]}


def _concretize_lengths(model, ctx, st, oid):
    import tempfile
    vals = {k: _mv(model, t) for k, t in dict(rlen=st.rlen, offset=st.offset, lenc=st.lenc, lenb=st.lenb,
                                              rlen2=st.rlen2, lenc2=st.lenc2).items()}
    with tempfile.TemporaryDirectory() as tmp:
        fa = _write_case(tmp, [("a", vals["rlen"], vals["offset"], vals["lenc"], vals["lenb"]),
                               ("b", vals["rlen2"], vals["offset"], vals["lenc2"], vals["lenb"])], b">a\nA\n")
        from bionumpy.io.indexed_fasta import IndexedFasta
        got = IndexedFasta(fa).get_contig_lengths()
    exp = {"a": vals["rlen"], "b": vals["rlen2"]}
    return {"reproduced": dict(got) != exp, "input": {"fai_rows": vals}, "observed": dict(got), "expected": exp}


getitem.concretize = _concretize_getitem
contig_lengths.concretize = _concretize_lengths

CONTRACTS = [getitem, contig_lengths]


# ---------------------------------------------------------------------------------------------
# create_index: the per-chunk index rows are shifted by the byte sizes of all earlier chunks (2 and 3 chunks)
from pyvc.pybuiltins import STable
from pyvc.core import Opaque


def _create_index():
    from bionumpy.io import indexed_fasta
    return indexed_fasta.create_index


def _setup_ci(k):
    def setup(ctx):
        from bionumpy.io.multiline_buffer import FastaIdx
        st = St()
        st.k = k
        st.chunks = []
        for j in range(k):
            n = z3.Int("n_%d" % j)
            f = {c: z3.Function("%s_%d" % (c, j), z3.IntSort(), z3.IntSort()) for c in ("length", "start", "cpl", "ll")}
            bsz = z3.Int("byte_size_%d" % j)
            t = STable({"chromosome": Opaque("names%d" % j), "length": SArr.fresh(n, lambda i, f=f: f["length"](I(i))),
                        "start": SArr.fresh(n, lambda i, f=f: f["start"](I(i))), "characters_per_line": SArr.fresh(n, lambda i, f=f: f["cpl"](I(i))),
                        "line_length": SArr.fresh(n, lambda i, f=f: f["ll"](I(i))), "byte_size": SArr.fresh(n, lambda i, bsz=bsz: bsz)}, n)
            st.chunks.append((n, f, bsz, t))
            ctx.assume(n >= 1, bsz >= 0)
        ctx.ip.class_models[FastaIdx] = lambda ip, args, kwargs, lineno: STable(
            {"chromosome": args[0], "length": args[1], "start": args[2], "characters_per_line": args[3], "line_length": args[4]}, args[1].length)
        st.args = [Opaque("filename")]
        return st
    return setup


def _bnp_open(holder):
    class Reader:
        def getattr(self, ip, name, lineno):
            if name == "read_chunks":
                return self

        def sym_call(self, ip, args, kwargs, lineno):
            return [c[3] for c in holder["st"].chunks]
    return lambda ip, args, kwargs, lineno: Reader()


_hci = {}


def _setup_ci2(k):
    inner = _setup_ci(k)

    def setup(ctx):
        st = inner(ctx)
        _hci["st"] = st
        return st
    return setup


def _ens_ci(ctx, st, ret):
    goals = []
    row0, off = 0, 0
    for j, (n, f, bsz, t) in enumerate(st.chunks):
        r0, o0 = row0, off
        goals.append(("chunk%d.offsets.shifted.by.bytes.of.earlier.chunks" % j,
                      Forall(lambda i, n=n, f=f, r0=r0, o0=o0: Implies(in_range(i, n), ret.cols["start"].at(r0 + I(i)) == f["start"](i) + o0))))
        goals.append(("chunk%d.other.columns.kept" % j,
                      Forall(lambda i, n=n, f=f, r0=r0: Implies(in_range(i, n), And(ret.cols["length"].at(r0 + I(i)) == f["length"](i),
                                                                                ret.cols["characters_per_line"].at(r0 + I(i)) == f["cpl"](i),
                                                                                ret.cols["line_length"].at(r0 + I(i)) == f["ll"](i))))))
        row0, off = row0 + n, off + bsz
    goals.append(("n.rows", I(ret.n) == row0))
    return goals


def _mk_ci(k):
    return Contract("C17.create_index[%d chunks]" % k, target=_create_index, setup=_setup_ci2(k), ensures=_ens_ci,
                    callees={"bionumpy.io.files.bnp_open": _bnp_open(_hci)},
                    canaries=[("offset of the chunk itself added", "offsets = np.cumsum([0]+[idx.byte_size[0] for idx in indice_builders])",
                               "offsets = np.cumsum([idx.byte_size[0] for idx in indice_builders])"),
                              ("line length used as byte size", "idx.byte_size[0] for idx in indice_builders", "idx.line_length[0] for idx in indice_builders")])


create_index2, create_index3 = _mk_ci(2), _mk_ci(3)
CONTRACTS += [create_index2, create_index3]
from contracts import thorough as _thorough      # noqa: E402
if _thorough():
    CONTRACTS += [_mk_ci(4), _mk_ci(5)]


# ---------------------------------------------------------------------------------------------
# get_interval_sequences (the per-interval path): every interval [a,b) of a record with LF line ends (lenb = lenc + 1) yields exactly
# the bases a..b-1; the deleted positions are exactly the newline bytes inside the read span.
from pyvc.loops import LoopSpec
from pyvc.core import SymList, PairForall, Min, Max, Buf
from pyvc import npmodel as M2


class _ChromCol:
    """chromosome column: not string-encoded; element j is an object whose to_string() is the contig key (an integer id here)"""
    encoding = "not a StringEncoding"

    def __init__(self, st):
        self.st = st

    def getattr(self, ip, name, lineno):
        if name == "encoding":
            return self.encoding
        raise Exception("chromosome column attribute " + name)

    def row(self, j):
        st = self.st

        class _Name:
            def getattr(self_, ip, name, lineno):
                class _TS:
                    def sym_call(self__, ip, args, kwargs, lineno):
                        return st.chrom(I(j))
                return _TS()
        return _Name()


class _SymIndex:
    """self._index: contig key -> faidx row (functions of the key)"""

    def __init__(self, st):
        self.st = st

    def getitem(self, ip, key, lineno):
        st = self.st
        return {"rlen": st.RL(I(key)), "offset": st.OF(I(key)), "lenc": st.LC(I(key)), "lenb": st.LC(I(key)) + 1}      # LF records: lenb = lenc + 1


def pos2(st, c, k):
    q, r = M._divmod_noassert(k, st.LC(c))
    return st.OF(c) + q * (st.LC(c) + 1) + r


def _setup_gis(ctx):
    st = St()
    st.n, st.flen = z3.Int("n_intervals"), z3.Int("flen")
    st.F = z3.Function("F", z3.IntSort(), z3.IntSort())
    st.chrom, st.a, st.b = [z3.Function(x, z3.IntSort(), z3.IntSort()) for x in ("chrom", "ivstart", "ivstop")]
    st.RL, st.OF, st.LC, st.LB = [z3.Function(x, z3.IntSort(), z3.IntSort()) for x in ("rlen", "offset", "lenc", "lenb")]
    st.file = SFile(st.flen, lambda p: st.F(I(p)))
    ctx.normalise_products = True
    st.selfv = SRec(_indexed_fasta(), _index=_SymIndex(st), _f_obj=st.file)
    st.table = STable({"chromosome": _ChromCol(st), "start": SArr.fresh(st.n, lambda j: st.a(I(j))), "stop": SArr.fresh(st.n, lambda j: st.b(I(j)))}, st.n)
    st.args = [st.table]
    ctx.ip.loop_specs[("IndexedFasta.get_interval_sequences", 0)] = LoopSpec(_inv_gis(st), _havoc_gis(st))
    return st


def _req_gis(ctx, st):
    return [st.n >= 1, st.flen >= 0,
            Forall(lambda p: Implies(in_range(p, st.flen), And(st.F(p) > 0, st.F(p) < 256)), triggers=[st.F], name="file bytes 1..255"),
            Forall(lambda j: Implies(in_range(j, st.n), And(st.LC(st.chrom(j)) >= 1, st.LB(st.chrom(j)) == st.LC(st.chrom(j)) + 1, st.OF(st.chrom(j)) >= 0,
                                                            0 <= st.a(j), st.a(j) < st.b(j), st.b(j) <= st.RL(st.chrom(j)),
                                                            pos2(st, st.chrom(j), st.RL(st.chrom(j)) - 1) + 1 < st.flen)),
                   triggers=[st.a, st.chrom, st.b], name="in-bounds intervals of LF records that lie inside the file (a final newline follows the last base)")]


def _C(st, env):
    """the prefix-sum function of (stop - start): pre_alloc.size is C(n)"""
    return env.vars["pre_alloc"].length.decl()


def _inv_gis(st):
    def inv(ip, env):
        it = env.vars["_it"]
        C = _C(st, env)
        pre = env.vars["pre_alloc"]
        lengths = env.vars["lengths"]
        n_len = len(lengths) if isinstance(lengths, list) else lengths.count
        lat = (lambda j: 0) if isinstance(lengths, list) else lengths.at
        st.Cdecl, st.it_term = C, it
        goals = [("alloc.offset.is.the.sum.of.the.lengths.so.far", env.vars["alloc_offset"] == C(I(it))),
                 ("every.byte.placed.so.far.is.a.base (non-NUL)", Forall(lambda p: Implies(in_range(p, C(I(it))), I(pre.at(p)) > 0))),
                 ("one.length.per.interval.so.far", I(n_len) == I(it)),
                 ("lengths.are.interval.lengths", Forall(lambda j: Implies(in_range(j, it), lat(j) == st.b(j) - st.a(j))))]
        return goals
    return inv


def _havoc_gis(st):
    def havoc(ip, env):
        c = ip.ctx
        it = env.vars["_it"]
        pre = env.vars["pre_alloc"]
        g = c.fresh_fun("pre_alloc_content")
        pre.buf.at = lambda p, g=g: g(I(p))
        env.vars["alloc_offset"] = c.fresh_int("alloc_offset")
        env.vars["cur_offset"] = c.fresh_int("cur_offset")
        L = c.fresh_fun("lengths")
        env.vars["lengths"] = SymList(it, lambda j, L=L: L(I(j)))
        st.file.pos = c.fresh_int("filepos")
        c.assume(I(st.file.pos) >= 0)
    return havoc


def _ens_gis(ctx, st, ret):
    C = ret.C
    return [("rows", I(ret.n) == st.n),
            ("row.lengths", Forall(lambda j: Implies(in_range(j, st.n), I(ret.lens(j)) == st.b(j) - st.a(j))))]
    # NOT proved here: row j is exactly F[pos_of(a_j + k)] (the content clause).  The per-iteration lemma below ("the number of newline bytes
    # dropped before the p-th surviving byte is (start_mod + p) // lenc") is proved; combining it with the layout predicate needs the
    # uniqueness of integer division for a symbolic divisor, on which z3 and cvc5 time out (tried: sum-of-monomials normalisation, a
    # Lean-proved shift lemma as an extra hypothesis - the queries became slower, not faster).  The content clause is bounded (rtc/enum_c17.py).


def _hints_gis(ctx, st, ks):
    out = []
    C, it = getattr(st, "Cdecl", None), getattr(st, "it_term", None)
    if C is not None and it is not None:
        out += [C(I(it)), C(I(it) + 1), C(st.n)]
        for k in ks[:1]:
            out += [C(I(k)), C(I(k) + 1)]
    return out


def _ghost_deleted(ip, env, st):
    """after np.delete: the number of newline bytes dropped before the p-th surviving byte is (start_mod + p) // lenc"""
    tmp = env.vars["tmp"]
    if not hasattr(tmp, "delete_of"):
        return
    d, fi, m, n = tmp.delete_of
    lenc, m0 = env.vars["lenc"], env.vars["start_mod"]
    c = ip.ctx

    def quot(p):
        q, r = M._divmod_noassert(I(m0) + I(p), lenc)
        return q
    goal = Forall(lambda p: Implies(in_range(p, tmp.length), d(I(p)) == quot(p)))
    c.oblige("%s:lemma.newlines.before.the.p-th.base" % c.fname, goal, "lemma")
    c.assume(Forall(lambda p: Implies(in_range(p, tmp.length), d(I(p)) == quot(p)), triggers=[d], name="lemma.newlines.before.the.p-th.base"))


def _ghost_lengths(ip, env, st):
    """before the result is wrapped: the collected row lengths have the same prefix sums as (stop - start) (lemma L6)"""
    lengths = env.vars["lengths"]
    C = st.Cdecl
    CL = M2.exclusive_prefix(lengths.at, lengths.count)
    M2.prefix_congruent(CL, lengths.at, C, lambda j: st.b(I(j)) - st.a(I(j)), st.n)


interval_sequences = Contract("C17.IndexedFasta.get_interval_sequences[LF records]", target=lambda: _indexed_fasta().get_interval_sequences,
                              setup=_setup_gis, requires=_req_gis, ensures=_ens_gis, timeout_ms=60000, hints=_hints_gis,
                              ghost=[("return EncodedRaggedArray(a, lengths)", _ghost_lengths),
                                     ("pre_alloc[alloc_offset:alloc_offset+tmp.size] = tmp", _ghost_deleted)],
                              canaries=[("newline positions shifted", "lenb*(j+1)-1-start_mod", "lenb*(j+1)-start_mod"),
                                        ("stop offset without the row term", "stop_offset = stop_row*lenb+interval.stop % lenc", "stop_offset = stop_row*lenc+interval.stop % lenc")])
CONTRACTS.append(interval_sequences)


# ---------------------------------------------------------------------------------------------
# _get_interval_sequences_fast (string-encoded chromosome column): the vectorised offsets and the per-interval loop.  Proved (accounting, as
# for the per-interval path): every read span has exactly (stop - start) surviving bytes after the newline positions are deleted, so the
# segments written at the prefix sums of the lengths tile the pre-allocated array exactly; deleted positions are increasing and inside the
# span; the number of newline bytes dropped before the p-th surviving byte is (start_mod + p) // lenc; the stores are in bounds.
# ASSUMED: index_table[chromosome_i] is, row by row, the faidx entry of each interval's own chromosome (label order: bounded, rtc/enum_c17.py).
class _FastChromCol:
    def __init__(self, st):
        self.st = st

    def getattr(self, ip, name, lineno):
        if name == "encoding":
            return SRec(None, get_labels=_Const([]))
        if name == "raw":
            return _Const(Opaque("chromosome codes"))
        raise Exception("chromosome column attribute " + name)


class _Const:
    def __init__(self, v):
        self.v = v

    def sym_call(self, ip, args, kwargs, lineno):
        return self.v


class _IdxTable:
    """FastaIdx.from_entry_tuples(...)[chromosome_i]: the faidx entry of interval i's chromosome, as columns (assumed)"""

    def __init__(self, st):
        self.st = st

    def getitem(self, ip, idx, lineno):
        st = self.st
        col = lambda f: SArr.fresh(st.n, lambda i, f=f: f(st.chrom(I(i))))
        return STable({"start": col(st.OF), "characters_per_line": col(st.LC), "line_length": SArr.fresh(st.n, lambda i: st.LC(st.chrom(I(i))) + 1),
                       "length": col(st.RL)}, st.n)


_hf = {}


def _setup_fast(ctx):
    st = St()
    st.n, st.flen = z3.Int("n_intervals"), z3.Int("flen")
    st.F = z3.Function("F", z3.IntSort(), z3.IntSort())
    st.chrom, st.a, st.b = [z3.Function(x, z3.IntSort(), z3.IntSort()) for x in ("chrom", "ivstart", "ivstop")]
    st.RL, st.OF, st.LC, st.LB = [z3.Function(x, z3.IntSort(), z3.IntSort()) for x in ("rlen", "offset", "lenc", "lenb")]
    st.file = SFile(st.flen, lambda p: st.F(I(p)))
    ctx.normalise_products = True
    st.selfv = SRec(_indexed_fasta(), _index=_SymIndex(st), _f_obj=st.file)
    st.table = STable({"chromosome": _FastChromCol(st), "start": SArr.fresh(st.n, lambda j: st.a(I(j))), "stop": SArr.fresh(st.n, lambda j: st.b(I(j)))}, st.n)
    st.args = [st.table]
    _hf["st"] = st
    ctx.ip.loop_specs[("IndexedFasta._get_interval_sequences_fast", 0)] = LoopSpec(_inv_fast(st), _havoc_fast(st))
    return st


def _inv_fast(st):
    def inv(ip, env):
        it = env.vars["_it"]
        pre = env.vars["pre_alloc"]
        C = pre.length.decl()
        st.Cdecl, st.it_term = C, it
        return [("every.byte.placed.so.far.is.a.base (non-NUL)", Forall(lambda p: Implies(in_range(p, C(I(it))), I(pre.at(p)) > 0)))]
    return inv


def _havoc_fast(st):
    def havoc(ip, env):
        c = ip.ctx
        pre = env.vars["pre_alloc"]
        g = c.fresh_fun("pre_alloc_content")
        pre.buf.at = lambda p, g=g: g(I(p))
        st.file.pos = c.fresh_int("filepos")
        c.assume(I(st.file.pos) >= 0)
    return havoc


def _ghost_fast_store(ip, env, st):
    """at the store: the surviving bytes of this read span are exactly (stop - start) many - the segments tile the pre-allocated array"""
    c = ip.ctx
    it = env.vars["_it"]
    seq = env.vars["sequence"]
    c.oblige("%s:segment.i.has.exactly.stop-start.bytes" % c.fname, I(seq.length) == st.b(I(it)) - st.a(I(it)), "lemma")
    c.oblige("%s:segment.i.starts.at.the.sum.of.the.earlier.lengths" % c.fname, I(env.vars["a_offset"]) == st.Cdecl(I(it)), "lemma")
    if hasattr(seq, "delete_of"):
        d, fi, m, n = seq.delete_of
        lenc, m0 = st.LC(st.chrom(I(it))), env.vars["start_mod"]

        def quot(p):
            q, r = M._divmod_noassert(I(m0) + I(p), lenc)
            return q
        c.oblige("%s:lemma.newlines.before.the.p-th.base" % c.fname, Forall(lambda p: Implies(in_range(p, seq.length), d(I(p)) == quot(p))), "lemma")


def _ghost_fast_lengths(ip, env, st):
    """`(stop - start)` is computed twice (size of the allocation, row lengths): equal summands have equal prefix sums (lemma L6)"""
    lengths, pre = env.vars["lengths"], env.vars["pre_alloc"]
    C1 = pre.length.decl()
    fl = lengths.snapshot()
    C2 = M2.exclusive_prefix(fl, lengths.length, lengths)
    M2.prefix_congruent(C2, fl, C1, lambda j: st.b(I(j)) - st.a(I(j)), st.n)
    M2.prefix_monotone(C2, fl, st.n, "lemma.lengths.nonneg")


def _ens_fast(ctx, st, ret):
    return [("rows", I(ret.n) == st.n),
            ("row.lengths", Forall(lambda j: Implies(in_range(j, st.n), I(ret.lens(j)) == st.b(j) - st.a(j))))]


fast_sequences = Contract("C17.IndexedFasta._get_interval_sequences_fast[LF records]", target=lambda: _indexed_fasta()._get_interval_sequences_fast,
                          setup=_setup_fast, requires=_req_gis, ensures=_ens_fast, timeout_ms=60000, hints=_hints_gis,
                          callees={"bionumpy.bnpdataclass.bnpdataclass.BNPDataClass.from_entry_tuples": lambda ip, args, kwargs, lineno: _IdxTable(_hf["st"])},
                          ghost=[("n_rows = stop_rows-start_rows", _ghost_fast_lengths),
                                 ("pre_alloc[a_offset:a_offset+sequence.size] = sequence", _ghost_fast_store)],
                          canaries=[("newline positions shifted", "lenb*(j+1)-1-start_mod", "lenb*(j+1)-start_mod"),
                                    ("stop offset with the wrong row stride", "stop_offsets = stop_rows*indices.line_length+", "stop_offsets = stop_rows*indices.characters_per_line+"),
                                    ("segments placed at the inclusive prefix sums", "offsets = np.insert(np.cumsum(lengths), 0, 0)", "offsets = np.cumsum(lengths)"),
                                    ("start offset without the column", "start_offsets = start_rows*indices.line_length+start_mods", "start_offsets = start_rows*indices.line_length")])
CONTRACTS.append(fast_sequences)


# ---------------------------------------------------------------------------------------------
# FastaIdxBuffer.get_data: the index rows of one chunk of a wrapped FASTA (offsets relative to the chunk; create_index adds the chunk sizes).
# State of the buffer as MultiLineFastaBuffer.from_raw_buffer builds it (C01 contract): `_data` = N bytes ending in a newline, `_new_lines` = the
# positions of all newline bytes but the last one (nl(0) < nl(1) < ...), `_new_entries` = the indices k with data[nl(k)+1] == '>' (strictly
# increasing).  Line j starts at ls(j) = 0 / nl(j-1)+1 and its newline is at le(j) = nl(j) / N-1; header lines are h(0) = 0, h(e) = ne(e-1)+1.
def _FIB():
    from bionumpy.io.multiline_buffer import FastaIdxBuffer
    return FastaIdxBuffer


def _setup_gd(ctx):
    st = St()
    st.N, st.L, st.E1 = z3.Int("n_bytes"), z3.Int("n_inner_newlines"), z3.Int("n_entries_minus_1")
    st.D = z3.Function("byte", z3.IntSort(), z3.IntSort())
    st.nl = z3.Function("newline_pos", z3.IntSort(), z3.IntSort())
    st.ne = z3.Function("entry_newline_idx", z3.IntSort(), z3.IntSort())
    st.data = SArr.fresh(st.N, lambda p: st.D(I(p)), enc="BaseEncoding")
    st.selfv = SRec(_FIB(), _data=st.data, _new_lines=SArr.fresh(st.L, lambda j: st.nl(I(j))), _new_entries=SArr.fresh(st.E1, lambda e: st.ne(I(e))),
                    _is_validated=True)
    st.args = []
    from bionumpy.io.multiline_buffer import FastaIdxBuilder
    names = ("chromosome", "length", "start", "characters_per_line", "line_length", "byte_size")

    def ctor(ip, args, kwargs, lineno):
        st.row_args = dict(zip(names, args))
        st.row_args.update(kwargs)
        return types.SimpleNamespace(cols=st.row_args)
    ctx.ip.class_models[FastaIdxBuilder] = ctor       # the generated dataclass __init__ is abstract: the observation point is the constructor call
    return st


def _gd_lines(st):
    ls = lambda j: Ite(I(j) == 0, 0, st.nl(I(j) - 1) + 1)
    le = lambda j: Ite(I(j) < st.L, st.nl(I(j)), st.N - 1)
    h = lambda e: Ite(I(e) == 0, 0, st.ne(I(e) - 1) + 1)
    return ls, le, h


def _req_gd(ctx, st):
    return [st.N >= 1, st.L >= 0, st.E1 >= 0,
            Forall(lambda p: And(st.D(p) >= 0, st.D(p) < 256), triggers=[st.D], name="bytes"),
            Forall(lambda j: Implies(in_range(j, st.L), And(st.nl(j) >= 0, st.nl(j) < st.N - 1)), triggers=[st.nl], name="inner newlines lie before the last byte"),
            Forall(lambda j: Implies(And(in_range(j, st.L), j + 1 < st.L), st.nl(j) < st.nl(j + 1)), triggers=[st.nl], name="newline positions increase"),
            Forall(lambda e: Implies(in_range(e, st.E1), And(st.ne(e) >= 0, st.ne(e) + 1 < st.L + 1 - 0, st.ne(e) + 1 <= st.L - 1 + 1 - 1 + 0)), triggers=[st.ne],
                   name="every later header line is followed by at least one more line (an entry has a sequence line)"),
            Forall(lambda e: Implies(And(in_range(e, st.E1), e + 1 < st.E1), st.ne(e) + 1 < st.ne(e + 1)), triggers=[st.ne], name="header lines increase and are not adjacent"),
            Implies(st.E1 > 0, st.ne(0) >= 1), st.L >= 1,
            Forall(lambda j: Implies(in_range(j, st.L), st.D(st.nl(j) - 1) != 13), triggers=[st.nl], name="LF line ends (no carriage returns)"), st.D(st.N - 2) != 13]


def _ens_gd(ctx, st, ret):
    ls, le, h = _gd_lines(st)
    E = st.E1 + 1
    cols = ret.cols if hasattr(ret, "cols") else None
    st.ret = ret
    out = [("a.table.is.returned", cols is not None)]
    if cols is None:
        return out
    off, lenc, lenb, bs, names = cols["start"], cols["characters_per_line"], cols["line_length"], cols["byte_size"], cols["chromosome"]
    return out + [
        ("names: one row per entry", I(names.n) == E),
        ("names: row e has the length of the header line of entry e without its '>' and its newline",
         Forall(lambda e: Implies(in_range(e, E), I(names.lens(e)) == Max(le(h(e)) - ls(h(e)) - 1, 0)))),
        ("names: row e is the text of the header line of entry e after its '>'",
         Forall(lambda e, k: Implies(And(in_range(e, E), in_range(k, le(h(e)) - ls(h(e)) - 1)), names.at(e, k) == st.D(ls(h(e)) + 1 + k)), nvars=2)),
        ("byte_size: one per entry", I(bs.count) == E),
        ("byte_size: every row carries the chunk size", Forall(lambda e: Implies(in_range(e, E), I(bs.at(e)) == st.N))),
        ("one.row.per.entry", And(I(off.length) == E, I(lenc.length) == E, I(lenb.length) == E)),
        ("offset: first base of entry e is the byte after its header's newline", Forall(lambda e: Implies(in_range(e, E), off.at(e) == le(h(e)) + 1))),
        ("lenc: bases in the first sequence line", Forall(lambda e: Implies(in_range(e, E), lenc.at(e) == le(h(e) + 1) - (le(h(e)) + 1)))),
        ("lenb: bytes of the first sequence line with its newline", Forall(lambda e: Implies(in_range(e, E), lenb.at(e) == le(h(e) + 1) + 1 - (le(h(e)) + 1)))),
        ]


fasta_idx_rows = Contract("C17.FastaIdxBuffer.get_data", target=lambda: _FIB().get_data, setup=_setup_gd, requires=_req_gd, ensures=_ens_gd,
                          may_raise=[("IndexError", "gather.inbounds", "seq_lens_ends_line_offsets"), ("ValueError", "ragged.size", "sequences_RaggedArray")],
                          note="partial: the `length` column (sum of the entry's sequence-line lengths) is not under this contract - bounded (rtc/enum_c17.py)",
                          canaries=[("byte size one short", "[self._data.size]*len(headers)", "[self._data.size-1]*len(headers)"),
                                    ("offset of the header line", "seq_starts = line_starts[new_entries+1]", "seq_starts = line_starts[new_entries]"),
                                    ("line length without the newline", "line_lens+1,", "line_lens,"),
                                    ("bases per line from the header", "seq_line_ends = line_ends[new_entries+1]", "seq_line_ends = line_ends[new_entries]")])
CONTRACTS.append(fasta_idx_rows)
