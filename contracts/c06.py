"""C06 - alphabet encodings accept exactly their alphabet and never change the text.

Proved kernel: AlphabetEncoding._initialize / _encode / _decode for an ARBITRARY alphabet of n distinct upper-cased
symbols (n = 1, 2, 4 symbolic symbols - each n a separate, loop-free, full-domain proof), against the spec
    lookup[b] = k  if alphabet[k] == up(b)  for some k, else 255 (invalid),      up = ASCII upper-casing of a..z
for EVERY byte b in 0..255.  uint8 arithmetic (`alphabet + 32`) is modelled modulo 256.
"""
import types
import z3
from pyvc.core import I, B, And, Or, Not, Implies, Ite, Min, Max, in_range, Forall, SArr, SRec, Opaque, conc
from pyvc.verify import Contract

ASSUMPTIONS = ["NumPy uint8 arithmetic wraps modulo 256", "scatter with duplicate targets is excluded by the distinct-symbols precondition"]
NOT_PROVED = ["type dispatch in OneToOneEncoding.encode / as_encoded_array (str, list, ragged, ndarray): bounded",
              "re-targeting rule of as_encoded_array and change_encoding: bounded", "numeric quality/digit offset encodings: bounded"]


class St(types.SimpleNamespace):
    pass


def _A():
    from bionumpy.encodings.alphabet_encoding import AlphabetEncoding
    return AlphabetEncoding


def up(b):
    return Ite(And(I(b) >= 97, I(b) <= 122), I(b) - 32, I(b))


def spec_lookup(st, b):
    r = z3.IntVal(255)
    for k in range(st.n - 1, -1, -1):
        r = z3.If(up(b) == st.A[k], z3.IntVal(k), r)
    return r


def _setup(n):
    def setup(ctx):
        st = St()
        st.n = n
        st.A = [z3.Int("sym%d" % k) for k in range(n)]
        st.selfv = SRec(_A(), _raw_alphabet=list(st.A), _is_initialized=False, _alphabet_size=n)
        st.args = []
        return st
    return setup


def _req(ctx, st):
    r = []
    for k, a in enumerate(st.A):
        r += [a >= 0, a < 128, Not(And(a >= 97, a <= 122))]         # ASCII symbols; __init__ upper-cases the alphabet
        for a2 in st.A[:k]:
            r.append(a != a2)
    return r


def _ens_init(ctx, st, ret):
    lk, al = st.selfv.get("_lookup"), st.selfv.get("_alphabet")
    return [("table.size", I(lk.length) == 256),
            ("lookup.accepts.exactly.the.alphabet (case-insensitive letters)", Forall(lambda b: Implies(in_range(b, 256), lk.at(b) == spec_lookup(st, b)))),
            ("alphabet.kept", And(*[al.at(k) == st.A[k] for k in range(st.n)])),
            ("initialized", st.selfv.get("_is_initialized") is True)]


def _concretize(model, ctx, st, oid):
    from bionumpy.encodings.alphabet_encoding import AlphabetEncoding
    import numpy as np
    A = [model.eval(a, model_completion=True).as_long() for a in st.A]
    if any(a > 127 for a in A):
        return {"reproduced": None, "why": "model uses non-ASCII symbols"}
    alphabet = "".join(chr(a) for a in A)
    enc = AlphabetEncoding(alphabet)
    enc._initialize()
    bad = []
    for b in range(256):
        ub = b - 32 if 97 <= b <= 122 else b
        exp = A.index(ub) if ub in A else 255
        if int(enc._lookup[b]) != exp:
            bad.append((b, chr(b) if 32 <= b < 127 else "\\x%02x" % b, int(enc._lookup[b]), exp))
    return {"reproduced": bool(bad), "input": {"alphabet": alphabet}, "observed_vs_expected(byte, char, lookup, spec)": bad[:8]}


def _mk(n):
    return Contract("C06.AlphabetEncoding._initialize[%d symbolic symbols]" % n, target=lambda: _A()._initialize, setup=_setup(n), requires=_req,
                    ensures=_ens_init, concretize=_concretize,
                    canaries=[("no lower-case entries", "self._lookup[lower_alphabet] = np.arange(len(alphabet))", "self._lookup[self._alphabet] = np.arange(len(alphabet))"),
                              ("lower case 31 above", "self._alphabet + ord(\"a\")-ord(\"A\"), self._alphabet)", "self._alphabet + ord(\"a\")-ord(\"B\"), self._alphabet)"),
                              ("+32 for every symbol (the repaired defect)", "lower_alphabet = np.where(is_letter, self._alphabet + ord(\"a\")-ord(\"A\"), self._alphabet)", "lower_alphabet = (self._alphabet + ord(\"a\")-ord(\"A\"))")])


init1, init2, init4 = _mk(1), _mk(2), _mk(4)


# --- _encode / _decode for an arbitrary 2-symbol alphabet and an arbitrary byte array ------------------------------------------------
def _setup_encode(ctx):
    st = _setup(2)(ctx)
    st.m = z3.Int("n_bytes")
    st.b = z3.Function("byte", z3.IntSort(), z3.IntSort())
    st.args = [SArr.fresh(st.m, lambda i: st.b(I(i)))]
    return st


def _req_encode(ctx, st):
    return _req(ctx, st) + [st.m >= 0, Forall(lambda i: And(st.b(i) >= 0, st.b(i) < 256), triggers=[st.b], name="bytes")]


def _ens_encode(ctx, st, ret):
    return [("length", ret.length == st.m),
            ("accepted only if every byte is in the alphabet; the code is the symbol's index",
             Forall(lambda i: Implies(in_range(i, st.m), And(spec_lookup(st, st.b(i)) != 255, ret.at(i) == spec_lookup(st, st.b(i))))))]


def _raise_encode(ctx, st):
    r, w = ctx.ghost["any_witness"][-1]
    return [("raises.only.for.a.foreign.byte", And(in_range(w, st.m), spec_lookup(st, st.b(w)) == 255))]


def _initialize_contract(holder):
    """callee contract of _initialize (proved above for any alphabet): after it, _lookup is the spec table and _alphabet the symbols"""
    def handler(ip, args, kwargs, lineno):
        st = holder["st"]
        selfv = args[0]
        selfv.set("_lookup", SArr.fresh(256, lambda b: spec_lookup(st, b)))
        selfv.set("_alphabet", SArr.fresh(st.n, lambda k: Ite(I(k) == 0, st.A[0], st.A[1])))
        selfv.set("_is_initialized", True)
        return None
    return handler


_he = {}


def _wrap_setup(f):
    def setup(ctx):
        st = f(ctx)
        _he["st"] = st
        return st
    return setup


INIT_CALLEE = {"bionumpy.encodings.alphabet_encoding.AlphabetEncoding._initialize": _initialize_contract(_he)}

encode2 = Contract("C06.AlphabetEncoding._encode[2 symbolic symbols]", target=lambda: _A()._encode, setup=_wrap_setup(_setup_encode), requires=_req_encode, callees=INIT_CALLEE,
                   ensures=_ens_encode, raises={"EncodingError": _raise_encode}, dropped=["exception message construction (its value is not used)"],
                   canaries=[("last position unchecked", "if np.any(ret >= self._alphabet_size):", "if np.any(ret[:-1] >= self._alphabet_size):"),
                             ("threshold off by one", "ret >= self._alphabet_size", "ret > self._alphabet_size + 253")])


def _setup_decode(ctx):
    st = _setup(2)(ctx)
    st.m = z3.Int("n_codes")
    st.c = z3.Function("code", z3.IntSort(), z3.IntSort())
    st.args = [SArr.fresh(st.m, lambda i: st.c(I(i)))]
    return st


decode2 = Contract("C06.AlphabetEncoding._decode[2 symbolic symbols]", target=lambda: _A()._decode, setup=_wrap_setup(_setup_decode), callees=INIT_CALLEE,
                   requires=lambda ctx, st: _req(ctx, st) + [st.m >= 0, Forall(lambda i: Implies(in_range(i, st.m), in_range(st.c(i), 2)), triggers=[st.c], name="valid codes")],
                   ensures=lambda ctx, st, ret: [("decode.is.the.alphabet.symbol", Forall(lambda i: Implies(in_range(i, st.m), ret.at(i) == Ite(st.c(i) == 0, st.A[0], st.A[1]))))],
                   canaries=[("lookup instead of alphabet", "return self._alphabet[array]", "return self._lookup[array]")])

CONTRACTS = [init1, init2, init4, encode2, decode2]
from contracts import thorough as _thorough      # noqa: E402
if _thorough():
    CONTRACTS += [_mk(3), _mk(6)]


# --- numeric encodings by offset (DigitEncoding, QualityEncoding, CigarEncoding): DigitEncodingFactory._encode / _decode --------------------
# for EVERY offset (self._min_code is symbolic): encode subtracts it, decode adds it, element by element; so decode(encode(x)) = x.
def _DEF():
    from bionumpy.encodings import DigitEncodingFactory
    return DigitEncodingFactory


def _setup_num(ctx):
    st = St()
    st.n, st.m = z3.Int("n"), z3.Int("min_code")
    st.x = z3.Function("x", z3.IntSort(), z3.IntSort())
    st.selfv = SRec(_DEF(), _min_code=st.m)
    st.args = [SArr.fresh(st.n, lambda i: st.x(I(i)))]
    return st


num_encode = Contract("C06.DigitEncodingFactory._encode[any offset]", target=lambda: _DEF()._encode, setup=_setup_num,
                      requires=lambda ctx, st: [st.n >= 0],
                      ensures=lambda ctx, st, ret: [("length", I(ret.length) == st.n),
                                                    ("code.is.byte.minus.offset", Forall(lambda i: Implies(in_range(i, st.n), I(ret.at(i)) == st.x(i) - st.m))),
                                                    ("argument.not.modified", st.args[0].buf.at is st.args0_at)],
                      canaries=[("offset added", "return bytes_array - self._min_code", "return bytes_array + self._min_code")])
num_decode = Contract("C06.DigitEncodingFactory._decode[any offset]", target=lambda: _DEF()._decode, setup=_setup_num,
                      requires=lambda ctx, st: [st.n >= 0],
                      ensures=lambda ctx, st, ret: [("length", I(ret.length) == st.n),
                                                    ("byte.is.code.plus.offset (inverse of _encode)", Forall(lambda i: Implies(in_range(i, st.n), I(ret.at(i)) == st.x(i) + st.m))),
                                                    ("argument.not.modified", st.args[0].buf.at is st.args0_at)],
                      canaries=[("off by one", "return digits + self._min_code", "return digits + self._min_code + 1")])
_setup_num0 = _setup_num


def _setup_num(ctx):
    st = _setup_num0(ctx)
    st.args0_at = st.args[0].buf.at
    return st


num_encode.setup = num_decode.setup = _setup_num
CONTRACTS += [num_encode, num_decode]


# --- re-targeting of already encoded data (as_encoded_array, the branch for an alphabet-encoded argument and an alphabet target) -----------------
# For alphabets A_src, A_tgt given as lists of symbols of ANY lengths and any code array: if the call returns, the result carries the SAME codes
# under the target encoding and every code that occurs denotes the same symbol in both alphabets (so the text is unchanged), and every code is a
# valid code of the target.  Otherwise EncodingException.
def _AEA():
    import bionumpy.encoded_array as m
    return m.as_encoded_array


class _Alpha:
    """an alphabet encoding object: get_alphabet() is a list of symbols (symbolic length and content)"""

    def __init__(self, name, count, fn, base=False):
        self.name, self.count, self.fn, self.base = name, count, fn, base

    def getattr(self, ip, name, lineno):
        me = self
        if name == "get_alphabet":
            class _GA:
                def sym_call(self_, ip, args, kwargs, lineno):
                    return SymList(me.count, lambda k: me.fn(I(k)))
            return _GA()
        if name == "is_base_encoding":
            class _IB:
                def sym_call(self_, ip, args, kwargs, lineno):
                    return me.base
            return _IB()
        raise AttributeError(name)

    def sym_hasattr(self, name):
        return name in ("get_alphabet", "is_base_encoding")


def _setup_rt(ctx):
    from pyvc.core import SymList as _SL  # noqa
    st = St()
    st.n, st.ns, st.nt = z3.Int("n"), z3.Int("n_src_symbols"), z3.Int("n_tgt_symbols")
    st.code, st.As, st.At = z3.Function("code", z3.IntSort(), z3.IntSort()), z3.Function("A_src", z3.IntSort(), z3.IntSort()), z3.Function("A_tgt", z3.IntSort(), z3.IntSort())
    st.src, st.tgt = _Alpha("src", st.ns, st.As), _Alpha("tgt", st.nt, st.At)
    st.raw = SArr.fresh(st.n, lambda i: st.code(I(i)))
    st.s = SRec(_EA(), data=st.raw, encoding=st.src)
    st.args = [st.s, st.tgt]
    return st


def _EA():
    import bionumpy.encoded_array as m
    return m.EncodedArray


def _ens_rt(ctx, st, ret):
    data = ret.get("data") if isinstance(ret, SRec) else ret
    return [("same.codes", data is st.raw or (isinstance(data, SArr) and data.buf is st.raw.buf)),
            ("target.encoding", (ret.get("encoding") if isinstance(ret, SRec) else getattr(ret, "enc", None)) is st.tgt),
            ("every.code.that.occurs.denotes.the.same.symbol.in.both.alphabets",
             Forall(lambda i: Implies(in_range(i, st.n), st.As(st.code(i)) == st.At(st.code(i))))),
            ("every.code.is.a.code.of.the.target", Forall(lambda i: Implies(in_range(i, st.n), st.code(i) < st.nt)))]


from pyvc.core import SymList    # noqa: E402
def mk_retarget(prefix):
    return Contract("%s.as_encoded_array[re-target alphabet -> alphabet]" % prefix, target=_AEA, setup=_setup_rt,
                    requires=lambda ctx, st: [st.n >= 0, st.ns >= 1, st.nt >= 1,
                                              Forall(lambda i: Implies(in_range(i, st.n), And(st.code(i) >= 0, st.code(i) < st.ns)), triggers=[st.code], name="codes are codes of the source alphabet")],
                    ensures=_ens_rt, raises={"EncodingException": lambda ctx, st: []},
                    canaries=[("largest code not compared", "get_alphabet()[:m + 1] == target_encoding.get_alphabet()[:m + 1]", "get_alphabet()[:m] == target_encoding.get_alphabet()[:m]"),
                              ("bound check dropped", "if not m < len(target_encoding.get_alphabet()):", "if False:")])


retarget = mk_retarget("C06")
CONTRACTS.append(retarget)
