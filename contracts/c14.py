"""C14 - reverse complement, stranded extraction and translation are biologically exact.

Proved kernels:
  K1  the ASCII complement table (_get_ascii_complement_lookup, executed symbolically - its loop runs over the literal
      dict): every DNA symbol in BOTH cases maps to its complement (A<->T, C<->G, N fixed), and the table is an
      involution on those symbols;
  K2  complement(ragged): shape preserved, every letter replaced by its table entry;
  K3  get_reverse_complement(ragged) = reversed rows of the complement: rc(x)[r][j] = comp(x[r][L_r-1-j]), row lengths
      preserved; with K1's involution, rc(rc(x)) = x.
"""
import types
import z3
from pyvc.core import I, B, And, Or, Not, Implies, Ite, Min, Max, in_range, Forall, SArr, SRec, Opaque, conc
from pyvc import npmodel as M
from pyvc.pybuiltins import SRaggedObj
from pyvc.verify import Contract

ASSUMPTIONS = ["Lookup(values)[x] indexes `values` with the raw codes of x (sequence/lookup.py, inlined where reached)",
               "npstructures ragged [..., ::-1] reverses every row; EncodedRaggedArray(data, shape) re-wraps",
               "@streamable() / @apply_to_npdataclass('sequence') are the identity on a plain encoded (ragged) array argument"]
NOT_PROVED = ["alphabet-encoding complement table (built through as_encoded_array): bounded - exhaustive over every symbol of every encoding",
              "strand-specific choice (np.where on ragged arrays), GenomicSequence.extract_intervals: bounded",
              "codon table (64 codons) and Translate/windowed index arithmetic through KmerEncoder: bounded - exhaustive over all codons"]


class St(types.SimpleNamespace):
    pass


COMP = {"A": "T", "C": "G", "G": "C", "T": "A", "N": "N"}


def _dna():
    from bionumpy.sequence import dna
    return dna


# --- K1 ----------------------------------------------------------------------------------------------------------------
def _lookup_model(ip, args, kwargs, lineno):
    return SRec(None, values=args[0])


def _setup_k1(ctx):
    from bionumpy.sequence.lookup import Lookup
    ctx.ip.class_models[Lookup] = _lookup_model
    st = St()
    st.args = []
    return st


def _ens_k1(ctx, st, ret):
    v = ret.get("values")
    goals = [("table.size", I(v.length) == 128)]
    for k, c in COMP.items():
        goals.append(("upper.%s" % k, v.at(ord(k)) == ord(c)))
        goals.append(("lower.%s" % k.lower(), v.at(ord(k.lower())) == ord(c.lower())))
    for k in COMP:
        goals.append(("involution.%s" % k, v.at(v.at(ord(k))) == ord(k)))
    return goals


def _conc_k1(model, ctx, st, oid):
    from bionumpy.sequence.dna import _get_ascii_complement_lookup
    t = _get_ascii_complement_lookup()._values.raw()
    bad = [(chr(b), int(t[b]), ord(COMP[chr(b).upper()].lower() if chr(b).islower() else COMP[chr(b)])) for b in map(ord, "ACGTNacgtn")
           if int(t[b]) != ord(COMP[chr(b).upper()].lower() if chr(b).islower() else COMP[chr(b)])]
    return {"reproduced": bool(bad), "input": "ASCII complement table", "observed_vs_expected(symbol, table, spec)": bad}


ascii_table = Contract("C14._get_ascii_complement_lookup", target=lambda: _dna()._get_ascii_complement_lookup, setup=_setup_k1, ensures=_ens_k1,
                       concretize=_conc_k1,
                       canaries=[("identity table", "values[ord(key)] = ord(value)", "values[ord(key)] = ord(key)")])


# --- K2 / K3 -------------------------------------------------------------------------------------------------------------
def _ragged(ctx, st):
    st.n = z3.Int("n_rows")
    st.L = z3.Function("rowlen", z3.IntSort(), z3.IntSort())
    st.x = z3.Function("x", z3.IntSort(), z3.IntSort())
    st.comp = z3.Function("comp", z3.IntSort(), z3.IntSort())
    st.Lf = lambda i: st.L(I(i))
    st.C = M.exclusive_prefix(st.Lf, st.n)
    st.N = st.C(st.n)
    st.seq = SRaggedObj(lambda p: st.x(I(p)), st.n, lambda i: st.C(I(i)), st.Lf, "BaseEncoding", st.N, contiguous=True, C=st.C)
    return st


class _AbstractLookup:
    def __init__(self, st):
        self.st = st

    def getitem(self, ip, idx, lineno):
        f = idx.snapshot()
        return SArr.fresh(idx.length, lambda p: self.st.comp(I(f(p))), "int", idx.enc)


def _req_rag(ctx, st):
    ctx.assume(st.n >= 0, Forall(lambda i: Implies(in_range(i, st.n), st.L(i) >= 0), triggers=[st.L], name="row lengths >= 0"))
    M.prefix_monotone(st.C, st.Lf, st.n)
    return []


def _setup_k2(ctx):
    st = _ragged(ctx, St())
    st.args = [st.seq]
    return st


_hold = {}


def _callee_lookup(ip, args, kwargs, lineno):
    return _AbstractLookup(_hold["st"])


def _setup_k2b(ctx):
    st = _setup_k2(ctx)
    _hold["st"] = st
    return st


def _ens_k2(ctx, st, ret):
    return [("rows", I(ret.n) == st.n), ("row.lengths", Forall(lambda r: Implies(in_range(r, st.n), I(ret.lens(r)) == st.L(r)))),
            ("letters", Forall(lambda r, j: Implies(And(in_range(r, st.n), in_range(j, st.L(r))), ret.at(r, j) == st.comp(st.x(st.C(r) + j))), nvars=2)),
            ("encoding.kept", ret.enc == "BaseEncoding")]


CALLEES = {"bionumpy.sequence.dna._get_complement_lookup": _callee_lookup,
           "bionumpy.encoded_array.as_encoded_array": lambda ip, args, kwargs, lineno: args[0]}

complement = Contract("C14.complement[ragged]", target=lambda: _dna().complement, setup=_setup_k2b, requires=_req_rag, ensures=_ens_k2, callees=CALLEES,
                      canaries=[("shape lost", "new_data = EncodedRaggedArray(new_data, _array._shape)", "new_data = new_data")])


def _ens_k3(ctx, st, ret):
    return [("rows", I(ret.n) == st.n), ("row.lengths.preserved", Forall(lambda r: Implies(in_range(r, st.n), I(ret.lens(r)) == st.L(r)))),
            ("reverse.complement", Forall(lambda r, j: Implies(And(in_range(r, st.n), in_range(j, st.L(r))),
                                                              ret.at(r, j) == st.comp(st.x(st.C(r) + st.L(r) - 1 - j))), nvars=2))]


reverse_complement = Contract("C14.get_reverse_complement[ragged]", target=lambda: ("ast", "bionumpy/sequence/dna.py", "get_reverse_complement", "bionumpy.sequence.dna"),
                              setup=_setup_k2b, requires=_req_rag, ensures=_ens_k3, callees=CALLEES,
                              decorators={"@streamable()": "identity when no stream argument is passed", "@apply_to_npdataclass('sequence')": "identity on a non-dataclass argument"},
                              canaries=[("not reversed", "complement(sequence)[..., ::-1]", "complement(sequence)[..., ::1]")])

CONTRACTS = [ascii_table, complement, reverse_complement]


# --- K4: translation works codon by codon and never across a row border (WindowFunction.windowed) ---------------------------------------------
# For rows whose lengths are multiples of 3: output row r has L_r / 3 entries and entry t is the table's value for exactly the codon
# x[s_r + 3t], x[s_r + 3t + 1], x[s_r + 3t + 2] of the SAME row (the codon -> amino acid table itself, 64 entries, is checked exhaustively
# by the bounded enumerator).  Lemma by induction: row starts are multiples of 3 (C(r) = 3 * C3(r)).
def _WF():
    from bionumpy.sequence.translate import Translate
    return Translate


class _CodonFn:
    def __init__(self, st):
        self.st = st

    def sym_call(self, ip, args, kwargs, lineno):
        st, c = self.st, ip.ctx
        t = args[0]
        c.oblige("%s:callee.codon.matrix.shape" % c.fname, And(I(t.cols) == 3, 3 * I(t.rows) == st.N), "requires")
        f2 = t.snapshot2()
        return SArr.fresh(t.rows, lambda k: st.AA(I(f2(k, 0)), I(f2(k, 1)), I(f2(k, 2))))


def _setup_k4(ctx):
    st = _ragged(ctx, St())
    st.AA = z3.Function("amino_acid_of_codon", z3.IntSort(), z3.IntSort(), z3.IntSort(), z3.IntSort())
    st.selfv = SRec(_WF(), _encoding="TCAG", _table=SRec(None, to_encoding="BaseEncoding"))
    st.selfv.set("__call__", _CodonFn(st))
    st.args = [st.seq]
    return st


def _req_k4(ctx, st):
    _req_rag(ctx, st)
    st.K = z3.Function("codons_in_row", z3.IntSort(), z3.IntSort())
    return [Forall(lambda i: Implies(in_range(i, st.n), And(st.L(i) == 3 * st.K(i), st.K(i) >= 0)), triggers=[st.L], name="row lengths are multiples of 3")]


def _ghost_k4(ip, env, st):
    """before the flat data is cut into codons: row starts are multiples of 3 (C(i) = 3 * CK(i), induction over both recurrences)"""
    st.CK = M.exclusive_prefix(lambda i: st.K(I(i)), st.n)
    ip.ctx.induct("C14.windowed:lemma.row.starts.are.multiples.of.3", lambda i: st.C(i) == 3 * st.CK(i), st.C, lo=0, hi=st.n)


def _ens_k4(ctx, st, ret):
    third = lambda r: ctx.divmod_(st.L(I(r)), 3)[0]
    return [("rows", I(ret.n) == st.n),
            ("row.length.is.a.third", Forall(lambda r: Implies(in_range(r, st.n), 3 * I(ret.lens(r)) == st.L(r)))),
            ("entry.t.is.the.codon.t.of.the.same.row", Forall(lambda r, t: Implies(And(in_range(r, st.n), in_range(t, ret.lens(r))),
                                                                                  And(ret.at(r, t) == st.AA(st.x(st.C(r) + 3 * t), st.x(st.C(r) + 3 * t + 1), st.x(st.C(r) + 3 * t + 2)),
                                                                                      st.C(r) + 3 * t + 2 < st.C(r) + st.L(r))), nvars=2))]


def _setup_k4b(ctx):
    st = _setup_k4(ctx)
    _hold["st"] = st
    return st


windowed = Contract("C14.WindowFunction.windowed[codons]", target=lambda: _WF().windowed, setup=_setup_k4b, requires=_req_k4, ensures=_ens_k4,
                    callees=CALLEES, ghost=[("tuples = sequences.ravel()", _ghost_k4)],
                    hints=lambda ctx, st, ks: [st.C(st.n)] + ([st.C(ks[0]), st.C(ks[0] + 1)] if ks else []),
                    canaries=[("window of 2", "tuples = sequences.ravel().reshape(-1, self.window_size)", "tuples = sequences.ravel().reshape(-1, 2)"),
                              ("row lengths not divided", "sequences.lengths // self.window_size)", "sequences.lengths)")])
CONTRACTS.append(windowed)


# --- GenomicSequence.extract_intervals: the strand column chooses, row by row, between the extracted sequence and its reverse complement ----------
# `_extract_intervals` (the backend) and `get_reverse_complement` (contract above) are abstract: S and RC are ragged arrays with the same row lengths.
def _GS():
    from bionumpy.genomic_data.genomic_sequence import GenomicSequence
    return GenomicSequence


class _Bound:
    def __init__(self, f):
        self.f = f

    def sym_call(self, ip, args, kwargs, lineno):
        return self.f(ip, args, kwargs, lineno)


def _setup_ei(stranded):
    def setup(ctx):
        from pyvc.pybuiltins import STable
        st = St()
        st.n, st.T = z3.Int("n_intervals"), z3.Int("n_bases")
        st.len, st.strand = z3.Function("row_length", z3.IntSort(), z3.IntSort()), z3.Function("strand", z3.IntSort(), z3.IntSort())
        st.s, st.rc = z3.Function("base", z3.IntSort(), z3.IntSort(), z3.IntSort()), z3.Function("rc_base", z3.IntSort(), z3.IntSort(), z3.IntSort())
        st.C = M.exclusive_prefix(lambda i: st.len(I(i)), st.n)
        mk = lambda f: SRaggedObj(None, st.n, lambda i: st.C(I(i)), lambda i: st.len(I(i)), "DNA", st.C(st.n), contiguous=True, C=st.C)
        st.S, st.RC = mk(st.s), mk(st.rc)
        st.S.at = lambda i, k: st.s(I(i), I(k))
        st.RC.at = lambda i, k: st.rc(I(i), I(k))
        st.iv = STable({"chromosome": Opaque("chromosome"), "start": Opaque("start"), "stop": Opaque("stop"),
                        "strand": SArr.fresh(st.n, lambda i: st.strand(I(i)), enc="strand/ascii")}, st.n)
        st.selfv = SRec(_GS())
        st.seen = {}
        ctx.ip.class_models[(_GS(), "_extract_intervals")] = lambda ip, obj: _Bound(lambda ip, args, kwargs, lineno: (st.seen.__setitem__("extract", args[0]), st.S)[1])
        st.args = [st.iv]
        st.kwargs = {"stranded": stranded}
        st.stranded = stranded
        _hei["st"] = st
        return st
    return setup


_hei = {}


def _rc_callee(ip, args, kwargs, lineno):
    st = _hei["st"]
    st.seen["rc_of"] = args[0]
    return st.RC


def _ens_ei(ctx, st, ret):
    out = [("the.backend.is.asked.for.the.intervals.given", st.seen.get("extract") is st.iv), ("one.row.per.interval", I(ret.n) == st.n)]
    if not st.stranded:
        return out + [("unstranded: the extracted sequences themselves", Forall(lambda i, k: Implies(And(in_range(i, st.n), in_range(k, st.len(i))),
                                                                                                    And(I(ret.lens(i)) == st.len(i), ret.at(i, k) == st.s(i, k))), nvars=2))]
    plus = lambda i: st.strand(i) == ord("+")
    return out + [("the.reverse.complement.is.taken.of.the.extracted.sequences", st.seen.get("rc_of") is st.S),
                  ("row.length", Forall(lambda i: Implies(in_range(i, st.n), I(ret.lens(i)) == st.len(i)))),
                  ("row.i.is.the.sequence.on.'+'.and.its.reverse.complement.otherwise",
                   Forall(lambda i, k: Implies(And(in_range(i, st.n), in_range(k, st.len(i))), ret.at(i, k) == Ite(plus(i), st.s(i, k), st.rc(i, k))), nvars=2))]


def _mk_ei(stranded):
    return Contract("C14.GenomicSequence.extract_intervals[%s]" % ("stranded" if stranded else "unstranded"), target=lambda: _GS().extract_intervals, setup=_setup_ei(stranded),
                    requires=lambda ctx, st: [st.n >= 0, Forall(lambda i: st.len(i) >= 0, triggers=[st.len], name="row lengths")], ensures=_ens_ei,
                    callees={"bionumpy.genomic_data.genomic_sequence.dna_encode": lambda ip, args, kwargs, lineno: args[0],
                             "bionumpy.sequence.dna.get_reverse_complement": _rc_callee,
                             "bionumpy.streams.decorators.streamable.__call__.<locals>.new_func": _rc_callee},
                    canaries=[("strands swapped", "(intervals.strand == '+')[:, np.newaxis]", "(intervals.strand != '+')[:, np.newaxis]")] if stranded else
                             [("always reverse-complemented", "if stranded:", "if True:")])


CONTRACTS += [_mk_ei(True), _mk_ei(False)]
