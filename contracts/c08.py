"""C08 - interval-set operations equal their per-base definitions.

Proved kernels (engine P): the pointwise clauses "clipping and strand-aware extension keep every interval
inside the contig".  The sort-and-count operations (pileup, mask, merge maximality, overlap, intersect, sort)
are NOT within reach of this family here: bounded stand-in only (rtc/enum_c08.py).
"""
import types
import z3
from pyvc.core import I, B, And, Or, Not, Implies, Ite, Min, Max, in_range, Forall, SArr, conc
from pyvc.pybuiltins import STable
from pyvc.verify import Contract

ASSUMPTIONS = ["bnpdataclass tables are column-aligned records; replace() swaps columns (C19, bounded)",
               "np.where / np.minimum / np.maximum are elementwise (validated bounded)"]
NOT_PROVED = ["pileup, boolean mask (its composition of argsort, merge and from_intervals), sort order, overlap counting, intersection, unique intersection, "
              "Jaccard/Forbes: sort-and-count arguments - decided by the bounded enumeration only"]


class St(types.SimpleNamespace):
    pass


def _intervals(ctx, n, with_strand=True):
    st = St()
    st.n = n
    st.start, st.stop, st.strand = [z3.Function(x, z3.IntSort(), z3.IntSort()) for x in ("start", "stop", "strand")]
    cols = {"chromosome": SArr.fresh(n, lambda i: 0), "start": SArr.fresh(n, lambda i: st.start(I(i))),
            "stop": SArr.fresh(n, lambda i: st.stop(I(i)))}
    if with_strand:
        cols["strand"] = SArr.fresh(n, lambda i: st.strand(I(i)), enc="StrandEncoding/ascii")
    st.table = STable(cols, n)
    return st


# ------------------------------------------------------------------------------------------
def _setup_extend(ctx):
    n = z3.Int("n")
    st = _intervals(ctx, n)
    st.L = z3.Int("fragment_length")
    st.size = z3.Function("size", z3.IntSort(), z3.IntSort())
    st.args = [st.table, st.L, SArr.fresh(n, lambda i: st.size(I(i)))]
    return st


def _req_extend(ctx, st):
    return [st.n >= 0, st.L >= 0,
            Forall(lambda i: Implies(in_range(i, st.n), And(0 <= st.start(i), st.start(i) <= st.stop(i), st.stop(i) <= st.size(i))),
                   triggers=[st.start], name="intervals inside their contig")]


def _ens_extend(ctx, st, ret):
    s2, e2 = ret.cols["start"], ret.cols["stop"]
    plus = lambda i: st.strand(i) == ord("+")
    return [
        ("rows", And(s2.length == st.n, e2.length == st.n)),
        ("inside", Forall(lambda i: Implies(in_range(i, st.n), And(0 <= I(s2.at(i)), I(s2.at(i)) <= I(e2.at(i)), I(e2.at(i)) <= st.size(i))))),
        ("plus.keeps.start", Forall(lambda i: Implies(And(in_range(i, st.n), plus(i)), And(s2.at(i) == st.start(i), e2.at(i) == Min(st.start(i) + st.L, st.size(i)))))),
        ("minus.keeps.stop", Forall(lambda i: Implies(And(in_range(i, st.n), Not(plus(i))), And(e2.at(i) == st.stop(i), s2.at(i) == Max(st.stop(i) - st.L, 0))))),
        ("other.columns.kept", ret.cols["chromosome"] is st.table.cols["chromosome"] and ret.cols["strand"] is st.table.cols["strand"]),
    ]


def _extend():
    from bionumpy.arithmetics import intervals
    return intervals.extend_to_size


extend_to_size = Contract(
    "C08.extend_to_size", target=_extend, setup=_setup_extend, requires=_req_extend, ensures=_ens_extend,
    dropped=["docstring", "annotations"],
    canaries=[("minimum->maximum", "np.minimum(intervals.start+fragment_length, chromosome_size)", "np.maximum(intervals.start+fragment_length, chromosome_size)"),
              ("no clamp at 0", "np.maximum(intervals.stop-fragment_length, 0)", "intervals.stop-fragment_length"),
              ("strand swapped", 'intervals.strand.ravel() == "+"', 'intervals.strand.ravel() == "-"')])


# ------------------------------------------------------------------------------------------
def _setup_clip(ctx):
    n = z3.Int("n")
    st = _intervals(ctx, n, with_strand=False)
    st.size = z3.Function("size", z3.IntSort(), z3.IntSort())
    st.args = [st.table, SArr.fresh(n, lambda i: st.size(I(i)))]
    return st


def _req_clip(ctx, st):
    return [st.n >= 0, Forall(lambda i: Implies(in_range(i, st.n), st.size(i) >= 0), triggers=[st.size], name="sizes >= 0")]


def _ens_clip(ctx, st, ret):
    s2, e2 = ret.cols["start"], ret.cols["stop"]
    return [("rows", And(s2.length == st.n, e2.length == st.n)),
            ("definition", Forall(lambda i: Implies(in_range(i, st.n), And(s2.at(i) == Max(0, st.start(i)), e2.at(i) == Min(st.size(i), st.stop(i)))))),
            ("inside", Forall(lambda i: Implies(in_range(i, st.n), And(I(s2.at(i)) >= 0, I(e2.at(i)) <= st.size(i))))),
            ("identity.when.inside", Forall(lambda i: Implies(And(in_range(i, st.n), st.start(i) >= 0, st.stop(i) <= st.size(i)),
                                                             And(s2.at(i) == st.start(i), e2.at(i) == st.stop(i)))))]


def _clip():
    from bionumpy.arithmetics import intervals
    return intervals.clip


clip = Contract("C08.clip", target=_clip, setup=_setup_clip, requires=_req_clip, ensures=_ens_clip,
                dropped=["docstring", "annotations"],
                canaries=[("start not clamped", "start=np.maximum(0, intervals.start)", "start=np.minimum(0, intervals.start)"),
                          ("stop: max instead of min", "np.minimum(chrom_sizes, intervals.stop)", "np.maximum(chrom_sizes, intervals.stop)")])



# ------------------------------------------------------------------------------------------
# merge_intervals (one contig, sorted by start, stop >= start, distance d >= 0): the result is the list of MAXIMAL RUNS.
# With RM(k) = max(stop(0..k)) (spec function, defined by its recurrence) the input splits into groups: a new group starts at i
# iff start(i) > RM(i-1) + d.  Proved for every n >= 1:
#   tiling      the groups [bs(t), be(t)] are consecutive, start at row 0 and end at row n-1 (so every input row is in exactly one)
#   start/stop  output row t is [start(bs(t)), RM(be(t))]
#   contains    every member i of group t lies inside output row t
#   connected   inside a group no gap exceeds d: start(i) <= RM(i-1) + d for bs(t) < i <= be(t)
#   separated   consecutive output rows are more than d apart (this is also the function's final assert, which is discharged)
from pyvc import npmodel as M          # noqa: E402
from pyvc.core import PairForall       # noqa: E402


def _setup_merge(ctx):
    n = z3.Int("n")
    st = _intervals(ctx, n, with_strand=False)
    st.d = z3.Int("distance")
    st.RM = z3.Function("running_max_stop", z3.IntSort(), z3.IntSort())
    st.args = [st.table, st.d]
    return st


def _req_merge(ctx, st):
    return [st.n >= 1, st.d >= 0,
            PairForall(st.start, lambda a, b: Implies(And(0 <= a, a <= b, b < st.n), st.start(a) <= st.start(b)), name="sorted by start"),
            Forall(lambda i: Implies(in_range(i, st.n), st.start(i) <= st.stop(i)), triggers=[st.stop], name="stop >= start"),
            Forall(lambda k: Implies(in_range(k, st.n), st.RM(k) == Ite(I(k) == 0, st.stop(0), Max(st.RM(I(k) - 1), st.stop(k)))), triggers=[st.RM],
                   name="RM: running maximum of the stops (spec function, by recurrence)")]


def _ghost_merge(ip, env, st):
    """lemmas by induction: the code's running maximum is the spec's; RM is monotone; RM(k) >= stop(k)"""
    c = ip.ctx
    stops = env.vars["stops"]
    R = stops.snapshot()
    st.R = R
    c.induct("C08.merge_intervals:lemma.running.maximum.is.the.spec.function", lambda k: I(R(k)) == st.RM(k), st.RM, lo=0, hi=st.n - 1)
    c.induct("C08.merge_intervals:lemma.running.maximum.is.monotone", lambda k: Implies(I(k) + 1 <= st.n - 1, st.RM(k) <= st.RM(k + 1)), st.RM, lo=0, hi=st.n - 1)
    from pyvc.core import PairForall
    # engine lemma L2 (adjacent -> global monotone), premise = the lemma just proved
    M.use("engine lemma: adjacent monotone => monotone (pyvc/lemmas.py L2)")
    c.assume(PairForall(st.RM, lambda a, b: Implies(And(a >= 0, a <= b, b <= st.n - 1), st.RM(a) <= st.RM(b)), name="L2 RM monotone"))


def _ens_merge(ctx, st, ret):
    loc = st.ip.last_locals
    bs, m1 = M.flatnonzero_facts(loc["start_mask"])
    be, m2 = M.flatnonzero_facts(loc["stop_mask"])
    s2, e2 = ret.cols["start"], ret.cols["stop"]
    rows = s2.length
    st.bs, st.be, st.rows = bs, be, rows
    return [("rows", And(I(rows) >= 1, I(e2.length) == I(rows), I(ret.n) == I(rows), I(m1) == I(rows), I(m2) == I(rows))),
            ("tiling: the first group starts at row 0, the last ends at row n-1", And(I(bs(0)) == 0, I(be(I(rows) - 1)) == st.n - 1)),
            ("tiling: groups are non-empty and consecutive",
             Forall(lambda t: Implies(in_range(t, rows), And(0 <= I(bs(t)), I(bs(t)) <= I(be(t)), I(be(t)) <= st.n - 1,
                                                             Implies(t + 1 < I(rows), I(bs(t + 1)) == I(be(t)) + 1))))),
            ("output.row.t = [start(first member), running max at the last member]",
             Forall(lambda t: Implies(in_range(t, rows), And(I(s2.at(t)) == st.start(bs(t)), I(e2.at(t)) == st.RM(be(t)))))),
            ("contains: every member of group t lies inside output row t",
             Forall(lambda t, i: Implies(And(in_range(t, rows), I(bs(t)) <= i, i <= I(be(t))),
                                         And(I(s2.at(t)) <= st.start(i), st.stop(i) <= I(e2.at(t)))), nvars=2)),
            ("connected: no gap larger than the distance inside a group",
             Forall(lambda t, i: Implies(And(in_range(t, rows), I(bs(t)) < i, i <= I(be(t))), st.start(i) <= st.RM(i - 1) + st.d), nvars=2)),
            ("a.group.starts.only.after.a.gap", Forall(lambda t: Implies(And(in_range(t, rows), t >= 1), st.start(bs(t)) > st.RM(I(bs(t)) - 1) + st.d))),
            ("separated: consecutive output rows are more than the distance apart",
             Forall(lambda t: Implies(And(in_range(t, rows), t + 1 < I(rows)), I(s2.at(t + 1)) > I(e2.at(t)) + st.d))),
            ("other.columns.selected.like.start", True)]


def _hints_merge(ctx, st, ks):
    out = []
    if hasattr(st, "bs"):
        for k in ks[:2]:
            out += [st.bs(k), st.be(k), st.bs(k + 1), k - 1, st.RM(k), st.RM(k - 1), st.RM(st.be(k)), st.RM(st.bs(k) - 1)]
    return [t for t in out if z3.is_expr(t) and z3.is_int(t)]


merge = Contract("C08.merge_intervals", target=lambda: ("ast", "bionumpy/arithmetics/intervals.py", "merge_intervals", "bionumpy.arithmetics.intervals"),
                 setup=_setup_merge, requires=_req_merge, ensures=_ens_merge, hints=_hints_merge, rounds=2, timeout_ms=60000,
                 ghost=[("if distance > 0:\n    stops += distance", _ghost_merge)],
                 decorators={"@chromosome_map()": "identity when called on a single table"},
                 canaries=[("touching intervals not merged", "valid_start_mask = intervals.start[1:] > stops[:-1]", "valid_start_mask = intervals.start[1:] >= stops[:-1]"),
                           ("running maximum dropped", "stops = np.maximum.accumulate(intervals.stop)", "stops = intervals.stop + 0"),
                           ("stop of the NEXT group's first member", "stop_mask = np.concatenate((valid_start_mask, [True]))", "stop_mask = np.concatenate(([True], valid_start_mask))")])

# get_boolean_mask ends in GenomicRunLengthArray.from_intervals(merged starts, merged stops, size): its event/value layout (the contract proved
# for C09) is instantiated here as well - for ANY size, i.e. also for coordinates that do not fit 32 bits.
from contracts.c09 import mk_from_intervals      # noqa: E402
CONTRACTS = [extend_to_size, clip, merge, mk_from_intervals("C08")]


# --- get_pileup / get_boolean_mask: what reaches the run-length builder (npstructures RunLength2dArray.from_intervals: outside /repo, bounded) is the
# caller's start and stop columns UNCHANGED - every row, no filter, no clamp - together with the contig size; an empty table gives the all-zero track.
from pyvc.core import SRec, Opaque      # noqa: E402


def _setup_pileup(fn_name):
    def setup(ctx):
        st = St()
        st.n, st.size = z3.Int("n_intervals"), z3.Int("chromosome_size")
        st.s0, st.e0 = z3.Function("start", z3.IntSort(), z3.IntSort()), z3.Function("stop", z3.IntSort(), z3.IntSort())
        st.cols = {"chromosome": SArr.fresh(st.n, lambda i: 0), "start": SArr.fresh(st.n, lambda i: st.s0(I(i))), "stop": SArr.fresh(st.n, lambda i: st.e0(I(i)))}
        st.table = STable(st.cols, st.n)
        st.args = [st.table, st.size]
        st.seen = None
        _hp["st"] = st
        from bionumpy.arithmetics.intervals import GenomicRunLengthArray

        def track(ip, args, kwargs, lineno):
            st.direct = list(args)
            return Opaque("track")
        st.direct = None
        ctx.ip.class_models[GenomicRunLengthArray] = track
        return st
    return setup


_hp = {}


class _R2D:
    """RunLength2dArray: from_intervals records its arguments; the reductions of the result are abstract"""

    def getattr(self, ip, name, lineno):
        if name == "from_intervals":
            class _F:
                def sym_call(self_, ip, args, kwargs, lineno):
                    _hp["st"].seen = (list(args), dict(kwargs))
                    return _R2D()
            return _F()
        if name in ("sum", "any"):
            class _G:
                def sym_call(self_, ip, args, kwargs, lineno):
                    return Opaque("run-length reduction: " + name)
            return _G()
        raise Unsupported("RunLength2dArray.%s" % name)


def _ens_pileup(ctx, st, ret):
    if st.seen is None:
        d = st.direct
        ok = d is not None and len(d) == 2 and isinstance(d[0], SArr) and isinstance(d[1], SArr)
        return [("the.run-length.builder.is.bypassed.only.for.an.empty.table", st.n == 0),
                ("the.empty.track.is.one.run [0, size) of value 0", ok and And(I(d[0].length) == 2, I(d[0].at(0)) == 0, I(d[0].at(1)) == st.size, I(d[1].length) == 1, I(d[1].at(0)) == 0))]
    a, kw = st.seen
    ok = len(a) == 3 and not kw
    return [("the.builder.receives (starts, stops, size)", ok),
            ("starts: the caller's start column, every row", ok and a[0] is st.cols["start"]),
            ("stops: the caller's stop column, every row", ok and a[1] is st.cols["stop"]),
            ("size: the contig size given", ok and a[2] is st.size)]


def _mk_pileup(fn_name, canary):
    import importlib
    return Contract("C08.%s" % fn_name, target=lambda: getattr(importlib.import_module("bionumpy.arithmetics.intervals"), fn_name), setup=_setup_pileup(fn_name),
                    requires=lambda ctx, st: [st.n >= 0, st.size >= 0], ensures=_ens_pileup,
                    callees={"npstructures.runlengtharray.RunLength2dArray.from_intervals": lambda ip, args, kwargs, lineno: _R2D().getattr(ip, "from_intervals", lineno).sym_call(ip, [a for a in args if not isinstance(a, type)], kwargs, lineno),
                             "bionumpy.arithmetics.intervals.GenomicRunLengthArray.from_rle": lambda ip, args, kwargs, lineno: Opaque("track"),
                             "npstructures.runlengtharray.RunLengthArray.from_rle": lambda ip, args, kwargs, lineno: Opaque("track")},
                    class_models=None, canaries=[canary])


pileup = _mk_pileup("get_pileup", ("intervals starting on the last base filtered out", "RunLength2dArray.from_intervals(intervals.start, intervals.stop, chromosome_size)",
                                   "RunLength2dArray.from_intervals(intervals.start[intervals.start < chromosome_size - 1], intervals.stop[intervals.start < chromosome_size - 1], chromosome_size)"))
CONTRACTS.append(pileup)


from pyvc.core import Unsupported     # noqa: E402


# --- chromosome_map.get_args: the per-chromosome entry point of merge_intervals / count_overlap (a grouped stream is passed instead of a table) -------
# Every yield carries the chromosome's name, the positional arguments with the stream's slot replaced by that chromosome's data and every other
# positional argument unchanged, and ALL keyword arguments of the call (`distance=d` reaches every chromosome).
from pyvc.loops import LoopSpec, GeneratorSpec      # noqa: E402


def _CM():
    from bionumpy.streams.grouped import chromosome_map
    return chromosome_map


class _Grouped:
    """a grouped stream: n pairs (name(j), data(j)); attribute_name is what grouped_stream objects carry"""

    def __init__(self, st):
        self.st = st

    def getattr(self, ip, name, lineno):
        if name == "attribute_name":
            return "chromosome"
        raise Unsupported("grouped stream attribute %s" % name)

    def sym_rows(self, ip):
        st = self.st
        return st.n, (lambda j: (st.name(I(j)), st.data(I(j))))


def _mk_get_args(label, positional, keywords):
    """positional: shape string over 'S' (the grouped stream) and 'x' (plain); keywords: names of plain keyword arguments"""
    si = [i for i, ch in enumerate(positional) if ch == "S"]

    def setup(ctx):
        st = St()
        st.n = z3.Int("n_chromosomes")
        st.name, st.data = z3.Function("chromosome_name", z3.IntSort(), z3.IntSort()), z3.Function("chromosome_data", z3.IntSort(), z3.IntSort())
        st.plain = {i: z3.Int("arg%d" % i) for i, ch in enumerate(positional) if ch == "x"}
        st.kw = {k: z3.Int("kw_" + k) for k in keywords}
        st.selfv = SRec(_CM())
        st.args = [tuple(_Grouped(st) if ch == "S" else st.plain[i] for i, ch in enumerate(positional)), dict(st.kw), list(si), [], [], []]
        st.yields = 0

        def inv(ip, env):
            return [("one.call.per.chromosome.so.far", I(st.yields) == I(env.vars["_it"]))]

        def havoc(ip, env):
            st.yields = env.vars["_it"]
        ctx.ip.loop_specs[("chromosome_map.get_args", 0)] = LoopSpec(inv, havoc)
        return st

    def on_yield(ip, st, v, node, env):
        c = ip.ctx
        j = env.vars["_it"]
        chrom, a, kw = v
        a = ip.concrete_items(a)
        c.oblige("%s:yield.j.is.for.chromosome.j" % c.fname, I(chrom) == st.name(I(j)), "at_yield")
        c.oblige("%s:yield.has.one.entry.per.positional.argument" % c.fname, z3.BoolVal(a is not None and len(a) == len(positional)), "at_yield")
        for i, ch in enumerate(positional):
            want = st.data(I(j)) if ch == "S" else st.plain[i]
            got = a[i] if a is not None and i < len(a) else None
            c.oblige("%s:yield.j.slot.%d.is.%s" % (c.fname, i, "the.chromosome's.data" if ch == "S" else "the.plain.argument"),
                     (I(got) == want) if isinstance(got, (int, z3.ArithRef)) else z3.BoolVal(False), "at_yield")
        c.oblige("%s:yield.j.carries.every.keyword.argument.of.the.call" % c.fname,
                 z3.BoolVal(isinstance(kw, dict) and sorted(kw) == sorted(st.kw)) if not st.kw else
                 And(*[(I(kw[k]) == st.kw[k]) if isinstance(kw, dict) and k in kw and isinstance(kw[k], (int, z3.ArithRef)) else z3.BoolVal(False) for k in st.kw]), "at_yield")
        st.yields = conc(I(st.yields) + 1)

    return Contract("C08.chromosome_map.get_args[%s]" % label, target=lambda: _CM().get_args, setup=setup, requires=lambda ctx, st: [st.n >= 0],
                    ensures=lambda ctx, st, ret: [("one.call.per.chromosome", I(st.yields) == st.n)], generator=GeneratorSpec(on_yield),
                    canaries=[("keyword arguments rebuilt from the stream entries only", "            yield chromosome, new_args, kwargs", "            yield chromosome, new_args, {k: kwargs[k] for k in stream_keys}")] if keywords else [])


CONTRACTS += [_mk_get_args("merge_intervals(stream, distance=d)", "S", ("distance",)), _mk_get_args("f(stream, x)", "Sx", ()), _mk_get_args("f(x, stream, k=v, m=w)", "xS", ("k", "m"))]
