"""C08 - interval-set operations equal their per-base definitions.

Proved kernels (engine P): the pointwise clauses "clipping and strand-aware extension keep every interval
inside the contig".  The sort-and-count operations (pileup, mask, merge maximality, overlap, intersect, sort)
are NOT within reach of this family here: bounded stand-in only (rtc/enum_c08.py).
"""
import types
import z3
from pyvc.core import I, B, And, Or, Not, Implies, Ite, Min, Max, in_range, Forall, SArr, conc
from pyvc.pybuiltins import STable
from pyvc.verify import Contract

ASSUMPTIONS = ["bnpdataclass tables are column-aligned records; replace() swaps columns (C19, bounded)",
               "np.where / np.minimum / np.maximum are elementwise (validated bounded)"]
NOT_PROVED = ["pileup, boolean mask, merge (maximal runs), sort order, overlap counting, intersection, unique intersection, "
              "Jaccard/Forbes: sort-and-count arguments - decided by the bounded enumeration only"]


class St(types.SimpleNamespace):
    pass


def _intervals(ctx, n, with_strand=True):
    st = St()
    st.n = n
    st.start, st.stop, st.strand = [z3.Function(x, z3.IntSort(), z3.IntSort()) for x in ("start", "stop", "strand")]
    cols = {"chromosome": SArr.fresh(n, lambda i: 0), "start": SArr.fresh(n, lambda i: st.start(I(i))),
            "stop": SArr.fresh(n, lambda i: st.stop(I(i)))}
    if with_strand:
        cols["strand"] = SArr.fresh(n, lambda i: st.strand(I(i)), enc="StrandEncoding/ascii")
    st.table = STable(cols, n)
    return st


# ------------------------------------------------------------------------------------------
def _setup_extend(ctx):
    n = z3.Int("n")
    st = _intervals(ctx, n)
    st.L = z3.Int("fragment_length")
    st.size = z3.Function("size", z3.IntSort(), z3.IntSort())
    st.args = [st.table, st.L, SArr.fresh(n, lambda i: st.size(I(i)))]
    return st


def _req_extend(ctx, st):
    return [st.n >= 0, st.L >= 0,
            Forall(lambda i: Implies(in_range(i, st.n), And(0 <= st.start(i), st.start(i) <= st.stop(i), st.stop(i) <= st.size(i))),
                   triggers=[st.start], name="intervals inside their contig")]


def _ens_extend(ctx, st, ret):
    s2, e2 = ret.cols["start"], ret.cols["stop"]
    plus = lambda i: st.strand(i) == ord("+")
    return [
        ("rows", And(s2.length == st.n, e2.length == st.n)),
        ("inside", Forall(lambda i: Implies(in_range(i, st.n), And(0 <= I(s2.at(i)), I(s2.at(i)) <= I(e2.at(i)), I(e2.at(i)) <= st.size(i))))),
        ("plus.keeps.start", Forall(lambda i: Implies(And(in_range(i, st.n), plus(i)), And(s2.at(i) == st.start(i), e2.at(i) == Min(st.start(i) + st.L, st.size(i)))))),
        ("minus.keeps.stop", Forall(lambda i: Implies(And(in_range(i, st.n), Not(plus(i))), And(e2.at(i) == st.stop(i), s2.at(i) == Max(st.stop(i) - st.L, 0))))),
        ("other.columns.kept", ret.cols["chromosome"] is st.table.cols["chromosome"] and ret.cols["strand"] is st.table.cols["strand"]),
    ]


def _extend():
    from bionumpy.arithmetics import intervals
    return intervals.extend_to_size


extend_to_size = Contract(
    "C08.extend_to_size", target=_extend, setup=_setup_extend, requires=_req_extend, ensures=_ens_extend,
    dropped=["docstring", "annotations"],
    canaries=[("minimum->maximum", "np.minimum(intervals.start+fragment_length, chromosome_size)", "np.maximum(intervals.start+fragment_length, chromosome_size)"),
              ("no clamp at 0", "np.maximum(intervals.stop-fragment_length, 0)", "intervals.stop-fragment_length"),
              ("strand swapped", 'intervals.strand.ravel() == "+"', 'intervals.strand.ravel() == "-"')])


# ------------------------------------------------------------------------------------------
def _setup_clip(ctx):
    n = z3.Int("n")
    st = _intervals(ctx, n, with_strand=False)
    st.size = z3.Function("size", z3.IntSort(), z3.IntSort())
    st.args = [st.table, SArr.fresh(n, lambda i: st.size(I(i)))]
    return st


def _req_clip(ctx, st):
    return [st.n >= 0, Forall(lambda i: Implies(in_range(i, st.n), st.size(i) >= 0), triggers=[st.size], name="sizes >= 0")]


def _ens_clip(ctx, st, ret):
    s2, e2 = ret.cols["start"], ret.cols["stop"]
    return [("rows", And(s2.length == st.n, e2.length == st.n)),
            ("definition", Forall(lambda i: Implies(in_range(i, st.n), And(s2.at(i) == Max(0, st.start(i)), e2.at(i) == Min(st.size(i), st.stop(i)))))),
            ("inside", Forall(lambda i: Implies(in_range(i, st.n), And(I(s2.at(i)) >= 0, I(e2.at(i)) <= st.size(i))))),
            ("identity.when.inside", Forall(lambda i: Implies(And(in_range(i, st.n), st.start(i) >= 0, st.stop(i) <= st.size(i)),
                                                             And(s2.at(i) == st.start(i), e2.at(i) == st.stop(i)))))]


def _clip():
    from bionumpy.arithmetics import intervals
    return intervals.clip


clip = Contract("C08.clip", target=_clip, setup=_setup_clip, requires=_req_clip, ensures=_ens_clip,
                dropped=["docstring", "annotations"],
                canaries=[("start not clamped", "start=np.maximum(0, intervals.start)", "start=np.minimum(0, intervals.start)"),
                          ("stop: max instead of min", "np.minimum(chrom_sizes, intervals.stop)", "np.maximum(chrom_sizes, intervals.stop)")])

CONTRACTS = [extend_to_size, clip]
