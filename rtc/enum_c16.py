"""C16 bounded stand-in: BAM records decode to the values the BAM specification defines.

BAM files are produced by the independent spec-level encoder rtc/refmodels/bam.py (struct + BGZF blocks, written
from the SAM/BAM specification) from alignment records held as plain Python dicts; the expected decoded values
are those dicts.  Contracts evaluated on the real functions:

  read_whole    bnp.open(x.bam).read() (lazy = default, and lazy=False): the nine BamEntry fields == the records
  interval      alignment_to_interval(entries), bnp.open(x.bam, buffer_type=BamIntervalBuffer).read() and the
                streamed form: start == pos, stop == pos + sum(len of M,D,N,=,X ops), strand '-' iff flag & 0x10,
                chromosome == reference name (mapped records)
  read_chunks   bnp.open(x.bam).read_chunks(c) for chunk sizes c >= largest record: concatenated chunks == records
  subset        entries[mask] / entries[index] / entries[slice] decode to the selected records
  write         bnp.open(y.bam,'w').write(whole | filtered | reordered | sliced | chunk stream | two writes):
                y.bam decodes (independent decoder and the library) to the selected records, same header, EOF block
  history       operation histories on ONE decoded table (lazy, lazy=False, or the list of chunks): every sequence of 1..2
                (thorough ..3) derived computations - alignment_to_interval, count_reference_length, interval of a subset,
                column arithmetic, str/repr/tolist, column reads, subset reads, concatenation, filtered write - and then
                the table's nine fields, read directly and through subsets, still == the records (and a fresh read too);
                results of the interval / reference-length / write steps == the spec values each time
  chain         selection chains on ONE freshly read table (or on every chunk of a chunked read): a selection of a selection
                (of a selection) - filter by mask / column predicate / index list, reorder, unit / strided / reversed / empty
                slice - optionally with the intermediate table read or written in between; the final table == the records the
                composed selection picks, in memory, after write (independent decoder), and in memory again after the write

Scope: see `col.bounds` / `rule` in run().
"""
import itertools
import os
import time
import traceback

from .common import Collector, TmpDir, to_py
from .refmodels import bam as ref

FIELDS = ["chromosome", "name", "flag", "position", "mapq", "cigar_op", "cigar_length", "sequence", "quality"]
SIG_UNMAPPED = "decode:chromosome:refid-1-not-none"
SIG_BIGCIGAR = "decode:n_cigar_op>=16384:wrong-fields"
NAMECH = "abcXYZ0189:/._#-+|~!?"          # subset of the spec's [!-?A-~]
OPS = ref.CIGAR_CODE
CLEN = [1, 2, 15, 16, 17, 255, 256, 4096, 65535, 65536, (1 << 28) - 1]
POS = [0, 1, 7, 255, 256, 65535, 65536, (1 << 24) + 5, (1 << 30) - 1]
REFSETS = {0: [], 1: [["chr1", 1000]], 2: [["chr1", 248956422], ["c", 5]],
           3: [["chr1", 1 << 30], ["c", 1], ["chrUn_KI270302v1", (1 << 31) - 1]]}
PAYLOADS = [0xFF00, 64, 17, 1000]


# ----------------------------------------------------------------------------------------------------- generators
def mk_tags(nbytes, salt=0):
    """well-formed optional fields (spec 4.2.4) of exactly `nbytes` bytes (1..3 are rounded up to 4), as hex"""
    if nbytes <= 0:
        return ""
    nbytes = max(nbytes, 4)
    out = b""
    if nbytes >= 11:
        out += b"XIi" + bytes((salt * 13 + k * 101 + 7) % 256 for k in range(4))
        nbytes -= 7
    if nbytes == 4 and salt % 2:
        return (out + b"NMC" + bytes([(salt * 7) % 256])).hex()
    out += b"XSZ" + bytes(33 + (salt + k * 5) % 90 for k in range(nbytes - 4)) + b"\0"
    return out.hex()


def mk_record(i, name_len, n_cigar, l_seq, tag_len, n_refs, salt=0, ref_id=None):
    """deterministic record of the given shape; contents vary with (i, salt) so that neighbours differ"""
    name = "".join(NAMECH[(i * 5 + k * 3 + salt) % len(NAMECH)] for k in range(name_len))
    cigar = [[OPS[(salt + k * 4 + i) % 9], CLEN[(salt + i + 2 * k) % len(CLEN)]] for k in range(n_cigar)]
    seq = "".join(ref.SEQ_CODE[(salt * 3 + k * 7 + i + 1) % 16] for k in range(l_seq))
    qual = [(salt * 11 + k * 31 + i * 7 + 10) % 94 for k in range(l_seq)]
    tags = mk_tags(tag_len, salt + i)
    if ref_id is None:
        ref_id = -1 if (n_refs == 0 or (i + salt) % 5 == 4) else (i + salt) % n_refs
    pos = -1 if ref_id < 0 else POS[(i + salt) % len(POS)]
    flag = [0, 16, 99, 147, 4, 0x800 | 16, 0xFFFF, 1024, 0x8000][(i + 2 * salt) % 9]
    if ref_id < 0:
        flag |= 4
    return {"ref": ref_id, "pos": pos, "name": name, "mapq": [0, 60, 255, 1, 37][(i + salt) % 5], "flag": flag,
            "cigar": cigar, "seq": seq, "qual": qual, "next_ref": (i % (n_refs + 1)) - 1,
            "next_pos": [-1, 0, 123456][i % 3], "tlen": [0, -300, 300, -(1 << 31) + 1, (1 << 31) - 1][i % 5], "tags": tags}


def shapes(tier):
    if tier == "quick":
        nl, nc, ls, tl = [1, 2, 3, 4, 254], [0, 1, 2, 3, 4], list(range(8)), [0, 5]
    else:
        nl, nc, ls, tl = [1, 2, 3, 4, 5, 7, 8, 253, 254], [0, 1, 2, 3, 4], list(range(10)), [0, 4, 5]
    return list(itertools.product(nl, nc, ls, tl))


def gen_grid(tier, j):
    """three records of different shapes: shape j, and two far-away shapes"""
    S = shapes(tier)
    n = len(S)
    n_refs = j % 4
    recs = [mk_record(j + k, *S[(j * m + a) % n], n_refs, salt=k) for k, (m, a) in enumerate([(1, 0), (7, 3), (13, 5)])]
    return {"refs": REFSETS[n_refs], "records": recs, "payload": PAYLOADS[j % 4]}


def gen_single(name_len, n_cigar, l_seq, tag_len, n_refs):
    return {"refs": REFSETS[n_refs], "records": [mk_record(name_len + l_seq, name_len, n_cigar, l_seq, tag_len, n_refs, salt=n_cigar)],
            "payload": PAYLOADS[(name_len + l_seq) % 4]}


def _base(i, **kw):
    r = {"ref": 0, "pos": 100 + i, "name": "r%d" % i, "mapq": 30, "flag": 0, "cigar": [["M", 2]], "seq": "AC", "qual": [30, 31]}
    r.update(kw)
    return r


def gen_sweep(kind, arg=0):
    refs = REFSETS[2]
    if kind == "flag":
        vals = [0, 0xFFFF, 0x10, 0xFFEF, 0x14, 0x30] + [1 << k for k in range(16)]
        recs = [_base(i, flag=v) for i, v in enumerate(vals)]
    elif kind == "mapq":
        recs = [_base(i, mapq=i) for i in range(256)]
    elif kind == "pos":
        vals = [-1, 0, 1, 127, 128, 255, 256, 32767, 32768, 65535, 65536, (1 << 24) - 1, 1 << 24, (1 << 31) - 4]
        recs = [_base(i, pos=v, ref=i % 2) for i, v in enumerate(vals)]
    elif kind == "namelen":
        recs = [_base(i, name="".join(NAMECH[(i + k) % len(NAMECH)] for k in range(i)), ref=i % 2) for i in range(1, 255)]
    elif kind == "seq1":
        recs = [_base(i, seq=c, qual=[i], cigar=[["M", 1]]) for i, c in enumerate(ref.SEQ_CODE)]
    elif kind == "seq2":
        recs = [_base(i, seq=a + b, qual=[i % 94, 93 - i % 94])
                for i, (a, b) in enumerate(itertools.product(ref.SEQ_CODE, repeat=2))]
    elif kind == "seq3":
        recs = [_base(i, seq=a + b + c, qual=[i % 94, 93 - i % 94, 7])
                for i, (a, b, c) in enumerate(itertools.product(ref.SEQ_CODE, repeat=3))]
    elif kind == "seqlen":
        recs = [_base(i, seq="".join(ref.SEQ_CODE[(i + 5 * k) % 16] for k in range(i)), qual=[(i + k) % 94 for k in range(i)],
                      cigar=[["M", i]] if i else []) for i in range(arg + 1)]
    elif kind == "qual":
        recs = [_base(i, seq="G", qual=[i], cigar=[["M", 1]]) for i in range(94)]
        recs.append(_base(94, seq="ACGT" * 23 + "NN", qual=list(range(94)), cigar=[["M", 94]]))
        recs.append(_base(95, seq="ACGT" * 23 + "N", qual=list(range(93, 0, -1)), cigar=[["S", 93]]))
    elif kind == "cigar1":
        recs = [_base(i, cigar=[[op, n]]) for i, (op, n) in enumerate(itertools.product(OPS, CLEN))]
    elif kind == "cigar2":
        recs = [_base(i, cigar=[[a, 1 + i % 7], [b, 16 + i % 5]]) for i, (a, b) in enumerate(itertools.product(OPS, repeat=2))]
    elif kind == "cigar3":
        recs = [_base(i, cigar=[[a, 1 + i % 7], [b, 16 + i % 5], [c, 255 + i % 3]])
                for i, (a, b, c) in enumerate(itertools.product(OPS, repeat=3))]
    elif kind == "ncigar":
        recs = [_base(i, cigar=[[OPS[(i + k) % 9], 1 + (k * 5 + i) % 40] for k in range(i)]) for i in range(arg + 1)]
    elif kind == "tags":
        recs = [_base(i, seq="ACG"[:1 + i % 3] * (1 + i % 2), qual=[5] * ((1 + i % 3) * (1 + i % 2)),
                      tags=mk_tags(i, i)) for i in range(arg + 1)]
    elif kind == "fixed":
        # every fixed-width field carries a distinctive value, so that a read at a wrong offset is visible
        recs = [{"ref": 1, "pos": 0x01020304, "name": "nm", "mapq": 0x55, "flag": 0x0A0B, "cigar": [["M", 0x0C0D0E], ["I", 3], ["D", 9]],
                 "seq": "TGCAN", "qual": [1, 2, 3, 4, 5], "next_ref": 0, "next_pos": 0x11121314, "tlen": -0x21222324, "tags": mk_tags(5, 1)},
                {"ref": 0, "pos": 0x04030201, "name": "other", "mapq": 0xAA, "flag": 0xF0E0, "cigar": [["X", 0x0102030]],
                 "seq": "=R", "qual": [93, 0], "next_ref": 1, "next_pos": 0x41424344, "tlen": 0x31323334, "tags": ""}]
    elif kind == "newline_tail":
        # the generic reader appends a "\n" byte to a final chunk that does not end in one: files ending in byte 10
        # (arg 0: last quality value 10; arg 1: last tag byte 10; arg 2: every record ends in 10; arg 3: none does)
        if arg == 0:
            recs = [_base(0), _base(1, seq="ACG", qual=[3, 4, 10])]
        elif arg == 1:
            recs = [_base(0), _base(1, tags="5858430a")]
        elif arg == 2:
            recs = [_base(i, seq="ACGT"[:1 + i], qual=[10] * (1 + i), name="n" * (i + 1)) for i in range(4)]
        else:
            recs = [_base(i, seq="ACGT"[:1 + i], qual=[11] * (1 + i), name="n" * (i + 1)) for i in range(4)]
        return {"refs": refs, "records": recs, "payload": 0xFF00}
    elif kind == "empty":
        return {"refs": REFSETS[arg], "records": [], "payload": 0xFF00}
    elif kind == "refs":
        # arg = number of references; one record per possible refID (including -1), names of unequal length
        return {"refs": REFSETS[arg], "records": [_base(i, ref=r, pos=-1 if r < 0 else 5 + i, flag=4 if r < 0 else 0)
                                                    for i, r in enumerate(list(range(arg)) + [-1] + list(range(arg)))],
                "payload": 0xFF00}
    elif kind == "header":
        # arg: 0 empty text, 1 ordinary, 2 text longer than one BGZF block, 3 many references
        if arg == 3:
            refs = [["ctg%d" % i + "x" * (i % 7), 10 + i] for i in range(300)]
            recs = [_base(i, ref=(i * 37) % 300) for i in range(8)]
            return {"refs": refs, "records": recs, "payload": 0xFF00}
        text = ["", None, "@HD\tVN:1.6\n" + "@CO\t" + "z" * 70000 + "\n"][arg]
        return {"refs": refs, "records": [_base(i, ref=i % 2) for i in range(4)], "payload": 0xFF00, "text": text}
    elif kind == "long_seq":
        # l_seq and block_size beyond 16 bits
        recs = [_base(0, seq="".join(ref.SEQ_CODE[(k * 7 + k // 16) % 16] for k in range(arg)), qual=[(k * 5 + k // 94) % 94 for k in range(arg)],
                      cigar=[["M", arg]]), _base(1, ref=1, seq="TTG", qual=[5, 6, 7])]
        return {"refs": refs, "records": recs, "payload": 0xFF00}
    elif kind == "large_cigar":
        recs = [_base(0, cigar=[[OPS[k % 9], 1 + k % 3] for k in range(arg)], seq="ACGN", qual=[0, 1, 93, 40]),
                _base(1, ref=1, cigar=[["M", 3]], seq="TT", qual=[5, 6])]
        return {"refs": refs, "records": recs, "payload": 0xFF00}
    else:
        raise ValueError(kind)
    return {"refs": refs, "records": recs, "payload": 1000 if len(recs) > 100 else PAYLOADS[len(recs) % 4]}


def _long_record(i, n, **kw):
    seq = "".join(ref.SEQ_CODE[(k * 7 + k // 16 + i) % 16] for k in range(n))
    qual = [(k * 5 + k // 94 + 3 * i) % 94 for k in range(n)]
    return _base(i, name="long%d_%d" % (i, n), seq=seq, qual=qual, **kw)


def gen_long_reads(l1, l2):
    """short reads around two long reads (l_seq at / beyond 16 bits), full 16-letter code, soft clip, tags, one unmapped"""
    recs = [_base(0, seq="ACGTN", qual=[10, 20, 30, 40, 41], cigar=[["M", 5]], tags=mk_tags(4, 1)),
            _long_record(1, l1, ref=1, pos=5000, flag=16, mapq=60, cigar=[["S", 1], ["M", l1 - 1]]),
            _base(2, flag=99, seq="GATTACAN", qual=[1, 2, 3, 4, 5, 6, 7, 8], cigar=[["M", 3], ["I", 1], ["M", 4]]),
            _long_record(3, l2, ref=1, pos=9000, mapq=3, cigar=[["M", l2]], tags=mk_tags(7, 3)),
            _base(4, ref=-1, pos=-1, flag=4, mapq=0, cigar=[], seq="KDB", qual=[93, 0, 50])]
    return {"refs": [["chr1", 200000000], ["chrL", 90000000]], "records": recs, "payload": 0xFF00}


def gen_history(k):
    """files for the operation histories: CIGARs in which the operations that do NOT consume the reference (I S H P)
    carry distinctive lengths, next to empty CIGARs, unmapped records and both strands"""
    def sq(n, i=0):
        return {"seq": "".join(ref.SEQ_CODE[(3 * i + 5 * j + 1) % 16] for j in range(n)), "qual": [(7 * j + i) % 94 for j in range(n)]}
    if k == 0:
        recs = [_base(0, cigar=[["M", 10]], **sq(10)),
                _base(1, ref=1, pos=2000, flag=16, mapq=60, cigar=[["S", 4], ["M", 6], ["I", 2], ["M", 5], ["S", 3]], **sq(20, 1)),
                _base(2, pos=5000, flag=99, mapq=40, cigar=[["H", 5], ["M", 4], ["N", 3000], ["M", 3], ["D", 2], ["=", 2], ["X", 1], ["P", 1], ["I", 1]],
                      tags=mk_tags(5, 2), **sq(11, 2)),
                _base(3, ref=-1, pos=-1, flag=4, mapq=0, cigar=[], **sq(7, 3)),
                _base(4, ref=1, pos=77, flag=147, mapq=1, cigar=[["S", 2], ["I", 5], ["S", 2]], **sq(9, 4)),
                _base(5, pos=0, flag=0x800 | 16, cigar=[], **sq(0))]
    elif k == 1:     # every record holds all nine operations, rotated, every length different
        recs = [_base(i, ref=i % 2, flag=16 * (i % 2), cigar=[[OPS[(i + j) % 9], 1 + 10 * i + j] for j in range(9)],
                      tags=mk_tags([0, 4, 7][i % 3], i), **sq(i, i)) for i in range(9)]
    elif k == 2:     # a single record
        recs = [_base(0, ref=1, flag=16, cigar=[["S", 3], ["M", 2], ["I", 70000], ["M", 1], ["H", 9]], **sq(5))]
    elif k == 3:     # only non-consuming operations / only consuming operations, alternating
        recs = [_base(i, ref=i % 2, flag=16 * ((i // 2) % 2), cigar=[[("ISHP" if i % 2 else "MDN=X")[(i + j) % (4 if i % 2 else 5)], CLEN[(i + j) % 9]]
                                                                   for j in range(1 + i % 4)], **sq(i % 5, i)) for i in range(12)]
    else:            # many records of mixed shapes
        recs = [mk_record(i, 1 + i % 6, i % 5, i % 8, [0, 5][i % 2], 3, salt=k) for i in range(40)]
        return {"refs": REFSETS[3], "records": recs, "payload": PAYLOADS[k % 4]}
    return {"refs": REFSETS[2], "records": recs, "payload": PAYLOADS[k % 4]}


def gen_chunk(k, n):
    """n records of unequal sizes for the chunk-size sweep"""
    S = [(1, 0, 0, 0), (2, 1, 1, 0), (3, 2, 2, 3), (4, 4, 7, 0), (5, 3, 5, 2), (8, 1, 6, 1), (1, 0, 3, 0), (13, 2, 8, 5),
         (6, 4, 1, 0), (2, 0, 9, 4), (30, 1, 12, 0)]
    recs = [mk_record(k * 3 + i, *S[(k * 5 + i * 3) % len(S)], 2, salt=k) for i in range(n)]
    return {"refs": REFSETS[2], "records": recs, "payload": PAYLOADS[(k + n) % 4]}


def gen_random(rng, big=False):
    n_refs = rng.randrange(0, 4)
    refs = [["r%d_%s" % (i, "q" * rng.randrange(0, 12)), rng.randrange(1, 1 << 31)] for i in range(n_refs)]
    recs = []
    for i in range(rng.randrange(1, 9)):
        nl = rng.choice([1, 2, 3, 4, 5, 6, 7, 8, 9, 17, 31, 32, 33, 100, 253, 254])
        nc = rng.randrange(0, 9)
        ls = rng.randrange(0, 41 if not big else 400)
        ref_id = rng.randrange(-1, n_refs)
        cig = [[rng.choice(OPS), rng.choice([1, 2, 3, 10, 15, 16, 100, 255, 256, 1 << 20])] for _ in range(nc)]
        recs.append({"ref": ref_id, "pos": -1 if ref_id < 0 else rng.choice(POS + [rng.randrange(0, 1 << 30)]),
                     "name": "".join(rng.choice(NAMECH) for _ in range(nl)), "mapq": rng.randrange(256),
                     "flag": rng.randrange(1 << 16) | (4 if ref_id < 0 else 0), "cigar": cig,
                     "seq": "".join(rng.choice(ref.SEQ_CODE) for _ in range(ls)), "qual": [rng.randrange(94) for _ in range(ls)],
                     "next_ref": rng.randrange(-1, n_refs), "next_pos": rng.randrange(-1, 1 << 30),
                     "tlen": rng.randrange(-(1 << 31) + 1, 1 << 31), "tags": mk_tags(rng.choice([0, 0, 4, 5, 7, 11, 20]), rng.randrange(256))})
    return {"refs": refs, "records": recs, "payload": rng.choice(PAYLOADS + [5, 33, 4096])}


GENS = {"grid": gen_grid, "single": gen_single, "sweep": gen_sweep, "chunk": gen_chunk, "long_reads": gen_long_reads,
        "history": gen_history}


def build_file(spec):
    if "gen" in spec:
        return GENS[spec["gen"][0]](*spec["gen"][1:])
    return spec


# ----------------------------------------------------------------------------------------------------- oracle
def expected_fields(refs, records):
    e = {f: [] for f in FIELDS}
    e["start"], e["stop"], e["strand"] = [], [], []
    for r in records:
        r = ref.normalise(r)
        e["chromosome"].append(refs[r["ref"]][0] if r["ref"] >= 0 else None)
        e["name"].append(r["name"])
        e["flag"].append(r["flag"])
        e["position"].append(r["pos"])
        e["mapq"].append(r["mapq"])
        e["cigar_op"].append("".join(op for op, _ in r["cigar"]))
        e["cigar_length"].append([n for _, n in r["cigar"]])
        e["sequence"].append(r["seq"])
        e["quality"].append(r["qual"])
        e["start"].append(r["pos"])
        e["stop"].append(r["pos"] + sum(n for op, n in r["cigar"] if op in "MDN=X"))
        e["strand"].append("-" if r["flag"] & 0x10 else "+")
    return e


def select(exp, idx):
    return {k: [v[i] for i in idx] for k, v in exp.items()}


def pyval(v):
    x = to_py(v)
    if isinstance(x, tuple):
        x = list(x)
    return x


class BamCase:
    def __init__(self, spec, tmp):
        self.spec = spec
        F = build_file(spec)
        self.refs = [tuple(r) for r in F["refs"]]
        self.records = F["records"]
        self.text = F.get("text")
        self.payload = F.get("payload", 0xFF00)
        self.raw = ref.encode_uncompressed(self.refs, self.records, self.text)
        self.header_len = len(ref.encode_header(self.refs, ref.sam_header_text(self.refs) if self.text is None else self.text))
        self.sizes = [len(ref.encode_record(r)) for r in self.records]
        self.path = os.path.join(tmp, "in.bam")
        with open(self.path, "wb") as f:
            f.write(ref.bgzf(self.raw, self.payload))
        self.exp = expected_fields(self.refs, self.records)
        self.no_refs = len(self.refs) == 0 and len(self.records) > 0
        self.tmp = tmp
        # a file whose every wrong result is one known defect class collapses into one signature
        self.one_sig = SIG_BIGCIGAR if any(len(r.get("cigar", [])) >= 16384 for r in self.records) else None
        self.sig_prefix = "long_reads:" if spec.get("gen", [None])[0] == "long_reads" else ""

    def case(self, contract, param):
        return {"file": self.spec, "contract": contract, "param": param}

    def descr(self, contract, param):
        s = self.spec["gen"] if "gen" in self.spec else ["explicit", self.spec.get("id")]
        return {"file": s, "contract": contract, "param": param}


def guard(col, fn, sig, case, bc, touches_chromosome):
    """col.guarded, except that in a file without references (every record has refID=-1) an exception from code
    that decodes the chromosome is the refID=-1 defect class and gets that one signature"""
    if bc.no_refs and touches_chromosome:
        try:
            return fn()
        except Exception:
            col.fail(SIG_UNMAPPED + ":no-references:exception", case, traceback.format_exc()[-500:])
            return None
    return col.guarded(fn, sig, case)


def observe(col, entry, prefix, case, bc, fields=FIELDS):
    got = {}
    for f in fields:
        got[f] = guard(col, lambda: pyval(getattr(entry, f)), prefix + ":" + f, case, bc, f == "chromosome")
    return got


def first_diff(g, e):
    if not isinstance(g, list) or len(g) != len(e):
        return "lengths/types differ: got %r expected %r" % (str(g)[:120], str(e)[:120])
    for i, (a, b) in enumerate(zip(g, e)):
        if a != b:
            return "record %d: got %r expected %r" % (i, str(a)[:150], str(b)[:150])
    return ""


def compare(col, got, exp, prefix, case, fields=FIELDS, one_sig=None):
    # one_sig: see BamCase.one_sig
    """field-wise comparison; unmapped records' chromosome goes to its own signature (known defect class)"""
    ok = True
    for f in fields:
        g = got.get(f)
        if g is None:
            continue
        e = exp[f]
        if f == "strand":
            g = list("".join(g)) if not isinstance(g, str) else list(g)
        if f == "chromosome":
            if not isinstance(g, list) or len(g) != len(e):
                ok &= col.check(False, one_sig or prefix + ":chromosome:wrong-count", case, first_diff(g, e))
                continue
            mapped_bad = [(i, g[i], e[i]) for i in range(len(e)) if e[i] is not None and g[i] != e[i]]
            unm_bad = [(i, g[i]) for i in range(len(e)) if e[i] is None and g[i] not in ("", "*")]
            ok &= col.check(not mapped_bad, one_sig or prefix + ":chromosome:wrong-reference-name", case,
                            "(record, got, expected) %r" % (mapped_bad[:3],))
            col.check(not unm_bad, SIG_UNMAPPED, case,
                      "record with refID=-1 decodes to a reference name instead of none: (record, got) %r" % (unm_bad[:3],))
        else:
            ok &= col.check(g == e, one_sig or prefix + ":" + f + ":wrong-value", case, f + " " + first_diff(g, e))
    return ok


# ----------------------------------------------------------------------------------------------------- contracts
def c_read_whole(col, bc, param):
    """param: "lazy" | "eager" """
    import bionumpy as bnp
    case = bc.case("read_whole", param)
    one_sig = bc.one_sig
    prefix = "read:whole:" + param

    def rd():
        with bnp.open(bc.path, **({"lazy": False} if param == "eager" else {})) as f:
            return f.read()
    e = guard(col, rd, prefix, case, bc, param == "eager")
    if e is None:
        return
    n = col.guarded(lambda: len(e), prefix + ":len", case)
    col.check(n == len(bc.records), one_sig or prefix + ":record-count", case, "got %r records, expected %d" % (n, len(bc.records)))
    if n != len(bc.records):
        return
    got = observe(col, e, prefix, case, bc)
    compare(col, got, bc.exp, prefix, case, one_sig=one_sig)


IV_FIELDS = ["chromosome", "start", "stop", "strand"]


def c_interval(col, bc, param):
    """param: "function" | "buffer" | ["stream", c] | ["bufferchunks", c] """
    import bionumpy as bnp
    from bionumpy.alignments import alignment_to_interval
    from bionumpy.io.bam import BamIntervalBuffer
    case = bc.case("interval", param)
    kind = param if isinstance(param, str) else param[0]
    prefix = "interval:" + kind

    def run():
        if kind == "function":
            with bnp.open(bc.path) as f:
                return [alignment_to_interval(f.read())]
        if kind == "buffer":
            with bnp.open(bc.path, buffer_type=BamIntervalBuffer) as f:
                return [f.read()]
        if kind == "bufferchunks":
            with bnp.open(bc.path, buffer_type=BamIntervalBuffer) as f:
                return list(f.read_chunks(min_chunk_size=param[1]))
        with bnp.open(bc.path) as f:
            return list(alignment_to_interval(f.read_chunks(min_chunk_size=param[1])))
    parts = guard(col, run, prefix, case, bc, True)
    if parts is None:
        return
    got = {}
    for f in IV_FIELDS:
        def get(f=f):
            out = []
            for p in parts:
                v = pyval(getattr(p, f))
                out.extend(list(v) if not isinstance(v, str) else list(v))
            return ["".join(x) if isinstance(x, list) else x for x in out]
        got[f] = guard(col, get, prefix + ":" + f, case, bc, f == "chromosome")
    compare(col, got, bc.exp, prefix, case, fields=IV_FIELDS, one_sig=bc.one_sig)


def read_chunked(bc, c):
    import bionumpy as bnp
    with bnp.open(bc.path) as f:
        return list(f.read_chunks(min_chunk_size=c))


def c_read_chunks(col, bc, param):
    """param: chunk size c (>= largest record)"""
    c = param
    case = bc.case("read_chunks", c)
    assert c >= max(bc.sizes)
    prefix = "read_chunks"
    chunks = col.guarded(lambda: read_chunked(bc, c), prefix, case)
    if chunks is None:
        return
    n = sum(len(ch) for ch in chunks)
    if not col.check(n == len(bc.records), bc.one_sig or prefix + ":record-count-differs-from-whole", case,
                     "chunk size %d: %r records in chunks %r, file has %d (record sizes %r)" % (c, n, [len(ch) for ch in chunks], len(bc.records), bc.sizes)):
        return
    got = {f: [] for f in FIELDS}
    for ch in chunks:
        o = observe(col, ch, prefix, case, bc)
        for f in FIELDS:
            if o[f] is None or got[f] is None:
                got[f] = None
            else:
                got[f].extend(o[f])
    compare(col, got, bc.exp, prefix, case, one_sig=bc.one_sig)


def apply_sel(seq, sel):
    """sel: ["mask", [bools]] | ["index", [ints]] | ["slice", [a, b, step]] | ["whole"]"""
    k = sel[0]
    if k == "whole":
        return list(range(len(seq)))
    if k == "mask":
        return [i for i, m in enumerate(sel[1]) if m]
    if k == "index":
        return [i % len(seq) if i < 0 else i for i in sel[1]]
    if k == "slice":
        return list(range(len(seq)))[slice(*sel[1])]
    raise ValueError(k)


def lib_select(e, sel):
    import numpy as np
    k = sel[0]
    if k == "whole":
        return e
    if k == "mask":
        return e[np.array(sel[1], dtype=bool)]
    if k == "index":
        return e[np.array(sel[1], dtype=int)]
    if k == "slice":
        return e[slice(*sel[1])]


def sel_class(sel):
    return {"whole": "whole", "mask": "filtered", "index": "reordered", "slice": "sliced"}[sel[0]]


def c_subset(col, bc, param):
    """param: selection; the selected entries decode to the selected records"""
    import bionumpy as bnp
    case = bc.case("subset", param)
    prefix = "subset:" + sel_class(param)

    def rd():
        with bnp.open(bc.path) as f:
            return lib_select(f.read(), param)
    e = col.guarded(rd, prefix, case)
    if e is None:
        return
    idx = apply_sel(bc.records, param)
    n = col.guarded(lambda: len(e), prefix + ":len", case)
    if not col.check(n == len(idx), bc.one_sig or prefix + ":record-count", case, "got %r expected %d" % (n, len(idx))):
        return
    got = observe(col, e, prefix, case, bc)
    compare(col, got, select(bc.exp, idx), prefix, case, one_sig=bc.one_sig)


def c_write(col, bc, param):
    """param: selection | ["stream", c] | ["two", k]  (two write calls: [:k] and [k:])"""
    import bionumpy as bnp
    case = bc.case("write", param)
    kind = param[0]
    cls = {"stream": "stream", "two": "two-writes"}.get(kind) or sel_class(param)
    prefix = "write:" + cls
    out = os.path.join(bc.tmp, "out.bam")
    if os.path.exists(out):
        os.unlink(out)

    def wr():
        if kind == "stream":
            with bnp.open(bc.path) as fin:
                with bnp.open(out, "w") as f:
                    f.write(fin.read_chunks(min_chunk_size=param[1]))
        elif kind == "two":
            with bnp.open(bc.path) as fin:
                e = fin.read()
            with bnp.open(out, "w") as f:
                f.write(e[:param[1]])
                f.write(e[param[1]:])
        else:
            with bnp.open(bc.path) as fin:
                e = lib_select(fin.read(), param)
            with bnp.open(out, "w") as f:
                f.write(e)
        return True
    if col.guarded(wr, prefix, case) is None:
        return
    idx = list(range(len(bc.records))) if kind in ("stream", "two") else apply_sel(bc.records, param)
    want = [ref.normalise(bc.records[i]) for i in idx]
    data = open(out, "rb").read()
    dec = col.guarded(lambda: ref.decode_bam(data), prefix + ":output-not-decodable-per-spec", case)
    if dec is not None:
        text, refs, recs = dec
        exp_text = ref.sam_header_text(bc.refs) if bc.text is None else bc.text
        col.check(refs == bc.refs and text == exp_text, prefix + ":header-differs", case,
                  "refs %r expected %r; text equal: %r" % (refs[:4], bc.refs[:4], text == exp_text))
        main = ("ref", "pos", "name", "mapq", "flag", "cigar", "seq", "qual")
        g_main = [[r[k] for k in main] for r in recs]
        w_main = [[r[k] for k in main] for r in want]
        if col.check(g_main == w_main, prefix + ":records-differ", case,
                     "%d records written, %d expected; %s" % (len(recs), len(want), first_diff(g_main, w_main))):
            aux = ("next_ref", "next_pos", "tlen", "tags")
            g_aux = [[r[k] for k in aux] for r in recs]
            w_aux = [[r[k] for k in aux] for r in want]
            col.check(g_aux == w_aux, prefix + ":mate-fields-or-tags-differ", case, first_diff(g_aux, w_aux))
        col.check(data.endswith(ref.BGZF_EOF), prefix + ":no-bgzf-eof-block", case, "last bytes %r" % data[-28:].hex())
    # and the library's own reading of what it wrote

    def rd():
        with bnp.open(out) as f:
            return f.read()
    e = col.guarded(rd, prefix + ":readback", case)
    if e is None:
        return
    n = col.guarded(lambda: len(e), prefix + ":readback:len", case)
    if not col.check(n == len(idx), bc.one_sig or prefix + ":readback:record-count", case, "got %r expected %d" % (n, len(idx))):
        return
    got = observe(col, e, prefix + ":readback", case, bc)
    compare(col, got, select(bc.exp, idx), prefix + ":readback", case, one_sig=bc.one_sig)



# --------------------------------------------------------------------------------- operation histories on one table
H_OPS = ["interval", "reflen", "sub_interval", "arith", "text", "columns", "subset", "concat", "write"]
H_MODES = ["lazy", "eager", "chunked"]
AUX_EXC = set()
MAIN = ("ref", "pos", "name", "mapq", "flag", "cigar", "seq", "qual")


def iv_observe(col, parts, prefix, case, bc):
    got = {}
    for f in IV_FIELDS:
        def get(f=f):
            out = []
            for p in parts:
                v = pyval(getattr(p, f))
                out.extend(list(v) if not isinstance(v, str) else list(v))
            return ["".join(x) if isinstance(x, list) else x for x in out]
        got[f] = guard(col, get, prefix + ":" + f, case, bc, f == "chromosome")
    return got


def h_apply(col, bc, e, exp, recs, op, case):
    """ONE derived computation on the table `e` (none of them is an in-place operation of the caller); the results
    that the property defines (reference interval, reference length, written records) are checked every time"""
    import numpy as np
    import bionumpy as bnp
    from bionumpy.alignments import alignment_to_interval
    from bionumpy.alignments.cigar import count_reference_length
    n = len(recs)
    mask = [i % 2 == 0 for i in range(n)]
    idx = [i for i in range(n) if mask[i]]
    rp = "history:result:" + op

    def aux(op, fns):
        # computations whose RESULT the property says nothing about: only their effect on the table matters, so an
        # exception of theirs is not a failure of C16 (noted in bounds["history_aux_step_exceptions"])
        for fn in fns:
            try:
                fn()
            except Exception as ex:
                AUX_EXC.add(op + ":" + type(ex).__name__)
    if op == "interval":
        iv = alignment_to_interval(e)
        compare(col, iv_observe(col, [iv], rp, case, bc), exp, rp, case, fields=IV_FIELDS, one_sig=bc.one_sig)
    elif op == "reflen":
        got = pyval(count_reference_length(e.cigar_op, e.cigar_length))
        want = [b - a for a, b in zip(exp["start"], exp["stop"])]
        col.check(got == want, bc.one_sig or rp + ":wrong-value", case, first_diff(got, want))
    elif op == "sub_interval":
        iv = alignment_to_interval(e[np.array(mask, dtype=bool)])
        compare(col, iv_observe(col, [iv], rp, case, bc), select(exp, idx), rp, case, fields=IV_FIELDS, one_sig=bc.one_sig)
    elif op == "arith":
        # out-of-place arithmetic, comparisons and reductions on every column
        aux(op, [lambda: e.position + 1, lambda: e.position - e.position, lambda: e.flag & np.uint16(16), lambda: e.flag | np.uint16(1),
                 lambda: e.mapq * 2, lambda: -(e.position), lambda: e.cigar_length * 2, lambda: e.cigar_length + 1, lambda: e.cigar_length >> 1,
                 lambda: e.cigar_length.sum(axis=-1), lambda: np.cumsum(e.cigar_length, axis=-1), lambda: e.quality + 33,
                 lambda: e.quality.sum(axis=-1), lambda: e.quality > 20, lambda: e.sequence == "A", lambda: e.cigar_op == "S",
                 lambda: e.cigar_op != "M", lambda: e.sequence.lengths, lambda: e.name.lengths, lambda: e.cigar_length.ravel() * 0,
                 lambda: e.quality.ravel() + 1, lambda: np.where(e.flag & np.uint16(16), 1, 0), lambda: np.argsort(e.position),
                 lambda: np.sort(e.mapq), lambda: bnp.count_encoded(e.sequence, axis=-1)])
    elif op == "text":
        aux(op, [lambda: str(e), lambda: repr(e.cigar_length), lambda: str(e.cigar_op), lambda: str(e.sequence[:3]),
                 lambda: str(e.quality[:3]), lambda: e.tolist() if n <= 100 else None])
    elif op == "columns":
        aux(op, [lambda f=f: pyval(getattr(e, f)) for f in FIELDS])
    elif op == "subset":
        for sel in (lambda: e[np.array(list(range(n))[::-1], dtype=int)], lambda: e[np.array(mask, dtype=bool)], lambda: e[1:], lambda: e[::2]):
            aux(op, [lambda f=f: pyval(getattr(sel(), f)) for f in FIELDS])
    elif op == "concat":
        aux(op, [lambda f=f: pyval(getattr(np.concatenate([e, e[np.array(mask, dtype=bool)]]), f)) for f in FIELDS])
    elif op == "write":
        out = os.path.join(bc.tmp, "hist_out.bam")
        if os.path.exists(out):
            os.unlink(out)
        with bnp.open(out, "w") as f:
            f.write(e[np.array(mask, dtype=bool)])
        dec = col.guarded(lambda: ref.decode_bam(open(out, "rb").read()), rp + ":output-not-decodable-per-spec", case)
        if dec is not None:
            g = [[r[k] for k in MAIN] for r in dec[2]]
            w = [[ref.normalise(recs[i])[k] for k in MAIN] for i in idx]
            col.check(g == w, rp + ":records-differ", case, "%d records written, %d expected; %s" % (len(g), len(w), first_diff(g, w)))
    else:
        raise ValueError(op)


def h_tables(bc, mode):
    """the table(s) a history works on: [(entries, indices of its records in the file)]"""
    import bionumpy as bnp
    if mode == "chunked":
        chunks = read_chunked(bc, max(max(bc.sizes), sum(bc.sizes) // 4 + 1))      # about four chunks
        out, a = [], 0
        for ch in chunks:
            out.append((ch, list(range(a, a + len(ch)))))
            a += len(ch)
        return out
    with bnp.open(bc.path, **({"lazy": False} if mode == "eager" else {})) as f:
        return [(f.read(), list(range(len(bc.records))))]


def h_run(col, bc, mode, ops):
    """the history `ops` on freshly read table(s), then the contract: the table is what it was.  Failures of the final
    contract are attributed to the LAST step (c_history looks for the shortest failing prefix)."""
    import numpy as np
    case = bc.case("history", {"mode": mode, "ops": list(ops)})
    tables = col.guarded(lambda: h_tables(bc, mode), "history:read:" + mode, case)
    if tables is None:
        return
    if not col.check(sum(len(ix) for _, ix in tables) == len(bc.records), bc.one_sig or "history:read:" + mode + ":record-count", case,
                     "%r records in the tables, file has %d" % ([len(ix) for _, ix in tables], len(bc.records))):
        return
    for op in ops:
        for e, ix in tables:
            col.guarded(lambda: h_apply(col, bc, e, select(bc.exp, ix), [bc.records[i] for i in ix], op, case), "history:step:" + op, case)
    stage = "history:after-" + ops[-1] + ":table-changed" if ops else "history:before-any-step:table-wrong"
    for e, ix in tables:
        exp = select(bc.exp, ix)
        n = len(ix)
        p = stage + ":direct"
        compare(col, observe(col, e, p, case, bc), exp, p, case, one_sig=bc.one_sig)
        p = stage + ":subset"
        for sel in (["index", list(range(n))[::-1]], ["mask", [i % 2 == 1 for i in range(n)]], ["slice", [None, None, 2]]):
            s = col.guarded(lambda: lib_select(e, sel), p, case)
            if s is not None:
                compare(col, observe(col, s, p, case, bc), select(exp, apply_sel(ix, sel)), p, case, one_sig=bc.one_sig)
    # a table read afresh afterwards is the file's, too (no state shared between tables was altered)
    p = "history:after-" + ops[-1] + ":fresh-read-differs" if ops else "history:before-any-step:second-read-differs"
    fresh = col.guarded(lambda: h_tables(bc, "lazy")[0][0], p, case)
    if fresh is not None:
        compare(col, observe(col, fresh, p, case, bc), bc.exp, p, case, one_sig=bc.one_sig)


def c_history(col, bc, param):
    """param: {"mode": "lazy" | "eager" | "chunked", "ops": [op, ...]}"""
    mode, ops = param["mode"], list(param["ops"])
    full = Collector("C16", col.tier, col.seed, "scratch")
    h_run(full, bc, mode, ops)
    if not full.failures:
        return
    found = full
    for k in range(0, len(ops)):      # k = 0: the table is wrong before any step (a decoding defect, not one of the history)
        part = Collector("C16", col.tier, col.seed, "scratch")
        h_run(part, bc, mode, ops[:k])
        if part.failures:
            found = part
            break
    for f in found.failures:
        col.fail(f["signature"], f["case"], f["message"])


def history_params(max_len, modes=H_MODES, first=None):
    for mode in modes:
        for L in range(1, max_len + 1):
            for seq in itertools.product(H_OPS, repeat=L):
                if first is not None and L > 1 and seq[0] not in first:
                    continue
                if mode == "eager" and "write" in seq:
                    continue      # precondition of BAM writing: the lazily read table (it carries the record bytes and the file header)
                yield {"mode": mode, "ops": list(seq)}


def history_specs(tier):
    """(spec, longest history, modes, restriction of the first step for histories longer than 1)"""
    producers = ["interval", "reflen", "sub_interval"]
    if tier == "quick":
        return [({"gen": ["history", 0]}, 2, ["lazy", "eager"], None), ({"gen": ["history", 0]}, 2, ["chunked"], producers),
                ({"gen": ["history", 1]}, 2, ["lazy", "eager"], producers),
                ({"gen": ["history", 2]}, 1, H_MODES, None),
                ({"gen": ["history", 3]}, 2, ["lazy"], producers),
                ({"gen": ["history", 4]}, 1, H_MODES, None),
                ({"gen": ["sweep", "cigar2", 0]}, 1, ["lazy", "eager"], None),
                ({"gen": ["sweep", "fixed", 0]}, 1, H_MODES, None),
                ({"gen": ["long_reads", 65535, 70001]}, 1, ["lazy"], producers)]
    out = [({"gen": ["history", 0]}, 3, ["lazy"], None), ({"gen": ["history", 0]}, 2, ["eager", "chunked"], None)]
    out += [({"gen": ["history", 1]}, 2, ["lazy", "eager"], None), ({"gen": ["history", 1]}, 2, ["chunked"], producers),
            ({"gen": ["history", 2]}, 2, H_MODES, None)]
    out += [({"gen": ["history", k]}, 2, H_MODES, producers) for k in (3, 4)]
    out += [({"gen": ["sweep", kind, 0]}, 2, ["lazy", "eager"], producers) for kind in ("cigar1", "cigar2", "fixed", "flag")]
    out += [({"gen": ["sweep", "refs", 3]}, 2, H_MODES, producers), ({"gen": ["sweep", "ncigar", 60]}, 1, H_MODES, None),
            ({"gen": ["long_reads", 65535, 70001]}, 1, H_MODES, None), ({"gen": ["long_reads", 65536, 131074]}, 2, ["lazy"], producers)]
    out += [({"gen": ["chunk", k, 6]}, 2, H_MODES, producers) for k in range(2)]
    return out


# ------------------------------------------------------------------- selection chains (selection of a selection ...)
# A chain is a short history of record selections on ONE freshly read table (or on every chunk of a chunked read):
# filter, then slice the filtered table, then ... ; between two selections the intermediate table may be read (all nine
# fields) or written to a side file.  The final table must decode, in memory and after bnp.open(y.bam,'w').write, to
# exactly the records that the composed selection picks ("writing records back, whole or filtered, gives a BAM that
# decodes to the same records").
PREDS = {"forward": (lambda r: not r["flag"] & 16, lambda e: (e.flag & 16) == 0),
         "mapq>=30": (lambda r: r["mapq"] >= 30, lambda e: e.mapq >= 30),
         "pos<1000": (lambda r: r["pos"] < 1000, lambda e: e.position < 1000)}


def chain_local(recs, sel):
    """indices (into the current table, whose records are `recs`) that the selection picks; on top of apply_sel:
    ["pred", name] (mask that the library computes from a column), ["mod", m, r, keep] (mask i % m == r, or its
    complement), ["drop", "first"|"mid"|"last"], ["rev"], ["rot"] (index arrays) - these are defined for every table
    length, so they can be applied to every chunk of a chunked read"""
    n = len(recs)
    k = sel[0]
    if k == "pred":
        return [i for i, r in enumerate(recs) if PREDS[sel[1]][0](ref.normalise(r))]
    if k == "mod":
        return [i for i in range(n) if (i % sel[1] == sel[2]) == bool(sel[3])]
    if k == "drop":
        d = {"first": 0, "mid": n // 2, "last": n - 1}[sel[1]]
        return [i for i in range(n) if i != d]
    if k == "rev":
        return list(range(n))[::-1]
    if k == "rot":
        return [(i * 7 + 3) % n for i in range(n)]
    return apply_sel(recs, sel)


def chain_lib(e, sel, recs):
    import numpy as np
    k = sel[0]
    if k == "pred":
        return e[PREDS[sel[1]][1](e)]
    if k in ("mod", "drop"):
        local = set(chain_local(recs, sel))
        return e[np.array([i in local for i in range(len(recs))], dtype=bool)]
    if k in ("rev", "rot"):
        return e[np.array(chain_local(recs, sel), dtype=int)]
    return lib_select(e, sel)


def chain_class(sel, local):
    """(class of the step, state of the table it produces) for the signature.  step: filtered (records dropped, order
    kept: mask or ascending index list), reordered, sliced (unit step), strided; state: sliced (consecutive records of
    the parent), filtered (ascending with gaps), reordered"""
    k = sel[0]
    if k == "whole":
        return None, None
    if k == "slice":
        st = sel[1][2]
        if st in (None, 1):
            return "sliced", "sliced"
        return "strided", ("filtered" if st > 0 else "reordered")
    if k in ("rev", "rot"):
        return "reordered", "reordered"
    if k == "index":
        c = "filtered" if all(a < b for a, b in zip(local, local[1:])) else "reordered"
        return c, c
    return "filtered", "filtered"


STATE_RANK = {"fresh": 0, "sliced": 1, "filtered": 2, "reordered": 3}


def chain_compare(col, bc, e, want_idx, prefix, case):
    """the nine fields of `e` == the records `want_idx` of the file; all fields collapse into ONE signature (the known
    classes - refID -1, n_cigar_op >= 16384 - keep theirs)"""
    scratch = Collector("C16", col.tier, col.seed, "scratch")
    compare(scratch, observe(scratch, e, prefix, case, bc), select(bc.exp, want_idx), prefix, case, one_sig=bc.one_sig)
    bad = []
    for f in scratch.failures:
        if f["signature"].startswith(SIG_UNMAPPED) or f["signature"] == SIG_BIGCIGAR:
            col.fail(f["signature"], f["case"], f["message"])
        else:
            bad.append(f)
    if bad:
        col.fail(prefix + ":fields-differ", case, "file records %r; %s: %s (%d field checks failed: %s)" % (
            want_idx[:20], bad[0]["signature"][len(prefix) + 1:], bad[0]["message"][-300:], len(bad),
            ", ".join(f["signature"][len(prefix) + 1:] for f in bad[:9])))
    return not bad


def chain_check_written(col, bc, path, want_idx, prefix, case, readback=True):
    import bionumpy as bnp
    data = open(path, "rb").read()
    want = [ref.normalise(bc.records[i]) for i in want_idx]
    dec = col.guarded(lambda: ref.decode_bam(data), prefix + ":output-not-decodable-per-spec", case)
    if dec is None:
        return
    text, refs, recs = dec
    exp_text = ref.sam_header_text(bc.refs) if bc.text is None else bc.text
    col.check(refs == bc.refs and text == exp_text, prefix + ":header-differs", case,
              "refs %r expected %r; text equal: %r" % (refs[:4], bc.refs[:4], text == exp_text))
    col.check(data.endswith(ref.BGZF_EOF), prefix + ":no-bgzf-eof-block", case, "last bytes %r" % data[-28:].hex())
    g_main = [[r[k] for k in MAIN] for r in recs]
    w_main = [[r[k] for k in MAIN] for r in want]
    if not col.check(g_main == w_main, prefix + ":records-differ", case,
                     "%d records written, %d expected (file records %r); %s" % (len(recs), len(want), want_idx[:20], first_diff(g_main, w_main))):
        return
    aux = ("next_ref", "next_pos", "tlen", "tags")
    g_aux = [[r[k] for k in aux] for r in recs]
    w_aux = [[r[k] for k in aux] for r in want]
    col.check(g_aux == w_aux, prefix + ":mate-fields-or-tags-differ", case, first_diff(g_aux, w_aux))
    if not readback:
        return

    def rd():
        with bnp.open(path) as f:
            return f.read()
    e = col.guarded(rd, prefix + ":readback", case)
    if e is None:
        return
    n = col.guarded(lambda: len(e), prefix + ":readback:len", case)
    if col.check(n == len(want_idx), bc.one_sig or prefix + ":readback:record-count", case, "got %r expected %d" % (n, len(want_idx))):
        chain_compare(col, bc, e, want_idx, prefix + ":readback", case)


def chain_run(col, bc, mode, steps, case):
    """one chain on freshly read table(s).  Signatures: chain:<class of the last selection>-of-<state of the table it was
    applied to>:<aspect>; state = fresh | sliced | filtered | reordered (the most disordered selection so far), prefixed
    with "written+" once the table has been written"""
    import bionumpy as bnp
    out = os.path.join(bc.tmp, "chain_out.bam")
    side = os.path.join(bc.tmp, "chain_side.bam")
    for p in (out, side):
        if os.path.exists(p):
            os.unlink(p)
    if mode == "whole":
        def rd():
            with bnp.open(bc.path) as f:
                return [f.read()]
    else:
        assert mode[1] >= max(bc.sizes)

        def rd():
            return read_chunked(bc, mode[1])
    tables = col.guarded(rd, "chain:read", case)
    if tables is None:
        return
    if not col.check(sum(len(t) for t in tables) == len(bc.records), bc.one_sig or "chain:read:record-count", case,
                     "%r records in the tables, file has %d" % ([len(t) for t in tables], len(bc.records))):
        return
    finals, want_all, a = [], [], 0
    name = "unselected-of-fresh"
    for t in tables:
        cur = list(range(a, a + len(t)))
        a += len(t)
        e = t
        state, written = "fresh", ""
        name = "unselected-of-fresh"
        for st in steps:
            if st[0] == "read":
                if not chain_compare(col, bc, e, cur, "chain:" + name + ":memory", case):
                    return
                continue
            if st[0] == "write":
                pfx = "chain:write-of-" + written + state

                def wr(e=e):
                    with bnp.open(side, "w") as f:
                        f.write(e)
                    return True
                if col.guarded(wr, pfx, case) is None:
                    return
                chain_check_written(col, bc, side, cur, pfx, case, readback=False)
                state, written = "fresh", "written+"
                continue
            recs = [bc.records[i] for i in cur]
            local = chain_local(recs, st)
            cls, new_state = chain_class(st, local)
            if cls is not None:
                name = cls + "-of-" + (written + state if state != "fresh" or not written else "written")
                if STATE_RANK[new_state] > STATE_RANK[state]:
                    state = new_state
            pfx = "chain:" + name
            e = col.guarded(lambda e=e: chain_lib(e, st, recs), pfx + ":select", case)
            if e is None:
                return
            cur = [cur[i] for i in local]
            n = col.guarded(lambda: len(e), pfx + ":len", case)
            if not col.check(n == len(cur), bc.one_sig or pfx + ":record-count", case, "got %r expected %d" % (n, len(cur))):
                return
        finals.append((e, cur))
        want_all += cur
    pfx = "chain:" + name
    # in memory (first table only before the write, every table after it: the write itself reads the tables)
    e, cur = finals[0]
    if not chain_compare(col, bc, e, cur, pfx + ":memory", case):
        return

    def wr():
        with bnp.open(out, "w") as f:
            for e, _ in finals:
                f.write(e)
        return True
    if col.guarded(wr, pfx + ":write", case) is None:
        return
    # (the library's own reading of the output only for the multi-write outputs of chunked chains: reading is the other contracts' job)
    chain_check_written(col, bc, out, want_all, pfx + ":write", case, readback=(mode != "whole"))
    for e, cur in finals:
        if not chain_compare(col, bc, e, cur, pfx + ":memory-after-write", case):
            break


def c_chain(col, bc, param):
    """param: {"mode": "whole" | ["chunked", c], "steps": [step, ...]}; step: a selection (see chain_local) | ["read"] (all nine
    fields of the current table are read and compared) | ["write"] (the current table is written to a side file, checked).
    A failing chain is attributed to its shortest failing prefix (so a defect of one selection step is not reported again
    under the name of every longer chain that contains it)."""
    mode, steps = param["mode"], param["steps"]
    case = bc.case("chain", param)
    full = Collector("C16", col.tier, col.seed, "scratch")
    chain_run(full, bc, mode, steps, case)
    if not full.failures:
        return
    found = full
    for k in range(1, len(steps)):
        if steps[k - 1][0] in ("read", "write"):
            continue
        part = Collector("C16", col.tier, col.seed, "scratch")
        chain_run(part, bc, mode, steps[:k], case)
        if part.failures:
            found = part
            break
    for f in found.failures:
        col.fail(f["signature"], f["case"], f["message"])


CHAIN_RULES = [["mod", 2, 0, 1], ["mod", 2, 1, 1], ["mod", 3, 1, 0], ["drop", "mid"], ["drop", "first"], ["pred", "forward"], ["pred", "mapq>=30"],
               ["rev"], ["rot"], ["slice", [1, None, 1]], ["slice", [None, -1, None]], ["slice", [1, -1, 1]], ["slice", [None, 2, None]],
               ["slice", [None, None, 2]], ["slice", [None, None, -1]], ["slice", [0, 0, 1]], ["whole"]]
CHAIN_RULES_SHORT = [["mod", 2, 0, 1], ["drop", "mid"], ["pred", "forward"], ["rev"], ["slice", [1, None, 1]], ["slice", [None, -1, None]],
                     ["slice", [None, None, 2]]]


def unit_slices(m):
    return [["slice", [a, b, s]] for a in range(m + 1) for b in range(a, m + 1) for s in ((1,) if (a + b) % 2 else (None,))]


def chain_specs(tier):
    """(file spec, [param, ...]) of the selection chains"""
    quick = tier == "quick"
    out = []
    # (1) every boolean mask of an n-record table, then EVERY unit-step slice of the filtered table
    #     (n = 4: also with the filtered table read / written in between; also every ascending index list = the same subsets)
    for k, n, variants in ([(0, 4, 3), (1, 5, 1)] if quick else [(0, 4, 3), (1, 5, 3), (2, 6, 1), (3, 3, 3)]):
        ps = []
        for m in itertools.product([False, True], repeat=n):
            kept = [i for i in range(n) if m[i]]
            for sl in unit_slices(len(kept)):
                ps.append({"mode": "whole", "steps": [["mask", list(m)], sl]})
                if variants == 3:
                    ps.append({"mode": "whole", "steps": [["mask", list(m)], ["read"], sl]})
                    ps.append({"mode": "whole", "steps": [["mask", list(m)], ["write"], sl]})
                    ps.append({"mode": "whole", "steps": [["index", kept], sl]})
        out.append(({"gen": ["chunk", k, n]}, ps))
    # (2) every permutation / repetition-free arrangement of 3 records, then every unit-step slice
    ps = [{"mode": "whole", "steps": [["index", list(p)], sl]} for r in (2, 3) for p in itertools.permutations(range(3), r) for sl in unit_slices(r)]
    out.append(({"gen": ["chunk", 1, 3]}, ps))
    # (3) every pair (thorough: also every triple over the short list) of rule selections, on whole tables
    R, S = CHAIN_RULES, CHAIN_RULES_SHORT
    for spec in ([{"gen": ["history", 0]}] if quick else [{"gen": ["history", 0]}, {"gen": ["history", 4]}, {"gen": ["chunk", 4, 8]}]):
        ps = [{"mode": "whole", "steps": [a, b]} for a in R for b in R]
        if quick:
            ps += [{"mode": "whole", "steps": [a, mid, b]} for a in S[:4] for mid in (["read"], ["write"]) for b in S[4:]]
            ps += [{"mode": "whole", "steps": [a, b, c]} for a in S[:3] for b in S[3:6] for c in S[4:]]
        else:
            ps += [{"mode": "whole", "steps": [a, mid, b]} for a in S for mid in (["read"], ["write"]) for b in S]
            ps += [{"mode": "whole", "steps": [a, b, c]} for a in S for b in S for c in S]
            ps += [{"mode": "whole", "steps": [a, b, ["write"], c]} for a in S[:4] for b in S[3:] for c in S[3:]]
        out.append((spec, ps))
    # (4) chunked reads: the chain is applied to every chunk and the results are written one after the other
    for spec in ([{"gen": ["history", 4]}] if quick else [{"gen": ["history", 4]}, {"gen": ["chunk", 2, 8]}]):
        F = build_file(spec)
        sizes = [len(ref.encode_record(r)) for r in F["records"]]
        cs = sorted({max(sizes), max(max(sizes), sum(sizes) // 5 + 1), max(max(sizes), sum(sizes) // 2 + 3)})
        ps = []
        for j, c in enumerate(cs[1:] if quick else cs):
            if quick and j:
                ps += [{"mode": ["chunked", c], "steps": [a, b]} for a in S[:3] for b in S[4:]]
                continue
            rules = S if (quick or c == cs[0]) else R      # smallest chunk size (many chunks): the short list
            ps += [{"mode": ["chunked", c], "steps": [a, b]} for a in rules for b in rules]
            ps += [{"mode": ["chunked", c], "steps": [a, mid, b]} for a in S[:3] for mid in (["read"], ["write"]) for b in S[4:6]]
        out.append((spec, ps))
    return out


CONTRACTS = {"read_whole": c_read_whole, "interval": c_interval, "read_chunks": c_read_chunks, "subset": c_subset,
             "write": c_write, "history": c_history, "chain": c_chain}


def evaluate(col, bc, contract, param, nontrivial=True):
    col.case(bc.descr(contract, param), nontrivial=nontrivial, contract=contract)
    # failures in the long-read files (generator "long_reads") form their own classes: signature prefix "long_reads:"
    target = Collector("C16", col.tier, col.seed, "scratch") if bc.sig_prefix else col
    try:
        CONTRACTS[contract](target, bc, param)
    except Exception as e:  # a crash inside the checking code itself must not be silent
        target.fail("checker:" + contract + ":exception:" + type(e).__name__, bc.case(contract, param), traceback.format_exc()[-500:])
    if target is not col:
        for f in target.failures:
            col.fail(bc.sig_prefix + f["signature"], f["case"], f["message"])


# ----------------------------------------------------------------------------------------------------- enumeration
def boundary_chunk_sizes(bc, cap=30):
    """chunk sizes >= largest record whose chunk boundaries fall on / just before / just after record boundaries
    (0..4 bytes into the next record = inside its block_size field)"""
    m = max(bc.sizes)
    total = sum(bc.sizes)
    cs = {m, m + 1, m + 2, m + 3, m + 4, total - 1, total, total + 1, total + 2, 2 * total + 7}
    acc = 0
    for s in bc.sizes:
        acc += s
        for d in (-1, 0, 1, 3, 4, 5):
            cs.add(acc + d)
            if acc % 2 == 0:
                cs.add(acc // 2 + d)
    cs = sorted(c for c in cs if c >= m)
    if len(cs) > cap:
        mid = cs[5:-5]
        step = len(mid) / float(cap - 10)
        cs = cs[:5] + [mid[int(i * step)] for i in range(cap - 10)] + cs[-5:]
    return cs


def all_chunk_sizes(bc):
    m = max(bc.sizes)
    return list(range(m, sum(bc.sizes) + 3))


def selections(n, full):
    """whole, filtered (boolean masks), reordered (index arrays), sliced"""
    out = []
    if full and n <= 4:
        out += [["mask", list(m)] for m in itertools.product([False, True], repeat=n)]
        out += [["index", list(p)] for p in itertools.permutations(range(n))]
        out += [["index", [n - 1, 0, 0]], ["index", [-1]], ["index", []]]
        out += [["slice", [a, b, 1]] for a in range(n + 1) for b in range(a, n + 1)]
        out += [["slice", [None, None, -1]], ["slice", [None, None, 2]], ["slice", [1, None, 2]]]
    else:
        out += [["mask", [i % 2 == 0 for i in range(n)]], ["mask", [i % 3 == 1 for i in range(n)]],
                ["mask", [i != 0 for i in range(n)]], ["mask", [i != n - 1 for i in range(n)]],
                ["mask", [False] * n],
                ["index", list(range(n))[::-1]], ["index", [(i * 7 + 3) % n for i in range(n)]],
                ["slice", [1, None, 1]], ["slice", [None, n - 1, 1]], ["slice", [None, None, -1]], ["slice", [None, None, 2]]]
    return out


def standard(col, bc, chunks="boundary", sels="few", eager=True, quick=False):
    """all contracts for one file"""
    n = len(bc.records)
    evaluate(col, bc, "read_whole", "lazy")
    if eager:
        evaluate(col, bc, "read_whole", "eager")
    evaluate(col, bc, "interval", "function")
    evaluate(col, bc, "interval", "buffer")
    if n == 0:
        return
    if chunks == "boundary":
        cs = boundary_chunk_sizes(bc, cap=(16 if n <= 40 else 6) if quick else (30 if n <= 40 else 12))
    elif chunks == "all":
        cs = all_chunk_sizes(bc)
    else:
        cs = []
    if chunks == "min":
        cs = [max(bc.sizes), max(bc.sizes) + 1, sum(bc.sizes)]
    for c in cs:
        evaluate(col, bc, "read_chunks", c)
        if col.out_of_time():
            return
    if cs:
        evaluate(col, bc, "interval", ["stream", cs[0]])
        evaluate(col, bc, "interval", ["bufferchunks", cs[len(cs) // 2]])
        evaluate(col, bc, "write", ["stream", cs[0]])
        evaluate(col, bc, "write", ["stream", cs[len(cs) // 2]])
    evaluate(col, bc, "write", ["whole"])
    if sels == "none":
        return
    for k in sorted({0, 1, n // 2, n}):
        evaluate(col, bc, "write", ["two", k])
    for s in selections(n, full=(sels == "full")):
        evaluate(col, bc, "subset", s)
        evaluate(col, bc, "write", s)


def file_specs(tier):
    """(spec, chunks, sels) for the exhaustive part"""
    quick = tier == "quick"
    out = []
    # long reads: two records with l_seq at / beyond 16 bits (and 17 bits) among short ones, both parities
    for l1, l2 in ([(65535, 65536), (70001, 131074)] if quick else
                   [(65535, 65536), (70001, 131074), (65534, 65537), (131071, 131072), (99999, 262145), (65536, 65535)]):
        out.append(({"gen": ["long_reads", l1, l2]}, "min", "few"))
    # value sweeps
    sw = [("fixed", 0), ("flag", 0), ("mapq", 0), ("pos", 0), ("namelen", 0), ("seq1", 0), ("seq2", 0), ("seqlen", 40 if quick else 300),
          ("qual", 0), ("cigar1", 0), ("cigar2", 0), ("ncigar", 20 if quick else 60), ("tags", 20 if quick else 40),
          ("newline_tail", 0), ("newline_tail", 1), ("newline_tail", 2), ("newline_tail", 3), ("empty", 0), ("empty", 2), ("refs", 0), ("refs", 1), ("refs", 2), ("refs", 3),
          ("header", 0), ("header", 1), ("header", 2), ("header", 3),
          ("long_seq", 70001), ("large_cigar", 255), ("large_cigar", 16383), ("large_cigar", 16384)]
    if not quick:
        sw += [("seq3", 0), ("cigar3", 0), ("large_cigar", 256), ("large_cigar", 65535), ("empty", 1), ("empty", 3)]
    for kind, arg in sw:
        big = kind in ("seq3", "cigar3", "large_cigar", "long_seq", "namelen", "seqlen") or (kind == "header" and arg >= 2)
        out.append(({"gen": ["sweep", kind, arg]}, "min" if big else "boundary", "few"))
    # single-record files over a reduced shape grid
    for nl, nc, ls, tl in itertools.product([1, 2, 254], [0, 1, 4], range(8), [0, 5]):
        out.append(({"gen": ["single", nl, nc, ls, tl, (nl + ls) % 4]}, "boundary", "full" if (ls + nc) % 4 == 0 else "none"))
    # chunk-size sweeps: every chunk size from the largest record to past the end
    for n in ([2, 3, 4, 6] if quick else [2, 3, 4, 5, 6, 8]):
        for k in range(2 if quick else 12):
            out.append(({"gen": ["chunk", k, n]}, "all", "full" if n <= 3 else "few"))
    # three-record files over the full shape grid
    N = len(shapes(tier))
    for j in range(0, N, 2 if quick else 1):   # quick: even j; shapes with odd index still occur as 2nd/3rd record
        out.append(({"gen": ["grid", tier, j]}, "boundary" if (not quick or j % 6 == 0) else "min",
                    "full" if j % (25 if quick else 6) == 0 else ("few" if j % (10 if quick else 5) == 1 else "none")))
    return out


def run(tier="quick", seed=0):
    ref.selfcheck()
    AUX_EXC.clear()
    quick = tier == "quick"
    col = Collector("C16", tier, seed,
                    "exhaustive part: BAMs from the independent spec-level encoder (rtc/refmodels/bam.py): (a) value sweeps - every flag bit, "
                    "mapq 0..255, position boundaries, read-name length 1..254, every 1- and 2-letter sequence over the 16-letter code "
                    "(thorough: 3-letter), sequence length 0..40 (thorough 0..300), quality 0..93, every CIGAR op x 11 lengths, every op pair "
                    "(thorough: triple), 0..20 ops, tag bytes 0..20, 0..3 references x every refID incl. -1, header text empty/long, 0 records, "
                    "n_cigar_op 255/16383/16384; (b) shape grid: name length x n_cigar 0..4 x l_seq 0..7(9) x tag bytes, as single-record files "
                    "and as 3-record files of unequal shapes; (c) for each file every chunk size at record boundaries +-{0..5} and, for the "
                    "chunk-sweep files, EVERY chunk size from the largest record to past the end; (d) for files of <= 4 records every boolean "
                    "mask, every permutation, every slice, whole, two-call and streamed writes. Then seeded random records above the bounds "
                    "(names to 254, 0..8 ops, l_seq to 40/400, tags to 20 bytes, 1..8 records). distinct = (file generator args, contract, "
                    "parameter); non-trivial = every case except 0-record files. Before all that: operation histories on one decoded table "
                    "(every sequence of derived computations up to the stated length, then the table must still decode to the records) and "
                    "files with two long reads (l_seq >= 65535) under all contracts; and selection chains (see bounds.selection_chains): "
                    "distinct = (file, mode, sequence of selection / read / write steps)")
    col.bounds = {"references": "0..3 (+300 in one header case)", "read_name_len": "1..254",
                  "n_cigar_op": "0..4 grid, 0..%d sweep, 255, 16383, 16384%s" % (20 if quick else 60, "" if quick else ", 256, 65535"),
                  "cigar_ops": "all nine; lengths " + str(CLEN), "l_seq": "0..%d grid, 0..%d sweep, 70001" % (7 if quick else 9, 40 if quick else 300),
                  "quality": "0..93", "tag_bytes": "0, 4..%d (well-formed Z / C / i fields)" % (20 if quick else 40), "records_per_file": "0..8 (sweeps up to 4096)",
                  "chunk_size": "every size in [largest record, total+2] for chunk-sweep files; record-boundary sizes otherwise",
                  "write": "whole, every mask / permutation / slice for n<=4, two calls, chunk stream", "bgzf_block_payload": PAYLOADS,
                  "random_files": "quick 40; thorough until ~420 s"}
    col.bounds["long_reads"] = "files of 5 records, two of them with l_seq in " + ("{65535, 65536}, {70001, 131074}" if quick else
                               "{65535, 65536}, {70001, 131074}, {65534, 65537}, {131071, 131072}, {99999, 262145}") + ": all contracts"
    col.bounds["history"] = ("steps " + str(H_OPS) + "; every history of length 1..%d on the main history file, 1..2 (all, or first step an "
                             "interval / reference-length computation) or 1 on %d more files; tables: lazy, lazy=False, list of chunks"
                             % (2 if quick else 3, len(history_specs(tier)) - 1))
    with TmpDir() as tmp:
        # operation histories on one table
        for spec, max_len, modes, first in history_specs(tier):
            bc = BamCase(spec, tmp)
            for param in history_params(max_len, modes, first):
                evaluate(col, bc, "history", param)
            if col.out_of_time():
                break
        col.bounds["history_part_wall_s"] = round(time.time() - col.t0, 1)
        col.bounds["history_aux_step_exceptions"] = sorted(AUX_EXC)
        # selection chains (their wall time is added to the budget of the parts below, which keep the budget they had)
        t_chain = time.time()
        n_chain = 0
        for spec, params in chain_specs(tier):
            bc = BamCase(spec, tmp)
            for param in params:
                evaluate(col, bc, "chain", param)
                n_chain += 1
            if col.out_of_time():
                break
        col.bounds["selection_chains"] = ("%d chains: every boolean mask (and ascending index list) of a 3..%d-record table followed by EVERY "
                                          "unit-step slice of the filtered table, plain / with the filtered table read / written in between; every "
                                          "arrangement of 2..3 of 3 records followed by every unit-step slice; every pair of %d rule selections "
                                          "(masks by position and by column predicate, index arrays, unit / strided / reversed / empty slices) and "
                                          "triples over %d of them on whole tables; pairs on every chunk of chunked reads (2..3 chunk sizes), "
                                          "results written one after the other" % (n_chain, 5 if quick else 6, len(CHAIN_RULES), len(CHAIN_RULES_SHORT)))
        col.bounds["selection_chains_wall_s"] = round(time.time() - t_chain, 1)
        col.budget_s += time.time() - t_chain
        for spec, chunks, sels in file_specs(tier):
            bc = BamCase(spec, tmp)
            standard(col, bc, chunks, sels, quick=quick)
            if col.out_of_time():
                break
        # sampling above the bounds
        t_exh = time.time()
        i = 0
        limit = (60 if quick else 420) + col.bounds["selection_chains_wall_s"]
        while not col.out_of_time():
            if quick and i >= 40:
                break
            if time.time() - col.t0 > limit:
                break
            spec = gen_random(col.rng, big=(i % 10 == 9))
            spec["id"] = "random-%d" % i       # explicit spec: replay needs no generator
            bc = BamCase(spec, tmp)
            standard(col, bc, "boundary" if (i % 3 or quick) else "all", "few" if i % 4 else "full", eager=(i % 2 == 0), quick=quick)
            i += 1
        col.bounds["random_files_run"] = i
        col.bounds["exhaustive_part_wall_s"] = round(t_exh - col.t0, 1)
    return col.result()


def replay(case):
    col = Collector("C16", "quick", 0, "replay", budget_s=600)
    with TmpDir() as tmp:
        bc = BamCase(case["file"], tmp)
        param = case["param"]
        evaluate(col, bc, case["contract"], param)
    if col.failures:
        return False, "; ".join(f["signature"] + ": " + f["message"] for f in col.failures)
    return True, "ok"
