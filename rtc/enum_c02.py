"""C02 bounded stand-in: parsed columns mean what the file format says the text means.

For every supported text format a small grammar generates well-formed files; the REAL readers
(`bnp.open(path, buffer_type=..).read()` lazily and eagerly, and `buffer_type.from_raw_buffer(bytes).get_data()`)
are run on them and every column is compared with an independent spec-level parser
(rtc/refmodels/c02_text.py: bytes.split / int / float).  Contracts evaluated per file:

  count      len(entries) == number of records (header / comment lines never become entries)
  column     each column == value the format assigns to the text (strings verbatim, ints/floats by value, strands and
             qualities by symbol, list columns element by element, VCF POS-1, BED/SAM/GTF coordinates as written,
             typed INFO keys and genotype matrices per the header)

Scope (deterministic, see `bounds` and `rule` in the result): per format and per column every tuple of the column's
token pool (text widths {0,1,2,7}, int digits {1,2,7(,10)}, signs, '.' placeholders, float notations, list styles) over
1..3 records with the neighbouring columns at an unequal-width baseline; all columns varied at once; adjacent column
pairs (thorough); header lines 0..3; interior comments at every subset of gaps; LF/CRLF; FASTA at every wrap width x
length; FASTQ with '@'/'+' as first quality character; VCF INFO key subsets/orders/prefix-named keys; genotype
alphabets at every (record, sample) position; the same VCF read through several buffer types in one process;
long decimal float texts (printf '%.Nf' / '%.Ne' output with N = 15..30, digit strings of 17..30 digits with the dot at every
kind of position, i.e. texts beyond 18 digits / beyond int64 when read as one integer) in every float column (bedGraph, wig,
narrowPeak x 3, VCF INFO Float Number=1 and Number=A) next to short neighbours, compared with float(text) within 16 ulp.
Two or more ADJACENT comment lines (GFF3, wig): every assignment of 0..2 (thorough 0..3) comment lines to the gaps before / between /
after 1..3 records with at least one run of >= 2, runs of 3 and 4 at every gap (zone adjacent-comments).
Operation histories (zone other-header-before:<relation>): 2..3 files of one format with DIFFERENT headers read one after the other
in this process, each compared with the spec-level parse of its own text: VCF (all five buffer types) with one / two / all INFO keys
declared with another Type or Number, the declarations in another order, under other IDs, IDs exchanged, keys added / removed, with
and without INFO lines, same declarations but other Description / ##source / sample count; columns evaluated right after each read
or after all reads (lazy objects); every other format with another number of header lines and records.

Explicit '+' signs (zones plus-signed / plus+minus-signed / plus-signed-float): every integer-valued column of every format - BED
start/stop/score/thickStart/thickEnd/blockCount and the elements of blockSizes/blockStarts, bedGraph, wig, narrowPeak incl. summit,
chrom.sizes, GTF/GFF3, pairs, SAM FLAG/POS/MAPQ/PNEXT/TLEN, VCF POS, VCF INFO Integer Number=1/./2 - one column at a time over 1..3
records with tuples of unsigned, '+'-signed (1, 2, 7 (thorough 10, 18) digits, '+0') and '-'-signed tokens holding at least one '+'
token: a column with '+' and no '-' value is the class plus-signed, one with both plus+minus-signed; all integer columns '+'-signed at
once; float columns (bedGraph, wig, narrowPeak x 3, INFO Float scalar / list) with a leading '+' on decimal and scientific texts: the
class plus-signed-float, under the label 'float-column' instead of the format (one class whatever the format).

Float texts with no digit on one side of the decimal point (zones leading-dot-float / leading-dot-float-sci / trailing-dot-float /
trailing-dot-float-sci, label 'float-column'): '.5', '.0625', '-.75', '5.', '-3.', '.5e1', '-.5e2', '5.e1' ... (legal strtod / float()
syntax, as SAS / Stata / bc print values below one) in every float column (bedGraph, wig, narrowPeak x 3, VCF INFO Float Number=1 and
the elements of Number=A lists) over 1..4 records: the token alone, before and after plain and 'e'-notation neighbours, at every record
position of 3, two such tokens at every pair of positions of 4, columns made of such tokens only; all narrowPeak float columns at once;
every token at every element position of a 2- and 3-element INFO list.

Signatures: <format>:<column>:wrong-value:<zone> | <format>:count:wrong-number-of-entries:<zone> |
<format>:exception:<root cause type>:<zone>; zone = class of the input (plain, empty, dot+number, signed, sci,
list-trailing-comma, crlf, header, interior-comments, comment-with-tab, short-info-text, long-float, long-float-sci,
adjacent-comments, other-header-before:<relation of the header to the one read before> ...), never the varied column; in the
history cases all INFO keys share the column label 'info'.
"""
import itertools
import math
import os

from .common import Collector, TmpDir
from .refmodels import c02_text as ref

ALNUM = "abcdefghijklmnopqrstuvwxyzABCDEFGHIJKLMNOPQRSTUVWXYZ0123456789_"


# ------------------------------------------------------------------------------------------- tokens
def t_text(w, r, c):
    return "".join(ALNUM[(r * 17 + c * 5 + i * 3 + w) % len(ALNUM)] for i in range(w))


def t_int(w, r, c):
    if w == 1:
        return "0123456789"[(r * 3 + c + 5) % 10]
    return "123456789"[(r + c) % 9] + "".join("0123456789"[(r * 7 + c + i * 3) % 10] for i in range(w - 1))


def t_dna(w, r, c):
    return "".join("ACGTNacgt"[(r * 5 + c + i * 2 + (i * i) % 3) % 9] for i in range(w))


def t_qual(w, r, c):
    return "".join(chr(33 + (r * 31 + c * 7 + i * 13) % 94) for i in range(w))


def P(label, fn, tag="plain"):
    return (label, fn, tag)


def text_pool(widths, empty=True):
    pool = [P("w%d" % w, (lambda r, c, w=w: t_text(w, r, c))) for w in widths]
    if empty:
        pool.append(P("w0", lambda r, c: "", "empty"))
    return pool


def int_pool(widths, signed=False):
    pool = [P("w%d" % w, (lambda r, c, w=w: t_int(w, r, c))) for w in widths]
    if signed:
        pool += [P("-w%d" % w, (lambda r, c, w=w: "-" + t_int(w, r, c)), "signed") for w in widths[:2]]
    return pool


FLOAT_TOKENS = ["3", "0.5", "12.25", "1234.125", "-1", "-0.75", "1e-3", "2.5e2"]


def float_pool(tokens=FLOAT_TOKENS):
    return [P(t, (lambda r, c, t=t: t), "signed" if t[0] == "-" else ("sci" if "e" in t else "plain")) for t in tokens]


def list_pool(int_widths):
    """list-valued int columns: 1..3 elements of varying width; with and without the trailing comma UCSC writes"""
    pool = []
    for n in (1, 2, 3):
        for style, tag in (("", "plain"), (",", "list-trailing-comma")):
            pool.append(P("n%d%s" % (n, style or "-"),
                          (lambda r, c, n=n, style=style: ",".join(t_int(int_widths[(r + c + i) % len(int_widths)], r + i, c)
                                                                   for i in range(n)) + style), tag))
    return pool


def make_pools(tier):
    iw = (1, 2, 7) if tier == "quick" else (1, 2, 7, 10)
    tw = (1, 2, 7)
    return {
        "id0": text_pool(tw, empty=False),          # first column / names that cannot be empty
        "id": text_pool(tw, empty=True),
        "str": text_pool(tw, empty=True),
        "int": int_pool(iw),
        "pos1": int_pool(iw),
        "sint": int_pool(iw, signed=True),
        "optint": int_pool((1, 2, 4), signed=True) + [P(".", lambda r, c: ".", "dot")],
        "float": float_pool(),
        "strand": [P(s, (lambda r, c, s=s: s)) for s in "+-."],
        "strand2": [P(s, (lambda r, c, s=s: s)) for s in "+-"],
        "intlist": list_pool((1, 2, 5)),
        "score": [P(t, (lambda r, c, t=t: t)) for t in (".", "0", "0.5", "1000")],      # GTF score: text
        "phase": [P(t, (lambda r, c, t=t: t)) for t in (".", "0", "1", "2")],
        "dna": [P("w%d" % w, (lambda r, c, w=w: t_dna(w, r, c))) for w in (1, 2, 7)],
        "qualstr": [P("w%d" % w, (lambda r, c, w=w: t_qual(w, r, c))) for w in (1, 2, 7)],
        "attrs_gtf": [P("a%d" % k, (lambda r, c, k=k: " ".join('%s "%s";' % (t_text(2 + i, r, c), t_text(1 + (i + r) % 3, r, i))
                                                             for i in range(k)))) for k in (1, 2, 3)],
        "attrs_gff": [P("a%d" % k, (lambda r, c, k=k: ";".join('%s=%s' % (t_text(2 + i, r, c), t_text(1 + (i + r) % 3, r, i))
                                                             for i in range(k)))) for k in (1, 2, 3)] + [P(".", lambda r, c: ".")],
        "tags": [P("t%d" % k, (lambda r, c, k=k: "\t".join("%s:i:%s" % ("NMXAYB"[2 * i:2 * i + 2], t_int(1 + (r + i) % 3, r, i))
                                                          for i in range(k))), "plain" if k else "no-tags") for k in (0, 1, 2, 3)],
    }


# kinds -> conversion kind of the reference model
REFKIND = {"id0": "id", "id": "id", "str": "str", "int": "int", "pos1": "pos1", "sint": "sint", "optint": "optint",
           "float": "float", "strand": "strand", "strand2": "strand", "intlist": "intlist", "score": "str", "phase": "str",
           "dna": "str", "qualstr": "str", "attrs_gtf": "str", "attrs_gff": "str", "tags": "str"}

BED3 = [("chromosome", "id0"), ("start", "int"), ("stop", "int")]
BED6 = BED3 + [("name", "id"), ("score", "optint"), ("strand", "strand")]
GTF = [("chromosome", "id0"), ("source", "str"), ("feature_type", "id"), ("start", "int"), ("stop", "int"), ("score", "score"),
       ("strand", "strand"), ("phase", "phase")]

# name -> (file suffix, buffer class path or None (= chosen by suffix), comment char, interior comments, columns)
FORMATS = {
    "bed3": dict(suffix=".bed", buffer=None, comment="#", interior=False, cols=BED3),
    "bed6": dict(suffix=".bed", buffer="bionumpy.io.delimited_buffers.Bed6Buffer", comment="#", interior=False, cols=BED6),
    "bed3of6": dict(suffix=".bed", buffer=None, comment="#", interior=False, cols=BED6, parsed=3),
    "bed12": dict(suffix=".bed", buffer="bionumpy.io.delimited_buffers.Bed12Buffer", comment="#", interior=False,
                  cols=BED6 + [("thick_start", "int"), ("thick_end", "int"), ("item_rgb", "str"), ("block_count", "int"),
                               ("block_sizes", "intlist"), ("block_starts", "intlist")]),
    "bedgraph": dict(suffix=".bdg", buffer=None, comment="#", interior=False, cols=BED3 + [("value", "float")]),
    "narrowpeak": dict(suffix=".narrowPeak", buffer=None, comment="#", interior=False,
                       cols=BED6 + [("signal_value", "float"), ("p_value", "float"), ("q_value", "float"), ("summit", "sint")]),
    "sizes": dict(suffix=".chrom.sizes", buffer=None, comment=None, interior=False, cols=[("name", "id0"), ("size", "int")]),
    "gtf": dict(suffix=".gtf", buffer=None, comment="#", interior=False, cols=GTF + [("atributes", "attrs_gtf")]),
    "gff3": dict(suffix=".gff3", buffer=None, comment="#", interior=True, cols=GTF + [("atributes", "attrs_gff")]),
    "wig": dict(suffix=".wig", buffer=None, comment="#", interior=True, cols=BED3 + [("value", "float")]),
    "pairs": dict(suffix=".pairs", buffer=None, comment="#", interior=False,
                  cols=[("read_id", "str"), ("chrom1", "id0"), ("pos1", "int"), ("chrom2", "id0"), ("pos2", "int"),
                        ("strand1", "strand2"), ("strand2", "strand2")]),
    "gfa": dict(suffix=".gfa", buffer=None, comment=None, interior=False, cols=[("name", "id0"), ("sequence", "dna")],
                prefix="S\t"),
    "sam": dict(suffix=".sam", buffer=None, comment="@", interior=False,
                cols=[("name", "id0"), ("flag", "int"), ("chromosome", "id0"), ("position", "int"), ("mapq", "int"),
                      ("cigar", "str"), ("next_chromosome", "str"), ("next_position", "int"), ("length", "sint"),
                      ("sequence", "dna"), ("quality", "qualstr"), ("extra", "tags")]),
    "vcf": dict(suffix=".vcf", buffer=None, comment="#", interior=False,
                cols=[("chromosome", "id0"), ("position", "pos1"), ("id", "str"), ("ref_seq", "dna"), ("alt_seq", "dna"),
                      ("quality", "score"), ("filter", "str"), ("info", "attrs_gff")]),
}
HEADER_LINES = {
    "#": ["#x", "#track name=t description=\"a b\"", "##c"],
    "@": ["@HD\tVN:1.6\tSO:unsorted", "@SQ\tSN:r\tLN:1000", "@CO\tx"],
}
HEADER_LINES_FMT = {
    "vcf": ["##fileformat=VCFv4.2", "##source=c02", "#CHROM\tPOS\tID\tREF\tALT\tQUAL\tFILTER\tINFO"],
    "pairs": ["## pairs format v1.0", "#chromsize: chr1 1000", "#columns: readID chr1 pos1 chr2 pos2 strand1 strand2"],
    "gff3": ["##gff-version 3", "##sequence-region ctg 1 1497228", "#c"],
    "wig": ["#bedGraph section chr1:0-9871", "#x", "##y"],
}


def header_lines_of(fmt):
    return HEADER_LINES_FMT.get(fmt) or HEADER_LINES.get(FORMATS[fmt]["comment"]) or []


def render(fmt, rows, header=(), crlf=False, comments=None):
    """rows: list of token lists. comments: dict gap index -> list of comment lines (gap i = before row i; len(rows) = end)"""
    spec = FORMATS[fmt]
    lines = list(header)
    for i, row in enumerate(rows):
        if comments and i in comments:
            lines += comments[i]
        if fmt == "sam":
            line = "\t".join(row[:11]) + ("\t" + row[11] if row[11] else "")
        else:
            line = spec.get("prefix", "") + "\t".join(row)
        lines.append(line)
    if comments and len(rows) in comments:
        lines += comments[len(rows)]
    nl = "\r\n" if crlf else "\n"
    return "".join(l + nl for l in lines)


def baseline(fmt, pools, n):
    """row r, column c: a plain token whose width depends on (r + c) so that neighbours are unequal"""
    rows = []
    for r in range(n):
        row = []
        for c, (_, kind) in enumerate(FORMATS[fmt]["cols"]):
            plain = [p for p in pools[kind] if p[2] == "plain"] or pools[kind]
            row.append(plain[(r + c) % len(plain)][1](r, c))
        rows.append(row)
    return rows


# ------------------------------------------------------------------------------------- expected / got
def expected_of(fmt, data):
    if fmt in FORMATS:
        spec = FORMATS[fmt]
        if fmt == "sam":
            return ref.parse_sam(data)
        cols = [(n, REFKIND[k]) for n, k in spec["cols"]][:spec.get("parsed")]
        return ref.parse_delimited(data, cols, spec["comment"], spec["interior"], first_col=1 if fmt == "gfa" else 0)
    if fmt in ("fasta", "fasta2"):
        return ref.parse_fasta(data)
    if fmt == "fastq":
        return ref.parse_fastq(data)
    if fmt == "vcf-info":
        return ref.parse_vcf(data)
    if fmt.startswith("vcf-"):
        return ref.parse_vcf(data, genotypes={"vcf-gt": "strings", "vcf-matrix": "matrix", "vcf-phased": "phased",
                                              "vcf-haplotype": "haplotype"}[fmt])
    raise KeyError(fmt)


EXTRA_FORMATS = {
    "fasta": (".fa", None), "fasta2": (".fa", "bionumpy.io.one_line_buffer.TwoLineFastaBuffer"), "fastq": (".fq", None),
    "vcf-info": (".vcf", None), "vcf-gt": (".vcf", "bionumpy.io.vcf_buffers.VCFBuffer2"),
    "vcf-matrix": (".vcf", "bionumpy.io.vcf_buffers.VCFMatrixBuffer"),
    "vcf-phased": (".vcf", "bionumpy.io.vcf_buffers.PhasedVCFMatrixBuffer"),
    "vcf-haplotype": (".vcf", "bionumpy.io.vcf_buffers.PhasedHaplotypeVCFMatrixBuffer"),
}


def suffix_and_buffer(fmt):
    if fmt in FORMATS:
        return FORMATS[fmt]["suffix"], FORMATS[fmt]["buffer"]
    return EXTRA_FORMATS[fmt]


def load_class(path):
    if path is None:
        return None
    import importlib
    mod, name = path.rsplit(".", 1)
    return getattr(importlib.import_module(mod), name)


def plain(x):
    """bionumpy / numpy column -> python lists of str / int / float / bool"""
    import numpy as np
    from bionumpy.encoded_array import EncodedArray, EncodedRaggedArray
    from bionumpy.string_array import StringArray
    if isinstance(x, StringArray):
        raw = np.asarray(x.raw())
        return np.char.decode(raw, "latin1").tolist() if raw.size else raw.reshape(raw.shape).tolist()
    if isinstance(x, EncodedRaggedArray):
        return [r.to_string() for r in x]
    if isinstance(x, EncodedArray):
        if x.ndim == 1:
            return list(x.to_string()) if len(x) else []
        if x.ndim == 0:
            return x.to_string()
        return [plain(r) for r in x]
    if hasattr(x, "tolist"):
        return x.tolist()
    return x


def read_with(fmt, path, data, mode):
    import numpy as np
    import bionumpy as bnp
    suffix, buf = suffix_and_buffer(fmt)
    cls = load_class(buf)
    if mode == "raw":
        if cls is None:
            from bionumpy.io.files import buffer_types
            cls = buffer_types[suffix if suffix != ".chrom.sizes" else ".sizes"]
        return cls.from_raw_buffer(np.frombuffer(data, dtype=np.uint8)).get_data()
    f = bnp.open(path, buffer_type=cls, lazy=(None if mode == "lazy" else False))
    try:
        return f.read()
    finally:
        f.close()


def column_value(fmt, d, name, key=None):
    v = getattr(d, name)
    if key is not None:
        v = getattr(v, key)
    if name == "genotypes":
        if fmt == "vcf-matrix":
            # decoded text of the triplet codes, via the encoding's documented decode (not the parser under test)
            dec = v.encoding.decode(v)
            return ["".join(chr(ch) for ch in row).split("\t") if len(row) else [] for row in dec.tolist()]
        return v.raw().tolist()
    return plain(v)


def guard(col, fn, fmt, zone, case):
    """run fn(); an exception is a failure of the case.  signature = format:exception:<type of the root cause>:zone, so that the
    lazy reader's ParsingException wrapper and the eager reader's bare exception of one defect share a signature"""
    import traceback
    try:
        return fn()
    except Exception as e:
        root = e
        while root.__cause__ is not None or (root.__context__ is not None and not root.__suppress_context__):
            root = root.__cause__ if root.__cause__ is not None else root.__context__
        col.fail("%s:exception:%s:%s" % (fmt, type(root).__name__, zone), case, traceback.format_exc()[-500:])
        return None


def check_text(col, tmp, fmt, text, zone, modes=("lazy", "eager"), focus=None, label=None):
    """the run-time contract for one file: count + every column, in every read mode.
    signature = format : column : failure kind : zone   (zone = class of the input, never the focus column or a counter).
    label: stands in the signature instead of the format, for a class of inputs that is one class whatever the format"""
    sig = label or fmt
    data = text.encode("latin1")
    n_exp, exp = expected_of(fmt, data)
    equal = long_float_equal if zone.startswith("long-float") else ref.values_equal
    suffix, _ = suffix_and_buffer(fmt)
    path = os.path.join(tmp, "f%d%s" % (col.evaluations % 7, suffix))
    with open(path, "wb") as f:
        f.write(data)
    for mode in modes:
        case = {"format": fmt, "text": text, "zone": zone, "mode": mode, "focus": focus}
        if label:
            case["label"] = label
        col.case({"f": fmt, "m": mode, "t": text}, nontrivial=True, contract="count+columns:" + fmt)
        d = guard(col, lambda: read_with(fmt, path, data, mode), sig, zone, case)
        if d is None:
            continue
        n_got = guard(col, lambda: len(d), sig, zone, case)
        if n_got is None:
            continue
        col.check(n_got == n_exp, "%s:count:wrong-number-of-entries:%s" % (sig, zone), case,
                  "entries %r, records in file %r" % (n_got, n_exp))
        for name, e in exp.items():
            if name == "genotypes" and fmt == "vcf-matrix":
                e = expected_gt_text(data)
            keys = [None] if not isinstance(e, dict) else list(e)
            for key in keys:
                ee = e if key is None else e[key]
                label_c = name if key is None else "%s.%s" % (name, key)
                g = guard(col, lambda: column_value(fmt, d, name, key), sig, zone, case)
                if g is None:
                    continue
                if isinstance(g, str) and isinstance(ee, list):
                    g = list(g)
                col.check(equal(g, ee), "%s:%s:wrong-value:%s" % (sig, label_c, zone), case,
                          "column %s: got %r expected %r" % (label_c, g, ee))


LONG_FLOAT_ULPS = 16


def long_float_equal(got, exp):
    """the comparison of the long-float zones: a float column holds float(text) within LONG_FLOAT_ULPS units in the last place
    of the expected value (the property says "floats by value"; a vectorised parser that sums digit x power terms is not
    correctly rounded, so a few ulp are granted - but not the 1e-9 relative slack of the short tokens, which would accept a
    parser that keeps only 9 significant digits of a 20-digit text).  Everything that is not a float: ref.values_equal"""
    if isinstance(exp, float) and not math.isnan(exp) and not math.isinf(exp):
        if not isinstance(got, (int, float)) or isinstance(got, bool) or (isinstance(got, float) and math.isnan(got)):
            return False
        return abs(got - exp) <= LONG_FLOAT_ULPS * math.ulp(exp)
    if isinstance(exp, (list, tuple)):
        if not isinstance(got, (list, tuple)) or len(got) != len(exp):
            return False
        return all(long_float_equal(g, e) for g, e in zip(got, exp))
    return ref.values_equal(got, exp)


def expected_gt_text(data):
    _, lines = ref.data_lines(data, "#")
    return [[s.split(":")[0] for s in l.split("\t")[9:]] for l in lines]


# ------------------------------------------------------------------------------------- generators
def zone_of(tags, crlf=False):
    """class of an input: which kinds of token the varied column holds (never which column).  CRLF files form one
    class of their own (their LF twins carry the token classes)"""
    tags = set(tags)
    if "list-trailing-comma" in tags:
        base = "list-trailing-comma"
    elif "dot" in tags and len(tags) > 1:
        base = "dot+number"
    else:
        base = "+".join(sorted(tags))
    if crlf:
        return base + "+crlf" if base in ("list-trailing-comma", "dot+number", "empty") else "crlf"
    return base


def combos_of(pool, n, quick):
    """all n-tuples of the pool, thinned where the full product is too large: pools of more than 6 entries (float
    tokens) for n >= 2 (quick) / n = 3, and every pool for n = 3 in the quick tier.  The thinned sets are covering:
    every entry stands at every record position, next to several different neighbours"""
    k = len(pool)
    if n == 1 or (n == 2 and (k <= 6 or not quick)) or (n == 3 and k <= 6 and not quick):
        return list(itertools.product(pool, repeat=n))
    if n == 2:
        return [(pool[i], pool[(i + d) % k]) for i in range(k) for d in (0, 1, 3)]
    if quick:
        return [(pool[i], pool[(i + d) % k], pool[(i + 2 * d) % k]) for i in range(k) for d in (1, 2)]
    return [(pool[i], pool[(i + d) % k], pool[(i + e) % k]) for i in range(k) for d in (0, 1, 3) for e in (0, 2, 5)]


# quick tier: columns whose one-at-a-time enumeration is already done by another format with the same reader code
QUICK_SKIP_FOCUS = {"narrowpeak": 6, "bed12": 6, "wig": 3, "gff3": 8}
ALWAYS_SKIP_FOCUS = {"bed3of6": 6}


def gen_delimited(fmt, tier, pools):
    """yields (zone, text, modes, focus)"""
    spec = FORMATS[fmt]
    cols = spec["cols"]
    quick = tier == "quick"
    nmax = 3
    hdr = header_lines_of(fmt)
    raw_ok = fmt not in ("vcf",)
    le = ("lazy", "eager")
    modes_all = le + (("raw",) if raw_ok else ())
    # A. one column at a time: every combination of the column's pool over 1..nmax records
    for c, (name, kind) in enumerate(cols):
        if (quick and c < QUICK_SKIP_FOCUS.get(fmt, 0)) or c < ALWAYS_SKIP_FOCUS.get(fmt, 0):
            continue
        pool = pools[kind]
        numeric = kind in ("int", "sint", "optint", "pos1", "float", "intlist")
        for n in range(1, nmax + 1):
            for combo in combos_of(pool, n, quick):
                rows = baseline(fmt, pools, n)
                for r, p in enumerate(combo):
                    rows[r][c] = p[1](r, c)
                tags = [p[2] for p in combo]
                if quick and n == 3:
                    yield zone_of(tags), render(fmt, rows), (le[(c + len(rows[0][c])) % 2],), name
                    continue
                yield zone_of(tags), render(fmt, rows), (le if quick or n == 3 else modes_all), name
                if c in (0, len(cols) - 1) or (numeric and not quick):
                    yield zone_of(tags, True), render(fmt, rows, crlf=True), le, name
    # B. all columns at once, rotating through the plain entries of each pool
    for n in range(1, 4):
        for shift in range(4):
            rows = []
            for r in range(n):
                row = []
                for c, (_, kind) in enumerate(cols):
                    pl = [p for p in pools[kind] if p[2] == "plain"] or pools[kind]
                    row.append(pl[(r * 2 + c + shift) % len(pl)][1](r + shift, c))
                rows.append(row)
            yield "plain", render(fmt, rows), modes_all, "all"
            yield "crlf", render(fmt, rows, crlf=True), modes_all, "all"
            if shift == 0:
                # the last line of a text file may lack its terminator (whole-file read; chunked reading is C01's)
                yield "no-final-newline", render(fmt, rows)[:-1], le, "all"
    # B2. very unequal widths in one column: 300-character texts and 18-digit integers next to 1-character fields
    for n in (2, 3):
        for wide_row in range(n):
            rows = baseline(fmt, pools, n)
            for c, (_, kind) in enumerate(cols):
                if kind in ("id0", "id", "str", "dna", "qualstr"):
                    fn = {"dna": t_dna, "qualstr": t_qual}.get(kind, t_text)
                    for r in range(n):
                        rows[r][c] = fn(300 if r == wide_row else 1, r, c)
                elif kind in ("int", "sint", "pos1", "optint"):
                    for r in range(n):
                        rows[r][c] = t_int(18 if r == wide_row else 1, r, c)
            yield "wide", render(fmt, rows), le, "all"
    # C. adjacent column pairs (thorough): every combination of plain entries in two neighbouring columns, 2 records
    if not quick:
        for c in range(len(cols) - 1):
            pa = [p for p in pools[cols[c][1]] if p[2] == "plain"][:3]
            pb = [p for p in pools[cols[c + 1][1]] if p[2] == "plain"][:3]
            for combo in itertools.product(pa, pb, pa, pb):
                rows = baseline(fmt, pools, 2)
                rows[0][c], rows[0][c + 1] = combo[0][1](0, c), combo[1][1](0, c + 1)
                rows[1][c], rows[1][c + 1] = combo[2][1](1, c), combo[3][1](1, c + 1)
                yield "plain", render(fmt, rows), le, "%s+%s" % (cols[c][0], cols[c + 1][0])
    # D. header / comment lines
    if spec["comment"] is not None:
        for n in (1, 2, 3):
            rows = baseline(fmt, pools, n)
            for k in range(0, len(hdr) + 1):
                for crlf in (False, True):
                    if k == 0:
                        continue
                    yield ("crlf" if crlf else "header"), render(fmt, rows, hdr[:k], crlf=crlf), le, "header-%d" % k
            if spec["interior"]:
                cl = ["#c", "##longer comment line 12 34", "###"]
                for mask in range(1, 2 ** (n + 1)):
                    comments = {g: [cl[(g + mask) % 3]] for g in range(n + 1) if mask >> g & 1}
                    for crlf in (False, True):
                        yield (("crlf" if crlf else "interior-comments"), render(fmt, rows, (), crlf=crlf, comments=comments),
                               modes_all, "comments-%d" % mask)
                # two consecutive comments, and a comment containing the column delimiter
                yield "interior-comments", render(fmt, rows, (), comments={n - 1: ["#a", "##bb"]}), modes_all, "consecutive"
                yield "comment-with-tab", render(fmt, rows, (), comments={n - 1: ["#a\tb"]}), modes_all, "tab"


def seq_of(n, salt):
    return "".join("ACGT"[(i * 7 + salt * 3 + (i * i) % 5) % 4] for i in range(n))


def fasta_text(records, width, crlf=False):
    nl = "\r\n" if crlf else "\n"
    out = ""
    for name, seq in records:
        out += ">" + name + nl
        for i in range(0, len(seq), width):
            out += seq[i:i + width] + nl
    return out


def width_tuples(m, quick):
    """widths of m consecutive fields from {1,2,7}: every tuple; in the quick tier tuples of 6 are thinned to the 27 whose
    second half repeats the first half rotated (every width at every position)"""
    if m < 6 or not quick:
        return list(itertools.product((1, 2, 7), repeat=m))
    return [t + (t[1], t[2], t[0]) for t in itertools.product((1, 2, 7), repeat=3)]


def gen_fasta(tier):
    """yields (format, zone, text, modes, focus)"""
    quick = tier == "quick"
    le = ("lazy", "eager")
    maxL = 6 if quick else 9
    widths = (1, 2, 3, 4, 9)
    names = ["s", "chr1 first record", "c_alt|x:1-2", "abcdefg"]
    for W in widths:
        for L in range(1, maxL + 1):
            for crlf in (False, True):
                yield "fasta", ("crlf" if crlf else "wrap"), fasta_text([("chr1", seq_of(L, 1))], W, crlf), le, "single"
    Ls = (1, 2, 3, 5) if quick else (1, 2, 3, 4, 5, 7, 8)
    for W in (1, 2, 3, 4):
        for L1, L2 in itertools.product(Ls, repeat=2):
            for crlf in (False, True):
                recs = [(names[(L1 + W) % 4], seq_of(L1, 1)), (names[(L2 + 1) % 4], seq_of(L2, 2))]
                yield "fasta", ("crlf" if crlf else "wrap"), fasta_text(recs, W, crlf), (le if not (quick and crlf) else ("lazy",)), "two"
        L3s = (1, W, W + 1) if quick else Ls
        for L1, L2, L3 in itertools.product((1, W, W + 1, 2 * W), (1, 2, 2 * W + 1), L3s):
            recs = [(names[1], seq_of(L1, 1)), (names[0], seq_of(L2, 2)), (names[2], seq_of(L3, 3))]
            yield "fasta", "wrap", fasta_text(recs, W), (le if not quick else ("lazy",)), "three"
    # lower case / N / IUPAC symbols are kept as written
    yield "fasta", "symbols", fasta_text([("a", "acgtnNRYk"), ("b", "NNnn")], 4), le, "symbols"
    # two-line FASTA (explicit buffer type): all width combinations of names and sequences over 1..3 records
    for n in (1, 2, 3):
        for ws in width_tuples(2 * n, quick):
            recs = [(t_text(ws[2 * r], r, 0), t_dna(ws[2 * r + 1], r, 1)) for r in range(n)]
            for crlf in (False, True):
                yield ("fasta2", ("crlf" if crlf else "plain"), fasta_text(recs, 100, crlf),
                       (le + ("raw",)) if n == 1 or (n == 2 and not quick) else le, "widths")


def gen_fastq(tier):
    quick = tier == "quick"
    le = ("lazy", "eager")
    specials = ["@", "+", "!", "~", ">"]
    for n in (1, 2, 3):
        for ws in width_tuples(2 * n, quick):
            for variant in range(3):
                for crlf in (False, True):
                    if crlf and variant and n > 1 and (quick or n == 3):
                        continue
                    if quick and variant and n == 2 and sum(ws) % 3:
                        continue
                    nl = "\r\n" if crlf else "\n"
                    out = ""
                    for r in range(n):
                        name = t_text(ws[2 * r], r, 0) + (" d=%d" % r if variant == 1 else "")
                        seq = t_dna(ws[2 * r + 1], r, 1)
                        q = t_qual(len(seq), r, variant)
                        if variant == 2:      # quality string starting with a character that has a role elsewhere
                            q = specials[(r + ws[1]) % len(specials)] + q[1:]
                        plus = "+" + (name if variant == 1 and r % 2 == 0 else "")
                        out += "@" + name + nl + seq + nl + plus + nl + q + nl
                    zone = "crlf" if crlf else ("plain", "description+repeated-name", "special-first-quality-char")[variant]
                    yield "fastq", zone, out, (le + ("raw",)) if n == 1 or (n == 2 and not quick) else (le if not (quick and variant) else ("lazy",)), "widths"


# ---- VCF INFO
INFO_DECL = [("A", "1", "Integer"), ("AA", "1", "String"), ("AF", "A", "Float"), ("AC", ".", "Integer"), ("DB", "0", "Flag"),
             ("D", "1", "Float"), ("H2", "0", "Flag"), ("MQ2", "2", "Integer"), ("DBX", "1", "Integer")]


def vcf_header(tag, decl=INFO_DECL, samples=()):
    lines = ["##fileformat=VCFv4.2", "##source=c02-%s" % tag]
    for k, number, typ in decl:
        lines.append('##INFO=<ID=%s,Number=%s,Type=%s,Description="about %s, with comma">' % (k, number, typ, k))
    if samples:
        lines.append('##FORMAT=<ID=GT,Number=1,Type=String,Description="Genotype">')
        lines.append('##FORMAT=<ID=DP,Number=1,Type=Integer,Description="Depth">')
    lines.append("\t".join(["#CHROM", "POS", "ID", "REF", "ALT", "QUAL", "FILTER", "INFO"] + (["FORMAT"] + list(samples) if samples else [])))
    return lines


def info_value(key, typ, number, r, v):
    """text of one INFO value; v selects the width variant"""
    if typ == "Integer":
        if number == "1":
            return [t_int(1, r, v), t_int(2, r, v), "-" + t_int(2, r, v), t_int(7, r, v)][v % 4]
        if number == "2":
            return t_int(1 + v % 3, r, v) + "," + t_int(1 + (v + 1) % 3, r, v + 1)
        return ",".join(t_int(1 + (v + i) % 3, r, i) for i in range(1 + v % 3))
    if typ == "Float":
        if number == "1":
            return FLOAT_TOKENS[(v + r) % len(FLOAT_TOKENS)]
        return ",".join(FLOAT_TOKENS[(v + r + i * 3) % 6] for i in range(1 + v % 3))
    return t_text(1 + (v * 3 + r) % 7, r, v)


INFO_PATTERNS = [
    [], ["A"], ["AA"], ["AF"], ["AC"], ["DB"], ["D"], ["H2"], ["MQ2"],
    ["A", "AA"], ["AA", "A"], ["AF", "AC"], ["DB", "D"], ["D", "DB"], ["H2", "DB"], ["A", "DB", "AF"],
    ["A", "AA", "AF", "AC", "DB", "D", "H2", "MQ2", "DBX"], ["DBX", "MQ2", "H2", "D", "DB", "AC", "AF", "AA", "A"],
    ["XX", "A"], ["AF", "XX", "H2"], ["DBX"], ["DBX", "A", "DB"],
]


def info_text(pattern, r, v):
    decl = {k: (n, t) for k, n, t in INFO_DECL}
    if not pattern:
        return "."
    items = []
    for i, k in enumerate(pattern):
        if k == "XX":
            items.append("XX=9")
        elif decl[k][1] == "Flag":
            items.append(k)
        else:
            items.append("%s=%s" % (k, info_value(k, decl[k][1], decl[k][0], r, v + i)))
    return ";".join(items)


def vcf_fixed(r, w=None):
    return [t_text(w or (1 + r % 3), r, 0), t_int(w or (1 + (r * 2) % 4), r, 1), [".", "rs%d" % (r * 37)][r % 2], t_dna(1 + r % 2, r, 3).upper(),
            t_dna(1 + (r + 1) % 2, r, 4).upper(), [".", "30", "12.5"][r % 3], [".", "PASS", "q10;s50"][r % 3]]


def info_zone(infos, decl, base):
    """':short-info-text' = the INFO texts of the whole file together are not longer than the longest declared key"""
    size = sum(len(t) + 1 for t in infos)
    longest = max([len(k) for k, _, _ in decl] or [0])
    return "short-info-text" if decl and size <= longest + 1 else base


def gen_vcf_info(tier):
    quick = tier == "quick"
    le = ("lazy", "eager")
    hdr = vcf_header("info")
    pats = INFO_PATTERNS
    # one record: every pattern x value-width variant
    for pi, pat in enumerate(pats):
        for v in range(4):
            for crlf in (False, True):
                if crlf and quick and v:
                    continue
                infos = [info_text(pat, 0, v)]
                rows = [vcf_fixed(0) + infos]
                yield "vcf-info", info_zone(infos, INFO_DECL, "crlf" if crlf else "info"), render("vcf", rows, hdr, crlf), (le if not quick or v == 0 else (le[(pi + v) % 2],)), "one-record"
    # two records: every ordered pair of patterns
    pats2 = list(enumerate(pats)) if not quick else [(i, pats[i]) for i in (0, 1, 2, 3, 5, 9, 12, 16, 18, 21)]
    for (p1, pat1), (p2, pat2) in itertools.product(pats2, repeat=2):
        infos = [info_text(pat1, 0, p2), info_text(pat2, 1, p1)]
        rows = [vcf_fixed(0) + infos[:1], vcf_fixed(1) + infos[1:]]
        yield "vcf-info", info_zone(infos, INFO_DECL, "info"), render("vcf", rows, hdr), (le if not quick else (le[(p1 + p2) % 2],)), "two-records"
        if (p1 + p2) % 5 == 0:
            yield "vcf-info", info_zone(infos, INFO_DECL, "crlf"), render("vcf", rows, hdr, True), le, "two-records"
    # three records: rotate (thorough: every triple of a reduced pattern set)
    if quick:
        triples = [(pats[i], pats[(i * 3 + 1) % len(pats)], pats[(i * 7 + 2) % len(pats)]) for i in range(len(pats))]
    else:
        small = [pats[i] for i in (0, 1, 2, 3, 5, 9, 16, 18, 20)]
        triples = itertools.product(small, repeat=3)
    for i, tr in enumerate(triples):
        infos = [info_text(p, r, i + r) for r, p in enumerate(tr)]
        rows = [vcf_fixed(r) + [infos[r]] for r in range(3)]
        yield "vcf-info", info_zone(infos, INFO_DECL, "info"), render("vcf", rows, hdr), le, "three-records"
    # a header that declares only some of the keys, in another order
    decl2 = [INFO_DECL[i] for i in (4, 2, 0)]
    hdr2 = vcf_header("info2", decl2)
    for pat in (["A"], ["DB"], ["AF", "DB", "A"], []):
        for n in (1, 2):
            infos = [info_text(pat if r == 0 else ["A", "AF"], r, r) for r in range(n)]
            rows = [vcf_fixed(r) + [infos[r]] for r in range(n)]
            yield "vcf-info", info_zone(infos, decl2, "partial-declaration"), render("vcf", rows, hdr2), le, "partial"


# ---- long decimal float texts (every format with a float column)
LONG_FLOAT_VALUES = [0.1, 1 / 3., 2.718281828459045, -7.4, 1234.5, -98765.4321, 0.000123456789, 9.5, 99.99, -5e-7,
                     123456789.125, 0.97]
LONG_FLOAT_SHORT = ["3", "0.5", "-0.75", "1e-3", "1234.125"]
LONG_FLOAT_COLUMNS = {"bedgraph": [3], "wig": [3], "narrowpeak": [6, 7, 8]}


def digit_string(nd, lead, salt):
    return lead + "".join("0123456789"[(i * 7 + nd * 3 + salt) % 10] for i in range(nd - 1))


def long_float_tokens(tier):
    """the class "a decimal float text with many digits", as programs write it:
      fixed   printf('%.Nf', v): N = 15..22, 25, 30 fraction digits of values of magnitude 1e-7 .. 1e8, both signs (the text of 0.1 with
              N = 20 is 0.10000000000000000555; small values give leading zeros, large ones long integer parts)
      digits  nd = 17..30 digit characters, first digit 1 or 9, the dot after the first digit / in the middle / before the
              last digit / absent (an integer text in a float column), both signs: the widths around 18-20 digits, where the
              digits read as one integer pass 2**63
      sci     printf('%.Ne', v): the same mantissas followed by e+XX / e-XX
    quick: a covering subset of N and nd.  Returns [(token, zone)]; tokens whose value is not a normal double are not made"""
    quick = tier == "quick"
    precs = (17, 18, 19, 20, 22, 25) if quick else (15, 16, 17, 18, 19, 20, 21, 22, 25, 30)
    nds = (17, 18, 19, 20, 21) if quick else (17, 18, 19, 20, 21, 22, 25, 30)
    eprecs = (17, 20) if quick else (15, 17, 19, 20, 25, 30)
    out, seen = [], set()

    def add(tok, zone):
        if tok not in seen:
            seen.add(tok)
            out.append((tok, zone))
    for v in LONG_FLOAT_VALUES:
        for p in precs:
            add("%.*f" % (p, v), "long-float")
    k = 0
    for nd in nds:
        for lead in "19":
            for dot in (1, nd // 2, nd - 1, None):
                ds = digit_string(nd, lead, k)
                signs = ("", "-") if not quick else ("-" if k % 2 else "",)
                for sign in signs:
                    add(sign + (ds if dot is None else ds[:dot] + "." + ds[dot:]), "long-float")
                k += 1
    for v in LONG_FLOAT_VALUES:
        for p in eprecs:
            add("%.*e" % (p, v), "long-float-sci")
    return out


def long_float_zone(zones):
    return "long-float-sci" if "long-float-sci" in zones else "long-float"


def gen_long_floats(tier, pools):
    """yields (format, zone, text, modes, focus).  Every long token stands once in every float column of every delimited
    format with one (bedGraph, wig, narrowPeak: signal / p / q value) in a file of 1..3 records, at a rotating record position,
    the other records holding short float texts (so the column is very unequal in width); then files whose column holds
    three long tokens of different widths; narrowPeak also with all three float columns long at once.  VCF: the token as the
    value of a Float Number=1 INFO key and as an element of a Float Number=A list (1..3 elements, rotating position), alone
    and between other keys, next to records with short / no values; thorough: also through the genotype-matrix buffer"""
    quick = tier == "quick"
    le = ("lazy", "eager")
    toks = long_float_tokens(tier)
    short = LONG_FLOAT_SHORT
    for fmt, fcols in LONG_FLOAT_COLUMNS.items():
        for j, c in enumerate(fcols):
            name = FORMATS[fmt]["cols"][c][0]
            for i, (tok, zone) in enumerate(toks):
                if quick and len(fcols) > 1 and i % len(fcols) != j:
                    continue            # quick: the three narrowPeak columns share the tokens between them
                n = 1 + i % 3
                pos = (i // 3) % n
                rows = baseline(fmt, pools, n)
                for r in range(n):
                    rows[r][c] = tok if r == pos else short[(i + r) % len(short)]
                modes = (le[i % 2],) if quick else (le + (("raw",) if fmt == "bedgraph" else ()))
                yield fmt, zone, render(fmt, rows), modes, name
            for i in range(0, len(toks) - 2, 3):
                tr = [toks[i], toks[(i + 7) % len(toks)], toks[(i + 2 * 7 + 1) % len(toks)]]
                rows = baseline(fmt, pools, 3)
                for r in range(3):
                    rows[r][c] = tr[r][0]
                yield fmt, long_float_zone([z for _, z in tr]), render(fmt, rows), ((le[(i // 3) % 2],) if quick else le), name
        if len(fcols) > 1:
            for i in range(0, len(toks), 2 if quick else 1):
                n = 1 + i % 2
                rows = baseline(fmt, pools, n)
                zs = []
                for r in range(n):
                    for j, c in enumerate(fcols):
                        tok, z = toks[(i + 5 * j + 11 * r) % len(toks)] if (r + j + i) % 4 else (short[(i + j) % len(short)], "long-float")
                        rows[r][c] = tok
                        zs.append(z)
                yield fmt, long_float_zone(zs), render(fmt, rows), ((le[i % 2],) if quick else le), "all-float-columns"
    # VCF INFO: D (Float, Number=1), AF (Float, Number=A)
    hdr = vcf_header("long-float")
    for i, (tok, zone) in enumerate(toks):
        n = 1 + i % 3
        pos = (i // 3) % n
        for key in ("D", "AF"):
            if quick and (i + (key == "AF")) % 2:
                continue                # quick: the tokens alternate between the scalar and the list key
            infos = []
            for r in range(n):
                if r == pos:
                    if key == "D":
                        item = "D=" + tok
                    else:
                        m = 1 + (i // 2) % 3
                        elems = [short[(i + e) % len(short)] for e in range(m)]
                        elems[(i // 5) % m] = tok
                        item = "AF=" + ",".join(elems)
                    items = [["A=7"], [], ["AA=xy", "DB"]][(i // 2) % 3] + [item] + [[], ["DB"], ["MQ2=1,22"]][(i // 7) % 3]
                else:
                    items = [["D=" + short[(i + r) % len(short)]], ["AF=0.5,12.25"], ["A=3", "AF=" + short[i % len(short)]],
                             ["AA=abc"]][(i + r) % 4]
                infos.append(";".join(items))
            rows = [vcf_fixed(r) + [infos[r]] for r in range(n)]
            yield ("vcf-info", info_zone(infos, INFO_DECL, zone), render("vcf", rows, hdr),
                   ((le[(i // 2) % 2],) if quick else le), "info-" + key)
        if i % (8 if quick else 3) == 0:
            # both keys long in one record; the same file through the genotype-matrix buffer (one sample column)
            tok2 = toks[(i + 13) % len(toks)]
            z = long_float_zone([zone, tok2[1]])
            infos = ["D=%s;AF=%s,%s" % (tok, short[i % len(short)], tok2[0]), "AF=%s;D=%s" % (tok2[0], short[(i + 1) % len(short)])]
            rows = [vcf_fixed(r) + [infos[r]] for r in range(2)]
            yield "vcf-info", info_zone(infos, INFO_DECL, z), render("vcf", rows, hdr), le, "info-D+AF"
            if not quick:
                hdr_s = vcf_header("long-float-gt", INFO_DECL, ["s0"])
                rows = [vcf_fixed(r) + [infos[r], "GT", ["0|1", "1/."][r]] for r in range(2)]
                yield "vcf-matrix", info_zone(infos, INFO_DECL, z), render("vcf", rows, hdr_s), le, "info-D+AF"


GT_ALPHA = {
    "vcf-matrix": [a + s + b for a in "012." for s in "|/" for b in "012."],
    "vcf-phased": ["0|0", "0|1", "1|0", "1|1"],
    "vcf-haplotype": [a + "|" + b for a in "01234." for b in "01234."],
    "vcf-gt": ["0/1", ".", "1|0", "10/11", "./.", "0", "0/1/1", "1|2"],
}
GT_SUFFIX = ["", ":7", ":12:0,3", ":.", ":1234567"]


def gen_vcf_gt(tier):
    quick = tier == "quick"
    le = ("lazy", "eager")
    smax = 3
    nmax = 2 if quick else 3
    for fmt, alpha in GT_ALPHA.items():
        for ns in range(1, smax + 1):
            samples = ["s%d" % i for i in range(ns)]
            hdr_plain = vcf_header(fmt + "-plain", [], samples)
            hdr_info = vcf_header(fmt, INFO_DECL, samples)
            for n in range(1, nmax + 1):
                step = 1 if not quick or len(alpha) <= 8 else 5
                for shift in range(0, len(alpha), step):
                    for style in (0, 1):           # 0 = "GT" only, 1 = further sub-fields of varying width after the GT
                        rows, infos = [], []
                        for r in range(n):
                            gts = []
                            for s in range(ns):
                                g = alpha[(shift + r * ns + s) % len(alpha)]
                                if style:
                                    g += GT_SUFFIX[(r + s + shift) % len(GT_SUFFIX)]
                                gts.append(g)
                            infos.append(info_text(INFO_PATTERNS[(shift + r + 1) % len(INFO_PATTERNS)], r, shift))
                            rows.append(vcf_fixed(r) + [infos[-1], "GT" if not style else "GT:DP:AD"] + gts)
                        crlf = (shift + n + ns) % 4 == 0
                        zone = info_zone(infos, INFO_DECL, "crlf" if crlf else ("gt-only" if not style else "gt+subfields"))
                        modes = le if not quick else (le[(shift + style + n) % 2],)
                        yield fmt, zone, render("vcf", rows, hdr_info, crlf), modes, "samples-%d" % ns
                        if shift % 4 == 0:
                            rows2 = [row[:7] + ["."] + row[8:] for row in rows]
                            yield fmt, "no-info-header", render("vcf", rows2, hdr_plain), modes, "samples-%d" % ns
    # no sample columns at all: VCFBuffer2 gives an (n, 0) genotype matrix
    for n in (1, 2):
        rows = [vcf_fixed(r) + ["."] for r in range(n)]
        yield "vcf-gt", "no-samples", render("vcf", rows, vcf_header("vcf-gt-0", [])), le, "samples-0"


def check_type_sequence(col, tmp, text, order):
    """the same VCF file read eagerly through several buffer types in one process: each read must still give its
    own columns (the dataclass built from the header is cached by the library)"""
    import bionumpy as bnp
    data = text.encode("latin1")
    path = os.path.join(tmp, "seq.vcf")
    with open(path, "wb") as f:
        f.write(data)
    case = {"format": "vcf-typeseq", "text": text, "order": order, "mode": "eager", "zone": "typeseq"}
    col.case({"f": "vcf-typeseq", "o": order, "t": text}, contract="columns:vcf-buffer-type-sequence")
    for fmt in order:
        n_exp, exp = expected_of(fmt, data)
        cls = load_class(suffix_and_buffer(fmt)[1])
        d = guard(col, lambda: bnp.open(path, buffer_type=cls, lazy=False).read(), fmt, "after-other-buffer-type", case)
        if d is None:
            continue
        for name in [k for k in exp if k in ("genotype", "genotypes", "position")]:
            e = exp[name] if not (name == "genotypes" and fmt == "vcf-matrix") else expected_gt_text(data)
            g = guard(col, lambda: column_value(fmt, d, name), fmt, "after-other-buffer-type", case)
            if g is not None:
                col.check(ref.values_equal(g, e), "%s:%s:wrong-value:after-other-buffer-type" % (fmt, name), case,
                          "got %r expected %r" % (g, e))


def type_sequence_cases():
    rows = [vcf_fixed(r) + [info_text(["A", "AF"], r, r), "GT", ["0|1", "1|1"][r], ["1|0", "0|0"][r]] for r in range(2)]
    k = 0
    for order in (["vcf-info", "vcf-matrix"], ["vcf-matrix", "vcf-info"], ["vcf-info", "vcf-gt"], ["vcf-phased", "vcf-haplotype"],
                  ["vcf-gt", "vcf-info", "vcf-phased"]):
        for decl in (INFO_DECL, []):
            k += 1
            yield render("vcf", rows, vcf_header("typeseq-%d" % k, decl, ["s0", "s1"])), order


# ---- two or more ADJACENT comment lines (formats whose comments may stand anywhere: GFF3, wig-style bedGraph)
ADJ_COMMENT_LINES = ["#c", "##longer comment line 12 34", "###", "#", "#bedGraph section chr1:0-400", "# a remark, with spaces"]


def gen_adjacent_comments(tier, pools):
    """yields (format, zone, text, modes, focus).  1..3 records; every gap (before the first record, between records, after the
    last record) holds 0, 1 or 2 (thorough: ..3) comment lines, every assignment with at least one gap of >= 2 adjacent lines;
    runs of 3 and 4 lines at every single gap; the line texts rotate through ADJ_COMMENT_LINES (bare '#', '###', long lines).
    LF only (the CRLF files of these formats are the class 'crlf')"""
    quick = tier == "quick"
    modes = ("lazy", "eager", "raw")
    cl = ADJ_COMMENT_LINES
    kmax = 2 if quick else 3
    for fmt in [f for f in FORMATS if FORMATS[f]["interior"]]:
        for n in (1, 2, 3):
            rows = baseline(fmt, pools, n)
            seen = set()
            assignments = [a for a in itertools.product(range(kmax + 1), repeat=n + 1) if max(a) >= 2]
            assignments += [tuple(k if g == g0 else 0 for g in range(n + 1)) for g0 in range(n + 1) for k in (3, 4)]
            for a in assignments:
                if a in seen:
                    continue
                seen.add(a)
                salt = sum((g + 1) * k for g, k in enumerate(a))
                comments = {g: [cl[(salt + 2 * g + j) % len(cl)] for j in range(k)] for g, k in enumerate(a) if k}
                yield (fmt, "adjacent-comments", render(fmt, rows, (), comments=comments), modes,
                       "comments-" + "".join(map(str, a)))


# ---- operation histories: several files of one format, with different headers, read one after the other in ONE process
HS_BASE = [("NS", "1", "Integer"), ("SC", "1", "Float"), ("AL", ".", "Integer"), ("NM", "1", "String"), ("FL", "0", "Flag"),
           ("AFS", "A", "Float")]
HS_COMBOS = [("1", "Integer"), ("1", "Float"), ("1", "String"), (".", "Integer"), ("A", "Float"), ("2", "Integer"), ("0", "Flag"),
             (".", "String")]


def hs_header(fmt, decl, ns=0, descr="about", src=""):
    """header text of one file of a history; '##source' names the buffer type the history is read through, so that no two
    histories read the same header text through different buffer types (that class is 'after-other-buffer-type')"""
    lines = ["##fileformat=VCFv4.2", "##source=c02-history-%s%s" % (fmt, src)]
    for k, number, typ in decl:
        lines.append('##INFO=<ID=%s,Number=%s,Type=%s,Description="%s %s, with comma">' % (k, number, typ, descr, k))
    samples = ["s%d" % i for i in range(ns)]
    if samples:
        lines.append('##FORMAT=<ID=GT,Number=1,Type=String,Description="Genotype">')
    lines.append("\t".join(["#CHROM", "POS", "ID", "REF", "ALT", "QUAL", "FILTER", "INFO"] + (["FORMAT"] + samples if samples else [])))
    return lines


def hs_info(decl, r, v):
    """INFO text of record r: the declared keys in an order that rotates with the record, some keys absent in some records,
    value texts valid for the declared Type / Number (widths vary with r and v)"""
    n = len(decl)
    items = []
    for j in range(n):
        k, number, typ = decl[(j + r + v) % n]
        if n > 2 and (j + 2 * r + v) % 5 == 4:
            continue
        if typ == "Flag":
            if (r + v + j) % 2 == 0:
                items.append(k)
        else:
            items.append("%s=%s" % (k, info_value(k, typ, number, r, v + j)))
    return ";".join(items) or "."


def hs_file(fmt, spec, v):
    """spec: dict(decl, n (records), ns (samples), descr, src, keys (the keys the INFO texts use; default = the declared ones))"""
    decl = spec["decl"]
    ns = 0 if fmt == "vcf-info" else spec.get("ns", 2)
    used = spec.get("keys", decl)
    rows, infos = [], []
    for r in range(spec.get("n", 3)):
        infos.append(hs_info(used, r, v))
        row = vcf_fixed(r + v) + [infos[-1]]
        if ns:
            alpha = GT_ALPHA[fmt]
            row += ["GT"] + [alpha[(v * 5 + r * ns + s) % len(alpha)] for s in range(ns)]
        rows.append(row)
    if decl and info_zone(infos, decl, "") == "short-info-text":
        return None
    return render("vcf", rows, hs_header(fmt, decl, ns, spec.get("descr", "about"), spec.get("src", "")))


def hs_relations(tier):
    """yields (relation, [file spec, ...]): how the header of a later file relates to the header of an earlier one"""
    quick = tier == "quick"
    base = HS_BASE
    n = len(base)
    F = lambda decl, **kw: dict(decl=decl, **kw)
    # one key declared differently (every key x every other (Number, Type)), both orders of the two files
    for i, (k, number, typ) in enumerate(base):
        for number2, typ2 in HS_COMBOS:
            if (number2, typ2) == (number, typ):
                continue
            rel = "key-redeclared"
            alt = base[:i] + [(k, number2, typ2)] + base[i + 1:]
            ci = HS_COMBOS.index((number2, typ2))
            if not quick or (i + ci) % 2 == 0:                 # quick: the two orders alternate over (key, declaration)
                yield rel, [F(base), F(alt, n=2)]
            if not quick or (i + ci) % 2 == 1:
                yield rel, [F(alt), F(base, n=2)]
            if not quick or (i + ci) % 3 == 0:
                yield rel, [F(base, n=2), F(alt, n=1), F(base, n=3)]            # back to the first header
    # two keys declared differently at once; all keys declared differently
    for i in range(n):
        j = (i + 1 + i % 2) % n
        alt = list(base)
        for x in (i, j):
            alt[x] = (base[x][0],) + [c for c in HS_COMBOS if c != base[x][1:]][(x + i) % (len(HS_COMBOS) - 1)]
        yield "key-redeclared", [F(base, n=2), F(alt)]
        yield "key-redeclared", [F(alt, n=2), F(base)]
    for shift in (1, 3):
        alt = [(k,) + HS_COMBOS[(HS_COMBOS.index((number, typ)) + shift) % len(HS_COMBOS)] for k, number, typ in base]
        yield "key-redeclared", [F(base), F(alt), F(base, n=1)]
    # the same declarations in another order
    for s in range(1, n):
        yield "order-changed", [F(base, n=2), F(base[s:] + base[:s])]
    yield "order-changed", [F(base), F(base[::-1]), F(base, n=1)]
    # the same (Number, Type) list under other IDs; the IDs of two keys exchanged
    yield "ids-changed", [F(base), F([(k.lower(), a, b) for k, a, b in base])]
    yield "ids-changed", [F(base, n=2), F([(k + "X", a, b) for k, a, b in base])]
    yield "ids-changed", [F([(k + "X", a, b) for k, a, b in base], n=2), F([("Q" + k, a, b) for k, a, b in base])]
    for i, j in ((0, 3), (1, 2), (4, 5), (0, 1)):
        alt = list(base)
        alt[i], alt[j] = (base[j][0],) + base[i][1:], (base[i][0],) + base[j][1:]
        yield "ids-exchanged", [F(base), F(alt)]
        yield "ids-exchanged", [F(alt, n=2), F(base)]
    # fewer / more declared keys (prefixes, suffixes, one more key, a single key); the undeclared keys are not in the texts
    for k in range(1, n):
        for sub in (base[:k], base[k:]):
            yield "keys-added-or-removed", [F(base), F(sub, n=2)]
            yield "keys-added-or-removed", [F(sub), F(base, n=2)]
    yield "keys-added-or-removed", [F(base), F(base + [("ZZ", "1", "Integer")]), F(base, n=1)]
    yield "keys-added-or-removed", [F([("ZZ", "1", "Integer")] + base), F(base)]
    # declared keys that the texts also use undeclared (an undeclared key is skipped)
    yield "keys-added-or-removed", [F(base), F(base[:3], keys=base[:3] + [("XX", "1", "Integer")])]
    # a header without INFO lines (INFO column = the text) before / after one with INFO lines
    yield "info-declared-vs-not", [F(base), F([], keys=base)]
    yield "info-declared-vs-not", [F([], keys=base), F(base)]
    yield "info-declared-vs-not", [F(base, n=1), F([], keys=base, n=2), F(base)]
    # the same INFO declarations, another Description / another ##source line / another number of samples or records
    yield "same-declarations", [F(base), F(base, descr="on", n=2)]
    yield "same-declarations", [F(base, n=2), F(base, src="-b")]
    yield "same-declarations", [F(base, ns=1), F(base, ns=3, n=2), F(base, ns=2, n=1)]
    yield "same-declarations", [F(base, n=1), F(base, n=3), F(base, n=2)]
    # another number of sample columns and another declaration
    alt = [base[0][:2] + ("String",)] + base[1:]
    yield "key-redeclared", [F(base, ns=3), F(alt, ns=1, n=2)]
    yield "key-redeclared", [F(alt, ns=1), F(base, ns=2, n=2)]


HS_VARIANTS = [("lazy", "sequential"), ("eager", "sequential"), ("lazy", "deferred")]
HS_FORMATS = ["vcf-info", "vcf-matrix", "vcf-gt", "vcf-phased", "vcf-haplotype"]


def gen_vcf_histories(tier):
    """yields (format, relation, texts, mode, order).  vcf-info: every history of hs_relations (quick: one of the three (read mode,
    order) variants per history, rotating; thorough: all three); the genotype buffer types: every history in the thorough tier
    (one variant, rotating), every 6th in the quick tier (offset per buffer type, so that every buffer type meets every relation
    class)"""
    quick = tier == "quick"
    for fi, fmt in enumerate(HS_FORMATS):
        for hi, (rel, specs) in enumerate(hs_relations(tier)):
            if fmt != "vcf-info" and quick and (hi + fi) % 6:
                continue
            # the IDs are the history's own (suffix = buffer type letter + number of the history): the histories are independent
            # of each other, whatever the library remembers about a declared ID
            tag = "%s%d" % ("imgph"[fi], hi)
            ren = lambda decl: [(k + tag, number, typ) for k, number, typ in decl]
            specs = [dict(s, decl=ren(s["decl"]), **({"keys": ren(s["keys"])} if "keys" in s else {})) for s in specs]
            texts = [hs_file(fmt, s, hi + 2 * x) for x, s in enumerate(specs)]
            if any(t is None for t in texts):
                continue
            if quick:
                variants = [HS_VARIANTS[(hi + fi) % 3]]
            else:
                variants = HS_VARIANTS if fmt == "vcf-info" else [HS_VARIANTS[(hi + fi) % 3]]
            for mode, order in variants:
                yield fmt, rel, texts, mode, order


def gen_format_histories(tier, pools):
    """every other format: a file with h1 header lines and n1 records, then one with h2 != h1 header lines and n2 != n1 records (other
    widths), then the first again"""
    for fmt, spec in FORMATS.items():
        hdr = header_lines_of(fmt) if spec["comment"] is not None else []
        for k, (h1, n1, h2, n2) in enumerate(((0, 1, len(hdr), 3), (len(hdr), 2, 1 if hdr else 0, 1), (1 if hdr else 0, 3, 2 if hdr else 0, 2))):
            t1 = render(fmt, baseline(fmt, pools, n1), hdr[:h1])
            rows2 = baseline(fmt, pools, n2 + 1)[1:]
            t2 = render(fmt, rows2, hdr[:h2])
            mode, order = HS_VARIANTS[k % 3]
            yield fmt, "header-lines-changed", [t1, t2, t1], mode, order
    for k, (w1, w2) in enumerate(((1, 3), (4, 2))):
        t1 = fasta_text([("chr1 a", seq_of(5, 1)), ("b", seq_of(2, 2))], w1)
        t2 = fasta_text([("c", seq_of(7, 3))], w2)
        yield "fasta", "header-lines-changed", [t1, t2, t1], HS_VARIANTS[k][0], HS_VARIANTS[k][1]
    for k in range(2):
        fq = [t for f, z, t, m, fo in itertools.islice(gen_fastq("quick"), 40) if z == "plain"]
        yield "fastq", "header-lines-changed", [fq[k], fq[-1 - k], fq[k]], HS_VARIANTS[k + 1][0], HS_VARIANTS[k + 1][1]


def verify_history_file(col, fmt, d, data, zone, case):
    """count + every column of one file of a history against the spec-level parse of THAT file.  INFO keys share the label
    'info' (which key was re-declared is a property of the input, not of the defect)"""
    n_exp, exp = expected_of(fmt, data)
    n_got = guard(col, lambda: len(d), fmt, zone, case)
    if n_got is None:
        return
    col.check(n_got == n_exp, "%s:count:wrong-number-of-entries:%s" % (fmt, zone), case,
              "file %d of the history: entries %r, records in file %r" % (case["file"], n_got, n_exp))
    for name, e in exp.items():
        if name == "genotypes" and fmt == "vcf-matrix":
            e = expected_gt_text(data)
        for key in ([None] if not isinstance(e, dict) else list(e)):
            ee = e if key is None else e[key]
            g = guard(col, lambda: column_value(fmt, d, name, key), fmt, zone, case)
            if g is None:
                continue
            if isinstance(g, str) and isinstance(ee, list):
                g = list(g)
            col.check(ref.values_equal(g, ee), "%s:%s:wrong-value:%s" % (fmt, name, zone), case,
                      "file %d of the history, column %s: got %r expected %r"
                      % (case["file"], name if key is None else "%s.%s" % (name, key), g, ee))


def check_history(col, tmp, fmt, texts, relation, mode, order):
    """the run-time contract over an operation history: the files `texts` are read one after the other in this process
    (order 'sequential': read file i, evaluate all its columns, go on; 'deferred': read all files first, then evaluate the
    columns, last file first); every file must give the values ITS OWN text and header assign"""
    zone = "other-header-before:" + relation
    suffix, _ = suffix_and_buffer(fmt)
    datas = [t.encode("latin1") for t in texts]
    paths = []
    for i, data in enumerate(datas):
        paths.append(os.path.join(tmp, "h%d%s" % (i, suffix)))
        with open(paths[-1], "wb") as f:
            f.write(data)

    def case_of(i):
        col.case({"f": fmt, "m": mode, "o": order, "hist": texts, "i": i}, nontrivial=True, contract="history:count+columns:" + fmt)
        return {"format": "history", "fmt": fmt, "texts": texts, "relation": relation, "mode": mode, "order": order,
                "zone": zone, "file": i}
    if order == "sequential":
        for i, data in enumerate(datas):
            case = case_of(i)
            d = guard(col, lambda: read_with(fmt, paths[i], data, mode), fmt, zone, case)
            if d is not None:
                verify_history_file(col, fmt, d, data, zone, case)
    else:
        ds = []
        for i, data in enumerate(datas):
            ds.append(guard(col, lambda: read_with(fmt, paths[i], data, mode), fmt, zone,
                            {"format": "history", "fmt": fmt, "texts": texts, "relation": relation, "mode": mode, "order": order,
                             "zone": zone, "file": i}))
        for i in reversed(range(len(datas))):
            case = case_of(i)
            if ds[i] is not None:
                verify_history_file(col, fmt, ds[i], datas[i], zone, case)


# ---- numbers written with an explicit '+' sign (every integer-valued column of every format; float columns)
PLUS_INT_KINDS = ("int", "sint", "pos1", "optint")
PLUS_FLOAT_TOKENS = ["+3", "+0.5", "+12.25", "+1234.125", "+0.000125", "+1e-3", "+2.5e2", "+7.5e+1"]
PLUS_INFO_KEYS = [("A", "1"), ("AC", "."), ("MQ2", "2")]          # the Integer keys of INFO_DECL: scalar, list, list of two
PLUS_SHARED_READER = ("bed3of6", "bedgraph", "wig", "gff3", "gtf")   # quick: coordinates read by the code that reads BED3's


def plus_pools(tier, kind):
    """(U, Pl, M): unsigned / '+'-signed / '-'-signed integer tokens (label, fn(r, c), sign).  '+' widths 1, 2, 7 digits
    (thorough: also 10 and 18) and '+0'; VCF POS is not given negative values"""
    quick = tier == "quick"
    U = [("u%d" % w, (lambda r, c, w=w: t_int(w, r, c)), "u") for w in (1, 2, 7)]
    Pl = [("+%d" % w, (lambda r, c, w=w: "+" + t_int(w, r, c)), "+") for w in ((1, 2, 7) if quick else (1, 2, 7, 10, 18))]
    Pl.append(("+0", (lambda r, c: "+0"), "+"))
    M = [] if kind == "pos1" else [("-%d" % w, (lambda r, c, w=w: "-" + t_int(w, r, c)), "-") for w in (1, 2)]
    return U, Pl, M


def plus_tuples(U, Pl, M, n, quick):
    """n-tuples of tokens of one column over n records, each with at least one '+' token.
    n = 1: every '+' token.  n = 2: quick - every '+' token before and after an unsigned token of another width, another '+'
    token, itself and a '-' token; thorough - every ordered pair.  n = 3: every '+' token at every record position (quick: at
    one, rotating) between two unsigned tokens of different widths / an unsigned and another '+' token / an unsigned and a '-'
    token, three '+' tokens; thorough - also a covering subset of the full product (every token at every position next to
    several neighbours)"""
    pool = U + Pl + M
    k = len(pool)
    out = []
    if n == 1:
        out = [(p,) for p in Pl]
    elif n == 2:
        if not quick:
            out = [t for t in itertools.product(pool, repeat=2)]
        else:
            for i, p in enumerate(Pl):
                partners = [U[(i + 1) % len(U)], Pl[(i + 1) % len(Pl)], p] + ([M[i % len(M)]] if M else [])
                for q in partners:
                    out += [(p, q), (q, p)]
    else:
        for i, p in enumerate(Pl):
            for pos in (range(3) if not quick else [i % 3]):
                u1, u2 = U[(i + pos) % len(U)], U[(i + pos + 1) % len(U)]
                for others in ([u1, u2], [Pl[(i + 1 + pos) % len(Pl)], u1], [u2, M[(i + pos) % len(M)]] if M else None):
                    if others is not None:
                        out.append(tuple(others[:pos] + [p] + others[pos:]))
            out.append((p, Pl[(i + 1) % len(Pl)], Pl[(i + 2) % len(Pl)]))
        if not quick:
            out += [(pool[i], pool[(i + d) % k], pool[(i + e) % k]) for i in range(k) for d in (0, 1, 3, 5) for e in (0, 2, 5, 7)]
    seen, res = set(), []
    for t in out:
        key = tuple(p[0] for p in t)
        if key not in seen and any(p[2] == "+" for p in t):
            seen.add(key)
            res.append(t)
    return res


def plus_zone(signs):
    """'plus-signed' = the column holds '+'-signed and no '-'-signed value; 'plus+minus-signed' = both.  LF files only (a CRLF
    twin would fall into the class 'crlf'; CR next to a signed last column is in the scope of the zone 'signed')"""
    return "plus+minus-signed" if "-" in signs else "plus-signed"


def plus_list_text(tok, r, i, exact=None):
    """text of a list-valued integer column of record r whose focus element is `tok`: 1..3 elements (exact: that many), the
    focus at a rotating position, the other elements unsigned or '+'-signed, of other widths; no trailing comma"""
    m = exact or 1 + (r + i) % 3
    elems = [("+" if (r + i + e) % 3 == 0 else "") + t_int(1 + (r + e + i) % 3, r + e, i) for e in range(m)]
    elems[(i // 2 + r) % m] = tok
    return ",".join(elems)


def gen_plus_signed(tier, pools):
    """yields (format, zone, text, modes, focus, label).
    (1) every integer-valued column of every delimited format (BED3/6/12 start, stop, score, thickStart/End, blockCount;
        bedGraph, wig, narrowPeak incl. summit, chrom.sizes size, GTF/GFF3 start/end, pairs pos1/pos2, SAM FLAG, POS, MAPQ, PNEXT, TLEN,
        VCF POS), one column at a time: every tuple of plus_tuples over 1..3 records, the other columns at the unequal-width baseline;
    (2) the elements of the list-valued integer columns (BED12 blockSizes / blockStarts; VCF INFO Integer Number=1 / . / 2): the
        same tuples, the token one element of a list of 1..3;
    (3) all integer columns of a format '+'-signed at once (all values; alternating with unsigned; one record only, below header
        lines; with one '-' per column), 1..3 records, every read mode;
    (4) float columns (bedGraph, wig, narrowPeak x 3, VCF INFO Float Number=1 and Number=A): decimal and scientific texts with
        a leading '+' alone and next to unsigned / negative neighbours (label 'float-column': one class whatever the format)"""
    quick = tier == "quick"
    le = ("lazy", "eager")
    k = 0
    # (1) + (2, BED12 lists)
    for fi, (fmt, spec) in enumerate(FORMATS.items()):
        cols = spec["cols"][:spec.get("parsed")]
        raw_ok = fmt != "vcf"
        n_int = sum(1 for _, kind in cols if kind in PLUS_INT_KINDS or kind == "intlist")
        for c, (name, kind) in enumerate(cols):
            if kind not in PLUS_INT_KINDS and kind != "intlist":
                continue
            bed6_twin = (fmt in ("narrowpeak", "bed12") and c < 6) or fmt == "bed3of6"
            if quick and bed6_twin:
                continue                      # the BED6 columns of these formats: through bed6 (thorough: here too, 1..2 records)
            U, Pl, M = plus_pools(tier, kind)
            for n in ((1, 2, 3) if not bed6_twin else (1, 2)):
                for ti, combo in enumerate(plus_tuples(U, Pl, M, n, quick)):
                    k += 1
                    if quick and n > 1 and (fmt in PLUS_SHARED_READER or n_int >= 4) and (ti + c + fi) % 2:
                        continue              # quick: these columns share the tuples between them
                    rows = baseline(fmt, pools, n)
                    for r, p in enumerate(combo):
                        tok = p[1](r, c)
                        rows[r][c] = tok if kind != "intlist" else plus_list_text(tok, r, ti)
                    zone = plus_zone([p[2] for p in combo])
                    if n == 1:
                        modes = le + (("raw",) if raw_ok else ())
                    else:
                        modes = (le[k % 2],)
                    yield fmt, zone, render(fmt, rows), modes, name, None
    # (2) VCF INFO Integer keys
    hdr = vcf_header("plus-signed")
    for ki, (key, number) in enumerate(PLUS_INFO_KEYS):
        U, Pl, M = plus_pools(tier, "sint")
        for n in (1, 2, 3):
            for ti, combo in enumerate(plus_tuples(U, Pl, M, n, quick)):
                k += 1
                if n > (1 if quick else 2) and (ti + ki) % 3:
                    continue                  # the three keys share the tuples between them (thorough: those of 3 records)
                infos = []
                for r, p in enumerate(combo):
                    tok = p[1](r, ti)
                    val = tok if number == "1" else plus_list_text(tok, r, ti, 2 if number == "2" else None)
                    items = [[], ["DB"], ["AA=xy", "D=0.5"]][(ti + r) % 3] + ["%s=%s" % (key, val)] + [[], ["H2"], ["AF=0.5,12.25"]][(ti // 3 + r) % 3]
                    infos.append(";".join(items))
                rows = [vcf_fixed(r) + [infos[r]] for r in range(n)]
                zone = info_zone(infos, INFO_DECL, plus_zone([p[2] for p in combo]))
                yield "vcf-info", zone, render("vcf", rows, hdr), (le if n == 1 else (le[k % 2],)), "info-" + key, None
    # (3) all integer columns at once
    for fmt, spec in FORMATS.items():
        cols = spec["cols"][:spec.get("parsed")]
        icols = [(c, kind) for c, (_, kind) in enumerate(cols) if kind in PLUS_INT_KINDS or kind == "intlist"]
        hdr_f = header_lines_of(fmt) if spec["comment"] is not None else []
        modes_all = le + (("raw",) if fmt != "vcf" else ())
        if not icols:
            continue
        for n in (1, 2, 3):
            for variant in range(4):
                k += 1
                rows = baseline(fmt, pools, n)
                signs = set()
                for c, kind in icols:
                    U, Pl, M = plus_pools(tier, kind)
                    for r in range(n):
                        if variant == 0:
                            p = Pl[(r + c) % len(Pl)]
                        elif variant == 1:
                            p = Pl[(r * 2 + c) % len(Pl)] if (r + c) % 2 == 0 else U[(r + c) % len(U)]
                        elif variant == 2:
                            p = Pl[(r + 2 * c) % len(Pl)] if r == (c + 1) % n else U[(r + c) % len(U)]
                        else:
                            p = M[c % len(M)] if (M and r == c % n and n > 1) else Pl[(r + c + 1) % len(Pl)]
                        signs.add(p[2])
                        tok = p[1](r, c)
                        rows[r][c] = tok if kind != "intlist" else plus_list_text(tok, r, c + variant)
                header = hdr_f if variant == 2 else ()         # (from_raw_buffer takes the text below the header)
                modes = modes_all if variant == 0 else (le if not quick else (le[k % 2],))
                yield fmt, plus_zone(signs), render(fmt, rows, header), modes, "all-int-columns", None
    # (4) float columns
    short = LONG_FLOAT_SHORT
    label = "float-column"
    zone = "plus-signed-float"
    ftoks = PLUS_FLOAT_TOKENS
    for fmt, fcols in LONG_FLOAT_COLUMNS.items():
        for j, c in enumerate(fcols):
            name = FORMATS[fmt]["cols"][c][0]
            for i, tok in enumerate(ftoks):
                for n in (1, 2, 3):
                    for pos in range(n):
                        if quick and n > 1 and ((pos + i + j) % n or (i + j + n) % 2):
                            continue
                        rows = baseline(fmt, pools, n)
                        for r in range(n):
                            rows[r][c] = tok if r == pos else short[(i + r + pos) % len(short)]
                        k += 1
                        yield fmt, zone, render(fmt, rows), (le if not quick else (le[k % 2],)), name, label
                rows = baseline(fmt, pools, 3)
                for r in range(3):
                    rows[r][c] = ftoks[(i + r * 3) % len(ftoks)]
                yield fmt, zone, render(fmt, rows), (le if not quick else (le[i % 2],)), name, label
    hdr = vcf_header("plus-signed-float")
    for i, tok in enumerate(ftoks):
        for key in ("D", "AF"):
            for n in (1, 2, 3):
                if quick and n != 1 + (i + (key == "AF")) % 3:
                    continue
                pos = (i + n) % n
                infos = []
                for r in range(n):
                    if r != pos:
                        infos.append(["D=" + short[(i + r) % len(short)], "AF=0.5,12.25", "A=3;AF=" + short[i % len(short)]][(i + r) % 3])
                    elif key == "D":
                        infos.append(";".join([["A=7"], [], ["AA=xy", "DB"]][i % 3] + ["D=" + tok]))
                    else:
                        m = 1 + (i + n) % 3
                        elems = [short[(i + e) % len(short)] for e in range(m)]
                        elems[(i // 2) % m] = tok
                        infos.append(";".join(["AF=" + ",".join(elems)] + [[], ["DB"], ["MQ2=1,22"]][i % 3]))
                rows = [vcf_fixed(r) + [infos[r]] for r in range(n)]
                k += 1
                yield "vcf-info", info_zone(infos, INFO_DECL, zone), render("vcf", rows, hdr), (le if not quick else (le[k % 2],)), "info-" + key, label


# ---- float texts with no digit on one side of the decimal point ('.5', '-.75', '5.', '.5e1', '5.e1'): legal strtod / float() syntax
BARE_DOT_TOKENS = {
    "leading-dot-float": [".5", ".25", ".0625", ".001", ".999999", "-.75", "-.5"],
    "trailing-dot-float": ["5.", "12.", "-3.", "0.", "1234567."],
    "leading-dot-float-sci": [".5e1", ".25e-1", "-.5e2", ".125e+3"],
    "trailing-dot-float-sci": ["5.e1", "2.e-1", "-3.e2"],
}
BARE_DOT_ZONES = ["leading-dot-float", "leading-dot-float-sci", "trailing-dot-float", "trailing-dot-float-sci"]     # precedence in a mixed column
BARE_DOT_NEIGHBOURS = ["3", "0.5", "1e-3", "12.25", "-0.75", "2.5e2", "1234.125", "-1"]     # plain and 'e' notation alternate


def bare_dot_zone(zones):
    for z in BARE_DOT_ZONES:
        if z in zones:
            return z
    raise ValueError(zones)


def bare_dot_columns(tier):
    """yields (zone, [text of the float column in record 0..n-1]): the operation-free 'histories' of one float column.
    S = a token of BARE_DOT_TOKENS, N = a neighbour with digits on both sides of the point / no point (plain and 'e' notation)
      n = 1  S alone
      n = 2  S after and before N (quick: after 2 neighbours per token, one plain and one 'e', before one; thorough: 4 neighbours);
             S S' of one class
      n = 3  S at every record position between two N (quick 1, thorough 3 neighbour pairs); S S' S'' of different classes
      n = 4  two S at every pair of positions, N elsewhere; four S (a column without any digit before a point)"""
    quick = tier == "quick"
    nb = BARE_DOT_NEIGHBOURS
    toks = [(t, z) for z in BARE_DOT_TOKENS for t in BARE_DOT_TOKENS[z]]
    for i, (t, z) in enumerate(toks):
        yield z, [t]
        for d in ((0, 1) if quick else (0, 1, 2, 5)):
            q = nb[(i + d) % len(nb)]
            yield z, [q, t]
            if not (quick and d):
                yield z, [t, q]
        same = BARE_DOT_TOKENS[z]
        t2 = same[(same.index(t) + 1) % len(same)]
        yield z, [t, t2]
        for pos in range(3):
            for d in ((0,) if quick else (0, 1, 4)):
                others = [nb[(i + pos + d) % len(nb)], nb[(i + pos + 3 + 2 * d) % len(nb)]]
                yield z, others[:pos] + [t] + others[pos:]
        (t3, z3), (t4, z4) = toks[(i + 5) % len(toks)], toks[(i + 11) % len(toks)]
        yield bare_dot_zone([z, z3, z4]), [t, t3, t4]
    for k, (a, b) in enumerate(itertools.combinations(range(4), 2)):
        for i in range(k % 3 if quick else 0, len(toks), 3 if quick else 1):
            (t, z), (t2, z2) = toks[i], toks[(i + 3 + k) % len(toks)]
            col4 = [nb[(i + k + r) % len(nb)] for r in range(4)]
            col4[a], col4[b] = t, t2
            yield bare_dot_zone([z, z2]), col4
    for i in range(0, len(toks), 3 if quick else 1):
        four = [toks[(i + 4 * r) % len(toks)] for r in range(4)]
        yield bare_dot_zone([z for _, z in four]), [t for t, _ in four]


def gen_bare_dot_floats(tier, pools):
    """yields (format, zone, text, modes, focus, label).  Every column of bare_dot_columns in every float column of the delimited
    formats (bedGraph, wig, narrowPeak signal / p / q value; the narrowPeak columns share the set between them: quick all three,
    thorough p and q value; quick: bedGraph and wig share the columns of 3 and 4 records), the other columns at the unequal-width
    baseline, read lazily and eagerly (1..2 records; quick and 3..4 records: one of the two, alternating); narrowPeak with all three float columns holding such tokens at once; VCF INFO: as
    the value of the Float Number=1 key D (alone / between other keys, the key absent in no record) and as an element of the Float
    Number=A list AF [quick: each key every 4th column of the set; thorough: the columns of 3..4 records alternate between the keys] (lists of 1..3 elements, the token at a rotating element position, the other elements neighbours or tokens
    of the class; one record with every token at every element position of a 2- and 3-element list).  LF files.  Label
    'float-column': one class whatever the format; zone = class of the token (leading-dot-float, trailing-dot-float, ..-sci)"""
    quick = tier == "quick"
    le = ("lazy", "eager")
    label = "float-column"
    nb = BARE_DOT_NEIGHBOURS
    columns = list(bare_dot_columns(tier))
    k = 0
    for fmt, fcols in LONG_FLOAT_COLUMNS.items():
        for j, c in enumerate(fcols):
            name = FORMATS[fmt]["cols"][c][0]
            for i, (zone, texts) in enumerate(columns):
                if len(fcols) > 1 and (i % 3 != j if quick else (j > 0 and i % 2 != j - 1)):
                    continue                # narrowPeak: quick - the three columns share the set; thorough - p and q value share it
                if quick and len(fcols) == 1 and len(texts) > 2 and i % 2 != (fmt == "wig"):
                    continue                # quick: bedGraph and wig share the columns of 3 and 4 records
                rows = baseline(fmt, pools, len(texts))
                for r, t in enumerate(texts):
                    rows[r][c] = t
                k += 1
                modes = (le[k % 2],) if quick or len(texts) > 2 else (le + (("raw",) if fmt == "bedgraph" else ()))
                yield fmt, zone, render(fmt, rows), modes, name, label
        if len(fcols) > 1:
            for i in range(0, len(columns), 4 if quick else 2):
                picks = [columns[(i + 7 * j) % len(columns)] for j in range(len(fcols))]
                n = max(len(t) for _, t in picks)
                rows = baseline(fmt, pools, n)
                for (_, texts), c in zip(picks, fcols):
                    for r in range(n):
                        rows[r][c] = texts[r] if r < len(texts) else nb[(i + r + c) % len(nb)]
                k += 1
                yield fmt, bare_dot_zone([z for z, _ in picks]), render(fmt, rows), ((le[k % 2],) if quick else le), "all-float-columns", label
    hdr = vcf_header("bare-dot-float")
    toks = [(t, z) for z in BARE_DOT_TOKENS for t in BARE_DOT_TOKENS[z]]
    for i, (zone, texts) in enumerate(columns):
        for key in ("D", "AF"):
            if (quick and (i + 2 * (key == "AF")) % 4) or (not quick and len(texts) > 2 and (i + (key == "AF")) % 2):
                continue                    # quick: each key takes every 4th column; thorough: those of 3..4 records alternate
            infos, zones = [], [zone]
            for r, t in enumerate(texts):
                if key == "D":
                    item = "D=" + t
                else:
                    m = 1 + (i + r) % 3
                    elems = [nb[(i + r + e) % len(nb)] for e in range(m)]
                    if m == 3 and i % 2:
                        t2, z2 = toks[(i + r) % len(toks)]
                        elems[(i // 3 + r + 1) % m] = t2
                        zones.append(z2)
                    elems[(i // 3 + r) % m] = t
                    item = "AF=" + ",".join(elems)
                infos.append(";".join([["A=7"], [], ["AA=xy", "DB"]][(i + r) % 3] + [item] + [[], ["DB"], ["MQ2=1,22"]][(i // 2 + r) % 3]))
            rows = [vcf_fixed(r) + [infos[r]] for r in range(len(texts))]
            k += 1
            yield ("vcf-info", info_zone(infos, INFO_DECL, bare_dot_zone(zones)), render("vcf", rows, hdr),
                   ((le[k % 2],) if quick or len(texts) > 2 else le), "info-" + key, label)
    # one record: every token at every element position of an AF list of 2 and 3 elements (the list elements of all records
    # are one column to the parser); the same with a second record
    for i, (t, z) in enumerate(toks):
        for m in (2, 3):
            for pos in range(m):
                if quick and (i + m + pos) % 2:
                    continue
                elems = [nb[(i + e + m) % len(nb)] for e in range(m)]
                elems[pos] = t
                infos = ["AF=" + ",".join(elems)]
                zz = z
                if (i + pos) % 2:
                    infos.append("D=%s;AF=%s" % (nb[i % len(nb)], toks[(i + 2) % len(toks)][0]))
                    zz = bare_dot_zone([z, toks[(i + 2) % len(toks)][1]])
                rows = [vcf_fixed(r) + [infos[r]] for r in range(len(infos))]
                k += 1
                yield ("vcf-info", info_zone(infos, INFO_DECL, zz), render("vcf", rows, hdr), ((le[k % 2],) if quick else le),
                       "info-AF-elements", label)


def all_cases(tier):
    pools = make_pools(tier)
    for fmt in FORMATS:
        for zone, text, modes, focus in gen_delimited(fmt, tier, pools):
            yield fmt, zone, text, modes, focus
    yield from gen_fasta(tier)
    yield from gen_fastq(tier)
    yield from gen_vcf_info(tier)
    yield from gen_vcf_gt(tier)


def run(tier="quick", seed=0):
    quick = tier == "quick"
    col = Collector("C02", tier, seed,
                    "deterministic, per format: (A) for each column every tuple of its token pool (text widths {0,1,2,7}, int digits "
                    "{1,2,7%s}, signs, '.' placeholders, float notations, list lengths/styles, 0..3 SAM tags) over 1..3 records with the "
                    "other columns at an unequal-width baseline [quick: 3-record tuples and tuples of the 8-entry float pool thinned to a "
                    "covering set; columns already covered through another format with the same reader skipped]; (B) all columns varied "
                    "at once, 1..3 records; (C, thorough) adjacent column pairs; (D) 1..3 header lines, interior comments at every subset "
                    "of gaps; LF and CRLF; read modes lazy / eager / from_raw_buffer.  FASTA: every (length, wrap width); FASTQ/2-line "
                    "FASTA: every width tuple; VCF: INFO key subsets and orders (ordered pairs of %d patterns), typed by the header; "
                    "genotype alphabets rotated through every (record, sample) position, 0..3 samples.  Long decimal float texts (printf "
                    "%%.Nf / %%.Ne output, 17..30-digit strings with the dot at first/middle/last/no position, both signs) once in every "
                    "float column of bedGraph, wig, narrowPeak and as VCF INFO Float scalar / list element, 1..3 records, rotating "
                    "record position, short neighbours; compared with float(text) within %d ulp.  GFF3 / wig: every assignment of 0..%d "
                    "comment lines to the n+1 gaps around 1..3 records with a run of >= 2 adjacent lines, runs of 3 and 4 at every gap.  "
                    "Histories in one process: 2..3 files with different headers read one after the other (VCF: one/two/all INFO keys "
                    "re-declared with every other (Number, Type), order / IDs changed or exchanged, keys added or removed, with / without "
                    "INFO lines, same declarations in another header; five buffer types; lazy or eager, columns evaluated after each read "
                    "or after all reads; other formats: other header lines and record counts), each file against the spec-level parse of "
                    "its own text.  Explicit '+' signs: every integer-valued column of every format (and the elements of BED12 block lists and "
                    "of VCF INFO Integer Number=1/./2 keys) one at a time over 1..3 records with tuples of unsigned / '+'-signed (1,2,7%s "
                    "digits, '+0') / '-'-signed tokens that hold at least one '+' token - columns with '+' and no '-' value (zone plus-signed) "
                    "and with both (plus+minus-signed) - then all integer columns of a format '+'-signed at once; float columns with a "
                    "leading '+' on decimal and scientific texts (zone plus-signed-float).  Float texts without a digit before or after "
                    "the decimal point ('.5', '-.75', '5.', '.5e1', '5.e1'; %d tokens) in every float column (bedGraph, wig, narrowPeak x 3, "
                    "VCF INFO Float scalar / list element) over 1..4 records: alone, before / after plain and 'e'-notation neighbours, at "
                    "every record position of 3, two at every pair of positions of 4, columns of such tokens only (zones leading-dot-float, "
                    "trailing-dot-float, ..-sci).  No random sampling (seed unused). "
                    "distinct = distinct (format, file text, read mode); every case is non-trivial (>= 1 record whose offsets are computed)"
                    % ("" if quick else ",10", 10 if quick else len(INFO_PATTERNS), LONG_FLOAT_ULPS, 2 if quick else 3,
                       "" if quick else ",10,18", sum(len(v) for v in BARE_DOT_TOKENS.values())))
    col.bounds = {"records": "1..3", "text widths": [0, 1, 2, 7], "int digits": [1, 2, 7] + ([] if quick else [10]),
                  "float tokens": FLOAT_TOKENS, "list lengths": "1..3", "samples": "0..3", "header lines": "0..3",
                  "interior comments": "every subset of the n+1 gaps, n = 1..3",
                  "fasta": "L 1..%d x W in {1,2,3,4,9}; 1..3 records" % (6 if quick else 9),
                  "info keys": [k for k, _, _ in INFO_DECL], "info patterns": len(INFO_PATTERNS),
                  "formats": list(FORMATS) + list(EXTRA_FORMATS), "line ends": ["LF", "CRLF"],
                  "read modes": ["lazy", "eager", "raw"],
                  "adjacent comments": "gff3, wig; 1..3 records; 0..%d comment lines per gap, >= 1 run of >= 2; runs of 3, 4 at each gap; "
                                       "%d line texts" % (2 if quick else 3, len(ADJ_COMMENT_LINES)),
                  "histories": "files per history 2..3, records per file 1..3; VCF INFO keys %s, (Number, Type) in %s; %d histories per "
                               "buffer type (%s); (read mode, order) in %s; other formats: 3 histories each"
                               % ([k for k, _, _ in HS_BASE], ["%s/%s" % c for c in HS_COMBOS], len(list(hs_relations(tier))),
                                  "vcf-info all, genotype buffer types every 6th" if quick else "all five buffer types",
                                  ["%s/%s" % v for v in HS_VARIANTS]),
                  "plus-signed numbers": "integer columns: every int / optional-int / list-of-int column of %s, VCF INFO Integer keys %s; "
                                         "'+' tokens of %s digits and '+0', unsigned 1,2,7 digits, '-' 1,2 digits; 1..3 records, tuples with "
                                         ">= 1 '+' token (2 records: %s; 3 records: covering subset); float tokens %s in %s and VCF INFO D, AF"
                                         % ([f for f in FORMATS if any(k in PLUS_INT_KINDS or k == "intlist" for _, k in FORMATS[f]["cols"])],
                                            [k for k, _ in PLUS_INFO_KEYS], "1,2,7" if quick else "1,2,7,10,18",
                                            "covering subset" if quick else "every ordered pair", PLUS_FLOAT_TOKENS,
                                            sorted(LONG_FLOAT_COLUMNS)),
                  "bare-dot float texts": "tokens %s, neighbours %s; %d column texts of 1..4 records; float columns: bedgraph.value, "
                                          "wig.value, narrowpeak.signal/p/q_value, vcf INFO D (Number=1), AF (Number=A, lists of 1..3)"
                                          % (BARE_DOT_TOKENS, BARE_DOT_NEIGHBOURS, len(list(bare_dot_columns(tier)))),
                  "long float texts": "%d tokens: '%%.Nf' N in %s, '%%.Ne' N in %s of %d values 5e-7..1.2e8; digit strings of %s digits; "
                                      "float columns: bedgraph.value, wig.value, narrowpeak.signal/p/q_value, vcf INFO D (Number=1), "
                                      "AF (Number=A); tolerance %d ulp"
                                      % (len(long_float_tokens(tier)), "17,18,19,20,22,25" if quick else "15..22,25,30",
                                         "17,20" if quick else "15,17,19,20,25,30", len(LONG_FLOAT_VALUES),
                                         "17..21" if quick else "17..22,25,30", LONG_FLOAT_ULPS)}
    import logging
    logger = logging.getLogger("bionumpy")
    level = logger.level
    logger.setLevel(logging.ERROR)      # silences the "INFO tag missing in header" warning printed once per file
    try:
        with TmpDir() as tmp:
            for fmt, zone, text, modes, focus in all_cases(tier):
                check_text(col, tmp, fmt, text, zone, modes, focus)
                if col.out_of_time():
                    break
            for text, order in type_sequence_cases():      # 10 cases, run even when the budget cut the loop above
                check_type_sequence(col, tmp, text, order)
            # adjacent comment lines; histories of files with different headers (bounded blocks of their own, a few seconds)
            pools = make_pools(tier)
            for fmt, zone, text, modes, focus in gen_adjacent_comments(tier, pools):
                check_text(col, tmp, fmt, text, zone, modes, focus)
            for fmt, rel, texts, mode, order in itertools.chain(gen_vcf_histories(tier), gen_format_histories(tier, pools)):
                check_history(col, tmp, fmt, texts, rel, mode, order)
            # long decimal float texts: a bounded block of its own (a few seconds quick, under a minute thorough), also run
            # when the budget cut the main loop
            for fmt, zone, text, modes, focus in gen_long_floats(tier, make_pools(tier)):
                check_text(col, tmp, fmt, text, zone, modes, focus)
            # numbers written with an explicit '+' sign: a bounded block of its own (quick < 10 s, thorough < 1 min)
            for fmt, zone, text, modes, focus, label in gen_plus_signed(tier, make_pools(tier)):
                check_text(col, tmp, fmt, text, zone, modes, focus, label)
            # float texts without a digit before / after the decimal point: a bounded block of its own (quick < 10 s, thorough < 1 min)
            for fmt, zone, text, modes, focus, label in gen_bare_dot_floats(tier, make_pools(tier)):
                check_text(col, tmp, fmt, text, zone, modes, focus, label)
    finally:
        logger.setLevel(level)
    return col.result()


def replay(case):
    col = Collector("C02", "quick", 0, "replay")
    with TmpDir() as tmp:
        if case["format"] == "vcf-typeseq":
            check_type_sequence(col, tmp, case["text"], case["order"])
        elif case["format"] == "history":
            check_history(col, tmp, case["fmt"], case["texts"], case["relation"], case["mode"], case["order"])
        else:
            check_text(col, tmp, case["format"], case["text"], case.get("zone", "replay"), (case["mode"],), case.get("focus"),
                       case.get("label"))
    if col.failures:
        return False, "; ".join(f["signature"] + ": " + f["message"] for f in col.failures)
    return True, "ok"
