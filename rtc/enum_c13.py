"""C13 bounded stand-in: sliding-window sequence functions are row-local and match their definitions.

Run-time contracts on the REAL functions, oracle = per-row plain-Python definitions:

  get_kmers(seqs, k)              row r -> [ sum_j letter(r[i+j]) * A**j  for i in 0..L_r-k ]           (none if L_r < k)
                                  (2-bit packed path for |A| = 4, KmerEncoder.rolling_window otherwise and explicitly)
  KmerEncoding.to_string/encode   code <-> window text (little-endian base-|A| number), KmerEncoder.inverse
  get_minimizers(seqs, k, w)      row r -> [ min(code of the w-k+1 k-mers inside r[i:i+w]) for i in 0..L_r-w ]
  match_string(seqs, p)           row r -> [ r[i:i+|p|] == p for i in 0..L_r-|p| ]
  get_motif_scores(seqs, pwm)     row r -> [ sum_j M[letter(r[i+j]), j] for i in 0..L_r-w ]  (+ PositionWeightMatrix.rolling_window)
  count_kmers(seqs, k, axis)      counts[code] = number of windows with that code (all rows / per row); labels[code] = text
  util.rolling_window_function    row r -> [ f(r[i:i+w]) ]   (the generic decorator the others are copies of)

Scope (see run()): A. every list of 1..3 rows of length 0..Lmax x w = 1..wmax x content variants x alphabets/paths;
B. exhaustive contents over small alphabets; C. long ragged layouts (rows of length w-1, w, w+1, 0, 1, long rows, short
last row, > 2 machine words of 2-bit letters) for every k = 1..31 on every alphabet for which |A|**k < 2**63;
D. single flat sequences and 2-D equal-length input; E. KmerEncoding text <-> code for every k = 1..31;
V. input history: the cases of A (content variant 0), A', C, D and the samples once more with the same logical rows handed over as a
NOT-YET-FLATTENED VIEW of a larger array (reads[::-1], reads[order], reads[mask], reads[1:], reads[:, 1:], reads[:, :-1], ...; see
view_recipe), alphabet-encoded and ASCII, bit-packed and generic path, same per-row oracle; signatures carry ':view';
F. scale: count_kmers with 1e6 / 2e6 / 3e6 (+-1, +3, +5) windows in total - the counting loop works in blocks of 1e6 windows;
G. scale: every rolling function with the number of windows (letters, k-mers) over the CONCATENATED rows at / next to multiples of 2**16..2**21;
H. histories: one scorer object (or module-level function) scores several inputs in a row - both strands of the same reads, other reads
of the same total size, another size in between - and every earlier result is re-read after every later call (no result may be
overwritten by a later call, no input modified).
Precondition kept: total number of letters >= window (the statement's quantifier), |A|**k representable in int64.
"""
import itertools
import json
import math
import random

from .common import Collector

AMINO = "ACDEFGHIKLMNPQRSTVWY*"
BAM16 = "=ACMGRSVTWYHKDBN"
ALPHABETS = ["ACGT", "ACTG", "ACG", "AC", "ACGTN", BAM16, AMINO]


def _size(case):
    return (case.get("kind", "ragged") != "ragged", len(json.dumps(case, default=str)))


class MinCollector(Collector):
    """keeps, per signature, the smallest failing case seen (minimal reproducer) instead of the first"""

    def fail(self, signature, case, message):
        if signature in self._fail_sigs:
            for f in self.failures:
                if f["signature"] == signature:
                    f["count"] = f.get("count", 1) + 1
                    if _size(case) < _size(f["case"]):
                        f["case"], f["message"] = case, str(message)[:600]
            return
        Collector.fail(self, signature, case, message)


# ----------------------------------------------------------------------------------------------- oracle (plain Python)
def o_code(idx, A):
    return sum(l * A ** j for j, l in enumerate(idx))


def o_kmers(rows, A, k):
    return [[o_code(r[i:i + k], A) for i in range(len(r) - k + 1)] for r in rows]


def o_minimizers(rows, A, k, w):
    return [[min(o_code(r[i + j:i + j + k], A) for j in range(w - k + 1)) for i in range(len(r) - w + 1)] for r in rows]


def o_match(rows, pat):
    w = len(pat)
    return [[r[i:i + w] == pat for i in range(len(r) - w + 1)] for r in rows]


def o_motif(rows, M):
    w = len(M[0])
    out = []
    for r in rows:
        vals = []
        for i in range(len(r) - w + 1):
            s = 0.0
            for j in range(w):
                s += M[r[i + j]][j]
            vals.append(s)
        out.append(vals)
    return out


def o_text(code, alph, k):
    A = len(alph)
    return "".join(alph[(code // A ** j) % A] for j in range(k))


def max_k(A):
    k = 1
    while A ** (k + 1) < 2 ** 63 and k < 31:
        k += 1
    return k


# ----------------------------------------------------------------------------------------------- building inputs
def enc_of(alph):
    import bionumpy as bnp
    from bionumpy.encodings import AlphabetEncoding
    if alph == "ACGT":
        return bnp.DNAEncoding
    return AlphabetEncoding(alph)


def idx_rows(rows, alph):
    return [[alph.index(c) for c in r] for r in rows]


# ---- input history: the same logical rows presented as a NOT-YET-FLATTENED VIEW of a larger array (reads[order], reads[::-1],
# reads[mask], reads[1:], reads[:, 1:], reads[:, :-1] ...).  A view keeps the parent's data buffer and row offsets until somebody
# calls .ravel() on it; code that flattens and re-wraps with a row layout captured from the view's internals goes wrong only here.
ROW_VIEWS = ["rev", "order", "dup", "mask", "tail", "head", "mid", "step", "tail-rev"]
COL_VIEWS = ["col-left", "col-right", "col-both", "col-left2", "rev+col-left", "tail+col-right", "col-left+order"]
VIEWS = ["rev", "col-left", "order", "col-right", "mask", "tail+col-right", "tail", "col-both", "dup", "rev+col-left", "head",
         "col-left+order", "mid", "col-left2", "step", "tail-rev"]
VIEWS_2D = ["rev", "col-left", "tail", "col-right", "step", "col-both", "head", "rev+col-left", "mid", "tail+col-right", "tail-rev", "col-left2"]
VIEWS_FLAT = ["rev", "step", "tail", "head", "mid"]
_DECOY_LEN = [2, 0, 3, 1, 5]


def view_rows(rows, view):
    """the logical rows of the view variant of a case (the 'dup' view selects row 0 a second time, at the end)"""
    return list(rows) + [rows[0]] if view == "dup" else list(rows)


def view_recipe(alph, rows, view, same_len=False):
    """-> (base_rows, [index, ...]) such that base[index0][index1].. has exactly `rows`, in order, and is a view of base.
    Decoy rows / letters are what a stale offset would pick up; same_len: decoy rows as long as the rows (2-D input)."""
    import numpy as np
    A, n = len(alph), len(rows)

    def d(i):
        L = len(rows[0]) if same_len else _DECOY_LEN[i % 5] + i // 5
        return "".join(alph[(i * 5 + j * 3 + (j * j) // 2 + 1) % A] for j in range(L))

    def left(r, i, m=1):       # m letters in front, the last of them differs from the row's first letter
        out = ""
        for t in range(m):
            ref = alph.index(r[0]) if r else i
            out = alph[(ref + 1 + (i + t) % (A - 1)) % A] + out
        return out + r

    def right(r, i):
        ref = alph.index(r[-1]) if r else i
        return r + alph[(ref + 1 + i % (A - 1)) % A]

    S = slice
    order = [1 + (j - 1) % n for j in range(n)]     # row j of the view sits at base row 1 + (j-1) % n
    rot = lambda lst: [lst[(i + 1) % n] for i in range(n)]
    if view == "rev":
        return rows[::-1], [S(None, None, -1)]
    if view == "order":
        return [d(0)] + rot(rows), [np.array(order)]
    if view == "dup":
        assert n >= 2 and rows[-1] == rows[0]
        return rows[:-1] + [d(0)], [list(range(n - 1)) + [0]]
    if view == "mask":
        base, mask = [], []
        for j, r in enumerate(rows):
            if j % 2 == 0:
                base.append(d(j)), mask.append(False)
            base.append(r), mask.append(True)
        base.append(d(n)), mask.append(False)
        return base, [np.array(mask)]
    if view == "tail":
        return [d(0)] + rows, [S(1, None)]
    if view == "head":
        return rows + [d(0)], [S(None, -1)]
    if view == "mid":
        return [d(0)] + rows + [d(1)], [S(1, -1)]
    if view == "step":
        return [x for j, r in enumerate(rows) for x in (r, d(j))], [S(None, None, 2)]
    if view == "tail-rev":
        return [d(0)] + rows[::-1], [S(1, None), S(None, None, -1)]
    if view == "col-left":
        return [left(r, i) for i, r in enumerate(rows)], [(S(None), S(1, None))]
    if view == "col-left2":
        return [left(r, i, 2) for i, r in enumerate(rows)], [(S(None), S(2, None))]
    if view == "col-right":
        return [right(r, i) for i, r in enumerate(rows)], [(S(None), S(None, -1))]
    if view == "col-both":
        return [right(left(r, i), i) for i, r in enumerate(rows)], [(S(None), S(1, -1))]
    if view == "rev+col-left":
        return [left(r, i) for i, r in enumerate(rows)][::-1], [S(None, None, -1), (S(None), S(1, None))]
    if view == "tail+col-right":
        return [right(d(0), 7)] + [right(r, i) for i, r in enumerate(rows)], [(S(1, None), S(None, -1))]
    if view == "col-left+order":
        return [left(d(0), 7)] + rot([left(r, i) for i, r in enumerate(rows)]), [(S(None), S(1, None)), np.array(order)]
    raise ValueError(view)


def view_tag(view):
    return ":view" if view else ""


def build(alph, rows, kind="ragged", text=False, view=None):
    """rows: list of str over alph.  kind: ragged | flat (one row, 1-D EncodedArray) | 2d (equal lengths, 2-D EncodedArray).
    view: None = freshly built contiguous array; else the rows as an unflattened view of a larger array (see view_recipe)"""
    import numpy as np
    from bionumpy.encoded_array import EncodedArray, EncodedRaggedArray, BaseEncoding
    if view is not None:
        if kind == "flat":
            r = rows[0]
            dec = "".join(alph[(i * 3 + 1) % len(alph)] for i in range(len(r) + 2))
            if view == "step":
                base, idx = "".join(a + b for a, b in zip(r, dec)), slice(None, None, 2)
            else:
                base, idx = {"rev": (r[::-1], slice(None, None, -1)), "tail": (dec[:2] + r, slice(2, None)),
                             "head": (r + dec[:2], slice(None, -2)), "mid": (dec[:1] + r + dec[:2], slice(1, -2))}[view]
            res = build(alph, [base], "flat", text)[idx]
            assert len(res) == len(r)
            return res
        base_rows, idxs = view_recipe(alph, rows, view, same_len=(kind == "2d"))
        res = build(alph, base_rows, kind, text)
        for idx in idxs:
            res = res[idx]
        if kind == "ragged":
            # lengths are read from the view's own bookkeeping: this does not flatten it
            assert not res.is_contigous and res.lengths.tolist() == [len(r) for r in rows], (view, rows, res.lengths)
        else:
            assert res.shape == (len(rows), len(rows[0])), (view, rows, res.shape)
        return res
    if text:
        enc = BaseEncoding
        flat = np.frombuffer("".join(rows).encode(), dtype=np.uint8).copy()
    else:
        enc = enc_of(alph)
        flat = np.array([alph.index(c) for c in "".join(rows)], dtype=np.uint8)
    if kind == "flat":
        assert len(rows) == 1
        return EncodedArray(flat, enc)
    if kind == "2d":
        assert len(set(len(r) for r in rows)) == 1
        return EncodedArray(flat.reshape(len(rows), len(rows[0])), enc)
    return EncodedRaggedArray(EncodedArray(flat, enc), np.array([len(r) for r in rows], dtype=int))


_VIEW_SEEN = set()


def view_input(alph, rows, kind, text, view):
    """the input for a case; for a view the FIRST case of every (view, kind, text, |A|, lengths) also checks, on a twin that is
    not passed on, that the view really holds the wanted rows (guards the generator and the indexing it relies on)"""
    if view is not None:
        key = (view, kind, text, len(alph), tuple(len(r) for r in rows))
        if key not in _VIEW_SEEN:
            _VIEW_SEEN.add(key)
            twin = build(alph, rows, kind, text, view)
            fresh = build(alph, rows, kind, text)
            a, b = twin.raw().tolist(), fresh.raw().tolist()
            assert a == b, ("view generator broken", view, kind, rows, a, b)
    return build(alph, rows, kind, text, view)


def rows_of(res, kind):
    """library result (ragged / 1-D / 2-D, encoded or plain) -> list of python lists"""
    raw = res.raw() if hasattr(res, "raw") else res
    lst = raw.tolist()
    if kind == "flat":
        return [lst]
    return [list(r) for r in lst]


def kind_tag(kind):
    return "" if kind == "ragged" else ":" + {"flat": "flat1d", "2d": "array2d"}[kind]


def close(a, b):
    if isinstance(a, bool) or isinstance(b, bool):
        return a == b
    if isinstance(a, float) or isinstance(b, float):
        if math.isinf(a) or math.isinf(b) or math.isnan(a) or math.isnan(b):
            return a == b
        return math.isclose(a, b, rel_tol=1e-9, abs_tol=1e-9)
    return a == b


def w1sig(sig):
    """at w = 1 the known symptom (every row empty) is one finding per function, whatever the input kind / encoding"""
    ren = {"ascii-to-dna": "bitpacked", "generic-rolling": "generic"}
    return ":".join(ren.get(p, p) for p in sig.split(":") if p not in ("flat1d", "array2d", "ragged", "ascii", "alphabet", "view"))


def compare(col, sig, case, got, exp, lengths, w):
    """row-wise comparison; the failure class (row count / row lengths / values) goes into the signature"""
    if w == 1 and got != exp and len(got) == len(exp) and all(len(g) == 0 for g in got):
        col.fail(w1sig(sig) + ":w=1:all-rows-empty", case, "w=1 got %r expected %r" % (got, exp))
        return False
    if len(got) != len(exp):
        kind = "row-count"
    elif [len(g) for g in got] != [len(e) for e in exp]:
        bad = [i for i in range(len(exp)) if len(got[i]) != len(exp[i])]
        kind = "row-lengths:short-rows-only" if all(lengths[i] < w for i in bad) else "row-lengths"
    elif all(close(a, b) for g, e in zip(got, exp) for a, b in zip(g, e)):
        return True
    else:
        kind = "wrong-value"
    col.fail("%s:%s%s" % (sig, kind, ":w=1" if w == 1 else ""), case, "w=%d got %r expected %r" % (w, got, exp))
    return False


# ----------------------------------------------------------------------------------------------- contracts
def check_kmers(col, alph, rows, k, path="api", kind="ragged", render=True, view=None):
    """path: api (bnp get_kmers: bit-packed for |A|=4, generic otherwise) | rolling (KmerEncoder.rolling_window) |
    text (get_kmers on ASCII text, converted to DNA by the function)"""
    from bionumpy.sequence import get_kmers
    from bionumpy.sequence.kmers import KmerEncoder
    from bionumpy.encodings.kmer_encodings import KmerEncoding
    A = len(alph)
    case = {"fn": "kmers", "alph": alph, "rows": rows, "k": k, "path": path, "kind": kind}
    if view:
        case["view"] = view
    pname = {"api": "bitpacked" if A == 4 else "generic", "rolling": "generic-rolling", "text": "ascii-to-dna"}[path]
    sig = "get_kmers:%s%s%s" % (pname, kind_tag(kind), view_tag(view))
    col.case(case, contract="get_kmers:" + pname + view_tag(view))
    seqs = view_input(alph, rows, kind, path == "text", view)
    if path == "rolling":
        res = col.guarded(lambda: KmerEncoder(k, enc_of(alph)).rolling_window(seqs), sig + (":w=1" if k == 1 else ""), case)
    else:
        res = col.guarded(lambda: get_kmers(seqs, k), sig + (":w=1" if k == 1 else ""), case)
    if res is None:
        return
    irows = idx_rows(rows, alph)
    exp = o_kmers(irows, A, k)
    got = col.guarded(lambda: rows_of(res, kind), sig + ":unreadable-result", case)
    if got is None:
        return
    ok = compare(col, sig, case, got, exp, [len(r) for r in rows], k)
    col.check(res.encoding == KmerEncoding(enc_of(alph), k), sig + ":wrong-result-encoding", case, "encoding %r" % (res.encoding,))
    if ok and render:
        codes = sorted(set(c for r in exp for c in r))
        if len(codes) > 12:
            codes = codes[:4] + codes[len(codes) // 2 - 2:len(codes) // 2 + 2] + codes[-4:]
        import numpy as np
        for c in codes:
            t = col.guarded(lambda: res.encoding.to_string(np.int64(c)), sig + ":render", case)
            if t is not None:
                col.check(t == o_text(c, alph, k), "kmer-render:%s:wrong-text" % ("shift-mask" if A == 4 else "div-mod"), case,
                          "code %d rendered %r expected %r" % (c, t, o_text(c, alph, k)))


def check_kmer_codec(col, alph, k, texts):
    """KmerEncoding.encode(text) == little-endian number; to_string(code) == text; KmerEncoder.inverse(code) == letters"""
    import numpy as np
    from bionumpy.encodings.kmer_encodings import KmerEncoding
    from bionumpy.sequence.kmers import KmerEncoder
    A = len(alph)
    case = {"fn": "codec", "alph": alph, "k": k, "texts": texts}
    col.case(case, contract="KmerEncoding.encode/to_string")
    ke = KmerEncoding(enc_of(alph), k)
    pth = "shift-mask" if A == 4 else "div-mod"
    codes = [o_code([alph.index(c) for c in t], A) for t in texts]
    for t, c in zip(texts, codes):
        g = col.guarded(lambda: int(ke.encode(t).raw()), "kmer-encode:str", case)
        if g is not None:
            col.check(g == c, "kmer-encode:str:wrong-code", case, "encode(%r) = %d expected %d" % (t, g, c))
        for val, tn in ((c, "pyint"), (np.int64(c), "int64")):
            s = col.guarded(lambda: ke.to_string(val), "kmer-render:%s:%s" % (pth, tn), case)
            if s is not None:
                col.check(s == t, "kmer-render:%s:wrong-text" % pth, case, "to_string(%d) = %r expected %r" % (c, s, t))
    g = col.guarded(lambda: [int(x) for x in ke.encode(list(texts)).raw().tolist()], "kmer-encode:list", case)
    if g is not None:
        col.check(g == codes, "kmer-encode:list:wrong-code", case, "got %r expected %r" % (g, codes))
    s = col.guarded(lambda: ke.to_string(np.array(codes, dtype=np.int64)), "kmer-render:%s:array" % pth, case)
    if s is not None:
        col.check(s == ",".join(texts), "kmer-render:%s:wrong-text" % pth, case, "array rendering %r expected %r" % (s, ",".join(texts)))
    inv = col.guarded(lambda: KmerEncoder(k, enc_of(alph)).inverse(np.array(codes, dtype=np.int64)).raw().tolist(), "kmer-inverse", case)
    if inv is not None:
        e = [[alph.index(c) for c in t] for t in texts]
        col.check([list(r) for r in inv] == e, "kmer-inverse:wrong-letters", case, "got %r expected %r" % (inv, e))
    # the encoder itself on a k-column matrix
    enc = col.guarded(lambda: KmerEncoder(k, enc_of(alph))(build(alph, list(texts), "2d")).raw().tolist(), "kmer-encoder-call", case)
    if enc is not None:
        col.check([int(x) for x in enc] == codes, "kmer-encoder-call:wrong-code", case, "got %r expected %r" % (enc, codes))


def check_minimizers(col, alph, rows, k, w, kind="ragged", view=None):
    from bionumpy.sequence import get_minimizers
    from bionumpy.encodings.kmer_encodings import KmerEncoding
    A = len(alph)
    case = {"fn": "minimizers", "alph": alph, "rows": rows, "k": k, "w": w, "kind": kind}
    if view:
        case["view"] = view
    sig = "get_minimizers%s%s" % (kind_tag(kind), view_tag(view))
    col.case(case, contract="get_minimizers" + view_tag(view))
    seqs = view_input(alph, rows, kind, False, view)
    res = col.guarded(lambda: get_minimizers(seqs, k, w), "get_minimizers:k=1" if k == 1 else sig, case)
    if res is None:
        return
    got = col.guarded(lambda: rows_of(res, kind), sig + ":unreadable-result", case)
    if got is None:
        return
    exp = o_minimizers(idx_rows(rows, alph), A, k, w)
    if k == 1:
        sig += ":k=1"
    compare(col, sig, case, got, exp, [len(r) for r in rows], w)
    col.check(res.encoding == KmerEncoding(enc_of(alph), k), sig + ":wrong-result-encoding", case, "encoding %r" % (res.encoding,))


def check_match(col, alph, rows, pat, text, kind="ragged", pat_as="str", view=None):
    import bionumpy as bnp
    case = {"fn": "match", "alph": alph, "rows": rows, "pat": pat, "text": text, "kind": kind, "pat_as": pat_as}
    if view:
        case["view"] = view
    sig = "match_string:%s%s%s" % ("ascii" if text else "alphabet", kind_tag(kind), view_tag(view))
    col.case(case, contract="match_string" + view_tag(view))
    seqs = view_input(alph, rows, kind, text, view)
    p = pat if pat_as == "str" else build(alph, [pat], "flat", text=text)
    res = col.guarded(lambda: bnp.match_string(seqs, p), sig + (":w=1" if len(pat) == 1 else ""), case)
    if res is None:
        return
    got = col.guarded(lambda: [[bool(x) for x in r] for r in rows_of(res, kind)], sig + ":unreadable-result", case)
    if got is None:
        return
    compare(col, sig, case, got, o_match(rows, pat), [len(r) for r in rows], len(pat))


def make_matrix(A, w, style):
    """style digits: M[a][j] = (a+1)*(A+1)**j, every window has its own exact score (needs (A+1)**w < 2**52);
    ints: small pseudo-random integers (exact sums); floats: non-dyadic values with -inf entries (tolerance compare)"""
    if style == "digits" and (A + 1) ** w < 2 ** 52:
        return [[float((a + 1) * (A + 1) ** j) for j in range(w)] for a in range(A)]
    if style == "floats":
        return [[(-math.inf if (a * 5 + j * 3) % 7 == 0 else 0.1 * ((a * 7 + j * 11) % 13) - 0.35) for j in range(w)] for a in range(A)]
    return [[float((a * 7 + j * 3 + (a * j) % 5) % 11 - 4) for j in range(w)] for a in range(A)]


def check_motif(col, alph, rows, w, style, text=False, kind="ragged", old=False, view=None):
    import numpy as np
    from bionumpy.sequence.position_weight_matrix import PWM, get_motif_scores, get_motif_scores_old
    A = len(alph)
    M = make_matrix(A, w, style)
    case = {"fn": "motif", "alph": alph, "rows": rows, "w": w, "style": style, "text": text, "kind": kind, "old": old}
    if view:
        case["view"] = view
    sig = "%s%s%s%s" % ("motif_scores_rolling" if old else "get_motif_scores", ":ascii" if text else "", kind_tag(kind), view_tag(view))
    col.case(case, contract=("motif_scores_rolling" if old else "get_motif_scores") + view_tag(view))
    seqs = view_input(alph, rows, kind, text, view)
    pwm = PWM(np.array(M, dtype=float), alph)
    f = get_motif_scores_old if old else get_motif_scores
    res = col.guarded(lambda: f(seqs, pwm), sig + (":w=1" if w == 1 else ""), case)
    if res is None:
        return
    got = col.guarded(lambda: [[float(x) for x in r] for r in rows_of(res, kind)], sig + ":unreadable-result", case)
    if got is None:
        return
    compare(col, sig, case, got, o_motif(idx_rows(rows, alph), M), [len(r) for r in rows], w)


_LABELS_OK = {}


def check_counts(col, alph, rows, k, axis, view=None, text=False):
    from bionumpy.sequence import count_kmers
    A = len(alph)
    case = {"fn": "counts", "alph": alph, "rows": rows, "k": k, "axis": axis}
    if view:
        case["view"] = view
    if text:
        case["text"] = True
    sig = "count_kmers:%s%s" % ("all" if axis is None else "per-row", view_tag(view))
    col.case(case, contract="count_kmers" + view_tag(view))
    seqs = view_input(alph, rows, "ragged", text, view)
    res = col.guarded(lambda: count_kmers(seqs, k, axis=axis), sig + (":w=1" if k == 1 else ""), case)
    if res is None:
        return
    kr = o_kmers(idx_rows(rows, alph), A, k)
    if axis is None:
        exp = [0] * A ** k
        for r in kr:
            for c in r:
                exp[c] += 1
        got = col.guarded(lambda: [int(x) for x in res.counts.tolist()], sig + ":unreadable-result", case)
    else:
        exp = []
        for r in kr:
            e = [0] * A ** k
            for c in r:
                e[c] += 1
            exp.append(e)
        got = col.guarded(lambda: [[int(x) for x in r] for r in res.counts.tolist()], sig + ":unreadable-result", case)
    if got is None:
        return
    if k == 1 and got != exp and not any(x for r in (got if axis is not None else [got]) for x in r):
        col.fail("count_kmers:w=1:all-counts-zero", case, "got %r expected %r" % (got, exp))
        return
    if not col.check(got == exp, sig + ":wrong-counts" + (":w=1" if k == 1 else ""), case, "got %r expected %r" % (got, exp)):
        return
    labels = list(res.alphabet)
    e = [o_text(c, alph, k) for c in range(A ** k)]
    col.check(labels == e, "count_kmers:labels-differ-from-kmer-text", case, "got %r expected %r" % (labels[:20], e[:20]))
    # lookup by text (EncodedCounts.__getitem__)
    if axis is None and kr and any(kr):
        c = next(c for r in kr for c in r)
        g = col.guarded(lambda: int(res[o_text(c, alph, k)]), sig + ":lookup", case)
        if g is not None:
            col.check(g == exp[c], sig + ":lookup-wrong-count", case, "res[%r] = %d expected %d" % (o_text(c, alph, k), g, exp[c]))


# ---- scale: counting runs over the flat window array in blocks of about a million windows
def big_lengths(layout, k, windows):
    """row lengths with exactly `windows` windows of size k in total.  long: a few very long rows between short / empty ones;
    reads: thousands of rows of 0..150 letters (rows shorter than k, of k-1, k, k+1 letters among them), short last row"""
    nwin = lambda L: max(L - k + 1, 0)
    if layout == "long":
        lens = [k - 1, 300001, 0, 1, k, 400007, k + 1]
    else:
        lens, tot, i = [], 0, 0
        while windows - tot > 400:
            L = (0, k - 1, k, k + 1, 1)[(i // 13) % 5] if i % 13 == 0 else 20 + (i * 37 + (i * i) // 7) % 131
            lens.append(L)
            tot += nwin(L)
            i += 1
    rest = windows - sum(nwin(L) for L in lens)
    assert rest > 0
    lens += [rest + k - 1, 0, k - 1]
    assert sum(nwin(L) for L in lens) == windows
    return lens


def big_letters(n, A, salt):
    """n deterministic pseudo-random letters 0..A-1 (64-bit LCG of the position), numpy uint8"""
    import numpy as np
    i = np.arange(n, dtype=np.uint64) + np.uint64(salt * 7919)
    x = (i * np.uint64(6364136223846793005) + np.uint64(1442695040888963407)) >> np.uint64(33)
    x = (x * np.uint64(2862933555777941757) + np.uint64(3037000493)) >> np.uint64(35)
    return (x % np.uint64(A)).astype(np.uint8)


def check_big_counts(col, alph, layout, windows, k, axis, view=None, text=False, salt=0):
    """count_kmers where the number of windows is around the block size of the counting loop (1,000,000).
    Oracle: codes computed here from the letters (sum letter*A**j over explicit shifted slices), windows kept only when first and
    last letter lie in the same row, np.bincount of those; the window total is cross-checked against sum(max(L-k+1, 0))."""
    import numpy as np
    from bionumpy.sequence import count_kmers
    from bionumpy.encoded_array import EncodedArray, EncodedRaggedArray, BaseEncoding
    A = len(alph)
    case = {"fn": "bigcounts", "alph": alph, "layout": layout, "windows": windows, "k": k, "axis": axis, "salt": salt}
    if view:
        case["view"] = view
    if text:
        case["text"] = True
    sig = "count_kmers:%s:large%s" % ("all" if axis is None else "per-row", view_tag(view))
    col.case(case, contract="count_kmers:large" + view_tag(view))
    lens = np.array(big_lengths(layout, k, windows), dtype=np.int64)
    n, nrows = int(lens.sum()), len(lens)
    letters = big_letters(n, A, salt)
    # ---- oracle
    m = n - k + 1
    code = np.zeros(m, dtype=np.int64)
    for j in range(k):
        code += letters[j:j + m].astype(np.int64) * (A ** j)
    row_id = np.repeat(np.arange(nrows), lens)
    valid = row_id[:m] == row_id[k - 1:]
    assert int(valid.sum()) == windows
    if axis is None:
        exp = np.bincount(code[valid], minlength=A ** k)
    else:
        exp = np.bincount(row_id[:m][valid] * (A ** k) + code[valid], minlength=nrows * A ** k).reshape(nrows, A ** k)
    # ---- input: contiguous, or an unflattened view (rows as base[:-1] / base[::-1] / base[:, 1:] of a larger array)
    codes8 = np.frombuffer(alph.encode(), dtype=np.uint8)[letters] if text else letters
    enc = BaseEncoding if text else enc_of(alph)
    if view is None:
        seqs = EncodedRaggedArray(EncodedArray(codes8.copy(), enc), lens)
    else:
        starts = np.cumsum(lens) - lens
        extra = np.frombuffer(alph.encode(), dtype=np.uint8)[:3] if text else np.arange(3, dtype=np.uint8) % A
        if view == "head":
            base = EncodedRaggedArray(EncodedArray(np.concatenate([codes8, extra]), enc), np.append(lens, 3))
            seqs = base[:-1]
        elif view == "rev":
            order = np.arange(nrows)[::-1]
            idx = np.repeat(starts[order] - (np.cumsum(lens[order]) - lens[order]), lens[order]) + np.arange(n)
            base = EncodedRaggedArray(EncodedArray(codes8[idx], enc), lens[order])
            seqs = base[::-1]
        elif view == "col-left":
            data = np.insert(codes8, starts, extra[(np.arange(nrows) % 3)])
            base = EncodedRaggedArray(EncodedArray(data, enc), lens + 1)
            seqs = base[:, 1:]
        else:
            raise ValueError(view)
        assert not seqs.is_contigous and np.array_equal(seqs.lengths, lens)
    res = col.guarded(lambda: count_kmers(seqs, k, axis=axis), sig, case)
    if res is None:
        return
    got = col.guarded(lambda: np.asarray(res.counts), sig + ":unreadable-result", case)
    if got is None:
        return
    if not col.check(got.shape == exp.shape, sig + ":wrong-shape", case, "counts shape %r expected %r" % (got.shape, exp.shape)):
        return
    if not col.check(int(got.sum()) == windows, sig + ":wrong-total", case,
                     "%d windows counted, the input has %d (rows: %d, letters: %d)" % (int(got.sum()), windows, nrows, n)):
        return
    bad = np.argwhere(got != exp)
    col.check(len(bad) == 0, sig + ":wrong-counts", case, "%d cells differ, first at %r: got %r expected %r"
              % (len(bad), bad[:1].tolist(), got[tuple(bad[0])] if len(bad) else None, exp[tuple(bad[0])] if len(bad) else None))
    labels = list(res.alphabet)
    e = [o_text(c, alph, k) for c in range(A ** k)]
    col.check(labels == e, "count_kmers:labels-differ-from-kmer-text", case, "got %r expected %r" % (labels[:20], e[:20]))


# ---- scale for the rolling functions: the number of windows over the CONCATENATED rows (what the flatten-convolve-rewrap scheme
# actually iterates over) is an exact multiple of a power-of-two block size, or just next to one
BIG_SIG = {"kmers": "get_kmers:%s:large", "kmers-rolling": "get_kmers:generic-rolling:large", "minimizers": "get_minimizers:large",
           "match": "match_string:alphabet:large", "match-ascii": "match_string:ascii:large", "motif": "get_motif_scores:large",
           "motif-old": "motif_scores_rolling:large"}


def total_lengths(layout, w, n):
    """row lengths with exactly n letters in total.  one: a single row; long: a few very long rows between short / empty ones;
    reads: rows of 0..150 letters (rows shorter than w, of w-1, w, w+1 letters among them); every layout ends with a short row"""
    if layout == "one":
        return [n]
    if layout == "long":
        lens = [w - 1, n // 3 + 11, 0, 1, w, n // 4 + 7, w + 1]
    else:
        lens, tot, i = [], 0, 0
        while n - tot > 400:
            L = (0, w - 1, w, w + 1, 1)[(i // 13) % 5] if i % 13 == 0 else 20 + (i * 37 + (i * i) // 7) % 131
            lens.append(L)
            tot += L
            i += 1
    rest = n - sum(lens) - (w - 1)
    assert rest > 0
    lens += [rest, 0, w - 1]
    assert sum(lens) == n
    return lens


def check_big_rolling(col, fn, alph, layout, N, align, w, k=None, salt=0):
    """one rolling function on an input whose size is tied to N (a multiple of a power of two, or next to one):
    align = windows: N windows of the function's size w over the concatenation (n = N + w - 1 letters);
    letters: n = N letters; kmers (minimizers): N k-mers over the concatenation (n = N + k - 1).
    Oracle: values computed here from the letters by explicit shifted slices; a window is kept only when its first and last letter lie
    in the same row; expected row r has max(L_r - w + 1, 0) values - compared as (row lengths, flat values in row order)."""
    import numpy as np
    import bionumpy as bnp
    from bionumpy.sequence import get_kmers, get_minimizers
    from bionumpy.sequence.kmers import KmerEncoder
    from bionumpy.sequence.position_weight_matrix import PWM, get_motif_scores, get_motif_scores_old
    from bionumpy.encoded_array import EncodedArray, EncodedRaggedArray, BaseEncoding
    A = len(alph)
    case = {"fn": "bigroll", "f": fn, "alph": alph, "layout": layout, "N": N, "align": align, "w": w, "k": k, "salt": salt}
    sig = BIG_SIG[fn]
    if fn == "kmers":
        sig = sig % ("bitpacked" if A == 4 else "generic")
    col.case(case, contract=sig)
    n = {"windows": N + w - 1, "letters": N, "kmers": N + (k or w) - 1}[align]
    lens = np.array(total_lengths(layout, w, n), dtype=np.int64)
    nrows = len(lens)
    letters = big_letters(n, A, salt)
    m = n - w + 1
    row_id = np.repeat(np.arange(nrows), lens)
    valid = row_id[:m] == row_id[w - 1:]
    exp_lens = np.maximum(lens - w + 1, 0)
    assert int(valid.sum()) == int(exp_lens.sum())

    def codes(kk):
        mm = n - kk + 1
        c = np.zeros(mm, dtype=np.int64)
        for j in range(kk):
            c += letters[j:j + mm].astype(np.int64) * (A ** j)
        return c

    text = fn == "match-ascii"
    codes8 = np.frombuffer(alph.encode(), dtype=np.uint8)[letters] if text else letters.copy()
    seqs = EncodedRaggedArray(EncodedArray(codes8, BaseEncoding if text else enc_of(alph)), lens)
    if fn in ("kmers", "kmers-rolling"):
        exp = codes(w)
        call = (lambda: get_kmers(seqs, w)) if fn == "kmers" else (lambda: KmerEncoder(w, enc_of(alph)).rolling_window(seqs))
    elif fn == "minimizers":
        c = codes(k)
        exp = c[:m].copy()
        for j in range(1, w - k + 1):
            exp = np.minimum(exp, c[j:j + m])
        call = lambda: get_minimizers(seqs, k, w)
    elif fn in ("match", "match-ascii"):
        p0 = int(lens[0] + lens[1] // 2) if layout == "long" else n // 2     # long: a window inside a long row
        pat = letters[p0:p0 + w]
        exp = np.ones(m, dtype=bool)
        for j in range(w):
            exp &= letters[j:j + m] == pat[j]
        case["pattern_at"] = p0
        call = lambda: bnp.match_string(seqs, "".join(alph[i] for i in pat))
    else:
        M = np.array(make_matrix(A, w, "ints"), dtype=float)       # small integers: sums are exact in any order
        exp = np.zeros(m, dtype=float)
        for j in range(w):
            exp += M[letters[j:j + m], j]
        pwm = PWM(M.copy(), alph)
        call = (lambda: get_motif_scores(seqs, pwm)) if fn == "motif" else (lambda: get_motif_scores_old(seqs, pwm))
    exp = exp[valid]
    res = col.guarded(call, sig, case)
    if res is None:
        return

    def read():
        flat = res.ravel()
        return np.asarray(res.lengths).astype(np.int64), np.asarray(flat.raw() if hasattr(flat, "raw") else flat)
    got = col.guarded(read, sig + ":unreadable-result", case)
    if got is None:
        return
    got_lens, got_flat = got
    if not col.check(len(got_lens) == nrows, sig + ":row-count", case, "%d rows, the input has %d" % (len(got_lens), nrows)):
        return
    bad = np.flatnonzero(got_lens != exp_lens)
    if not col.check(len(bad) == 0, sig + ":row-lengths", case, "%d rows with a wrong number of values, first: row %r (%r letters) has %r, expected %r (w=%d)"
                     % (len(bad), bad[:1].tolist(), lens[bad[:1]].tolist(), got_lens[bad[:1]].tolist(), exp_lens[bad[:1]].tolist(), w)):
        return
    bad = np.flatnonzero(got_flat != exp) if got_flat.shape == exp.shape else np.arange(1)
    col.check(len(bad) == 0, sig + ":wrong-value", case, "%d of %d values differ from the per-row definition, first at flat position %r: got %r expected %r"
              % (len(bad), exp.size, bad[:1].tolist(), got_flat[bad[:1]].tolist() if got_flat.shape == exp.shape else got_flat.shape,
                 exp[bad[:1]].tolist()))


# ---- histories on ONE scorer object: results handed out earlier must stay valid after later calls on the same object
HIST_SIG = {"pwm-api": "get_motif_scores", "pwm-old": "motif_scores_rolling", "pwm-rolling": "PositionWeightMatrix.rolling_window",
            "pwm-flat": "PWM.calculate_scores", "kmer-encoder": "KmerEncoder.rolling_window", "minimizers": "Minimizers.rolling_window",
            "matcher": "StringMatcher.rolling_window", "api-kmers": "get_kmers", "api-match": "match_string",
            "api-minimizers": "get_minimizers", "api-counts": "count_kmers"}
HIST_OBJECTS = ["pwm-api", "kmer-encoder", "pwm-flat", "matcher", "pwm-old", "minimizers", "pwm-rolling", "api-kmers", "api-match",
                "api-minimizers", "api-counts"]
HISTORIES = ["strands", "relayout", "sizes", "strands3", "again"]


def shift_rows(rows, alph, by=1):
    return ["".join(alph[(alph.index(c) + by) % len(alph)] for c in r) for r in rows]


def rc_rows(rows, alph):
    """the other strand of every read: reversed, letter i of the alphabet <-> letter |A|-1-i (A<->T, C<->G for ACGT)"""
    return ["".join(alph[len(alph) - 1 - alph.index(c)] for c in reversed(r)) for r in rows]


def history_steps(alph, rows, hist, w, kind):
    """the inputs one object sees, in order.  strands: the reads, then their other strand (same row lengths); strands3: and the reads
    again; again: the same input twice; relayout (ragged): other reads with the same TOTAL number of letters but other row lengths;
    sizes: an input one letter (2-D: one column) shorter in between two inputs of the same size.  Every step keeps total >= w."""
    rc = rc_rows(rows, alph)
    if hist == "strands":
        return [rows, rc]
    if hist == "strands3":
        return [rows, rc, list(rows)]
    if hist == "again":
        return [rows, list(rows)]
    other = shift_rows(rows, alph)
    if hist == "sizes":
        if kind == "2d":
            shorter = [r[:-1] for r in rows]
            okay = len(rows[0]) - 1 >= max(w, 1)
        else:
            last = max(i for i, r in enumerate(rows) if r)
            shorter = [r[:-1] if i == last else r for i, r in enumerate(rows)]
            okay = sum(len(r) for r in shorter) >= w
        return [rows, shorter, other] if okay else [rows, other]
    assert hist == "relayout" and kind == "ragged"
    lens = [len(r) for r in rows]
    new = lens[1:] + lens[:1]
    if new == lens:
        if len(lens) == 1:
            new = [lens[0] // 2, lens[0] - lens[0] // 2]
        elif lens[-1] > 0:
            new = [lens[0] + 1] + lens[1:-1] + [lens[-1] - 1]
        else:
            new = lens + [0]
    flat = "".join(rc_rows(other, alph))
    cut, p = [], 0
    for L in new:
        cut.append(flat[p:p + L])
        p += L
    assert p == len(flat)
    return [rows, cut]


def check_history(col, obj, hist, alph, rows, w, k=None, kind="ragged", text=False, style="digits"):
    """ONE object (PWM / PositionWeightMatrix / KmerEncoder / Minimizers / StringMatcher; api-*: the module-level function) scores the
    inputs of history_steps one after the other; the library's result objects are kept as they are (no copy).  After every call every
    result obtained so far must equal the per-row definition on ITS input, and every input must still hold its letters."""
    import numpy as np
    import bionumpy as bnp
    from bionumpy.sequence import get_kmers, get_minimizers, count_kmers
    from bionumpy.sequence.kmers import KmerEncoder
    from bionumpy.sequence.minimizers import Minimizers
    from bionumpy.sequence.string_matcher import StringMatcher
    from bionumpy.sequence.position_weight_matrix import PWM, PositionWeightMatrix, get_motif_scores, get_motif_scores_old
    A = len(alph)
    case = {"fn": "history", "obj": obj, "hist": hist, "alph": alph, "rows": rows, "w": w, "k": k, "kind": kind, "text": text, "style": style}
    sig = HIST_SIG[obj] + ":history"
    col.case(case, contract=sig)
    steps = history_steps(alph, rows, hist, w, kind)
    enc = enc_of(alph)
    fl = lambda res: [[float(x) for x in r] for r in rows_of(res, kind)]
    it = lambda res: [[int(x) for x in r] for r in rows_of(res, kind)]
    if obj.startswith("pwm"):
        M = make_matrix(A, w, style)
        pwm = PWM(np.array(M, dtype=float), alph)
        oracle = lambda rr: o_motif(idx_rows(rr, alph), M)
        read = fl
        if obj == "pwm-api":
            call = lambda s: get_motif_scores(s, pwm)
        elif obj == "pwm-old":
            call = lambda s: get_motif_scores_old(s, pwm)
        elif obj == "pwm-rolling":
            roller = PositionWeightMatrix(pwm)
            call = lambda s: roller.rolling_window(s)
        else:
            assert kind == "flat"
            call = lambda s: pwm.calculate_scores(s)
            read = lambda res: [[float(x) for x in res[:max(len(res) - w + 1, 0)]]]      # the entries of the windows inside the sequence
    elif obj in ("kmer-encoder", "api-kmers"):
        oracle = lambda rr: o_kmers(idx_rows(rr, alph), A, w)
        read = it
        if obj == "kmer-encoder":
            encoder = KmerEncoder(w, enc)
            call = lambda s: encoder.rolling_window(s)
        else:
            call = lambda s: get_kmers(s, w)
    elif obj in ("minimizers", "api-minimizers"):
        oracle = lambda rr: o_minimizers(idx_rows(rr, alph), A, k, w)
        read = it
        if obj == "minimizers":
            mini = Minimizers(w - k + 1, KmerEncoder(k, enc))
            call = lambda s: mini.rolling_window(s)
        else:
            call = lambda s: get_minimizers(s, k, w)
    elif obj in ("matcher", "api-match"):
        pat = (patterns_for(rows, w, alph, False) or [alph[0] * w])[0]
        case["pat"] = pat
        oracle = lambda rr: o_match(rr, pat)
        read = lambda res: [[bool(x) for x in r] for r in rows_of(res, kind)]
        if obj == "matcher":
            from bionumpy.encoded_array import BaseEncoding
            matcher = StringMatcher(pat, BaseEncoding if text else enc)
            call = lambda s: matcher.rolling_window(s)
        else:
            call = lambda s: bnp.match_string(s, pat)
    else:
        assert obj == "api-counts" and kind == "ragged"

        def oracle(rr):
            e = [0] * A ** w
            for r in o_kmers(idx_rows(rr, alph), A, w):
                for c in r:
                    e[c] += 1
            return [e]
        read = lambda res: [[int(x) for x in res.counts.tolist()]]
        call = lambda s: count_kmers(s, w)
    same = lambda g, e: len(g) == len(e) and all(len(a) == len(b) and all(close(x, y) for x, y in zip(a, b)) for a, b in zip(g, e))
    done = []
    for i, srows in enumerate(steps):
        inp = build(alph, srows, kind, text)
        before = inp.raw().tolist()
        res = col.guarded(lambda: call(inp), sig, case)
        if res is None:
            return
        done.append((res, oracle(srows), inp, before))
        for j, (r, e, s, b) in enumerate(done):
            g = col.guarded(lambda: read(r), sig + ":unreadable-result", case)
            if g is None:
                return
            if j == i:
                ok = col.check(same(g, e), sig + (":first-call-wrong" if i == 0 else ":later-call-wrong"), case,
                               "call %d of %r on %r: got %r expected %r" % (i, hist, srows, g, e))
            else:
                ok = col.check(same(g, e), sig + ":earlier-result-changed", case,
                               "the result of call %d (input %r) reads %r after call %d (input %r); it was and should be %r" % (j, steps[j], g, i, srows, e))
            ok = col.check(s.raw().tolist() == b, sig + ":input-modified", case, "input of call %d after call %d: %r, was %r" % (j, i, s.raw().tolist(), b)) and ok
            if not ok:
                return


def check_util_rolling(col, rows, w, kind, view=None):
    """bionumpy.util.rolling_window_function with f = weighted window sum (position-sensitive); values 1..8"""
    import numpy as np
    from npstructures import RaggedArray
    from bionumpy.util import rolling_window_function
    case = {"fn": "util", "rows": rows, "w": w, "kind": kind}
    if view:
        case["view"] = view
    sig = "util.rolling_window_function:%s" % ("ragged" if kind == "ragged" else "array2d")
    col.case(case, contract="util.rolling_window_function" + view_tag(view))
    f = rolling_window_function(lambda windows, ws: (windows * (10 ** np.arange(ws))).sum(axis=-1))
    mk = (lambda rr: RaggedArray([list(r) for r in rr])) if kind == "ragged" else (lambda rr: np.array(rr, dtype=int))
    if view:
        base, idxs = view_recipe("12345678", ["".join(str(v) for v in r) for r in rows], view, same_len=(kind != "ragged"))
        x = mk([[int(c) for c in r] for r in base])
        for idx in idxs:
            x = x[idx]
        assert (x.lengths.tolist() if kind == "ragged" else [x.shape[1]] * x.shape[0]) == [len(r) for r in rows]
    else:
        x = mk(rows)
    # (an exception keeps the untagged signature: the function fails on EVERY ragged input, view or not - one finding)
    res = col.guarded(lambda: f(x, w), sig + (":w=1" if w == 1 else ""), case)
    if res is None:
        return
    sig += view_tag(view)
    got = [[int(v) for v in r] for r in res.tolist()]
    exp = [[sum(r[i + j] * 10 ** j for j in range(w)) for i in range(len(r) - w + 1)] for r in rows]
    compare(col, sig, case, got, exp, [len(r) for r in rows], w)


# ----------------------------------------------------------------------------------------------- generators
def content(lengths, alph, salt, rng=None):
    """deterministic row contents (salt 0, 1) or seeded random ones (rng given)"""
    A = len(alph)
    rows, p = [], 0
    for L in lengths:
        if rng is not None:
            rows.append("".join(alph[rng.randrange(A)] for _ in range(L)))
        else:
            rows.append("".join(alph[((p + i) * (3 + 2 * salt) + ((p + i) * (p + i)) // 3 + salt + ((p + i) // 5)) % A] for i in range(L)))
        p += L
    return rows


def patterns_for(rows, w, alph, full):
    """patterns that occur inside rows, patterns that occur only across a row border, and one absent pattern"""
    flat = "".join(rows)
    inrow = []
    for r in rows:
        for i in range(len(r) - w + 1):
            if r[i:i + w] not in inrow:
                inrow.append(r[i:i + w])
    allw = []
    for i in range(len(flat) - w + 1):
        if flat[i:i + w] not in allw:
            allw.append(flat[i:i + w])
    cross = [p for p in allw if p not in inrow]
    out = []
    if full:
        out = list(allw)
    else:
        if inrow:
            out += [inrow[0], inrow[-1]]
        out += cross[:2]
    if allw:
        # near misses: an occurring window with its last / its first letter changed
        base = (inrow or allw)[0]
        out.append(base[:-1] + alph[(alph.index(base[-1]) + 1) % len(alph)])
        out.append(alph[(alph.index(base[0]) + 1) % len(alph)] + base[1:])
    res = []
    for p in out:
        if p not in res:
            res.append(p)
    return res


def long_layouts(w):
    """lengths with rows of w-1, w, w+1, 0, 1, long rows crossing 64-bit words of 2-bit letters, short last row"""
    a = [w + 1, w - 1, 0, w, 1, 2 * w + 1, w - 1, w, 33, 0, 64 + w, w + 2, max(w - 2, 0), w - 1]
    b = [w - 1, w, w, 0, 0, 31, w + 1, 1, 65, w - 1, w - 1, 32, w]
    return [a, b]


# ----------------------------------------------------------------------------------------------- run
def run(tier="quick", seed=0):
    quick = tier == "quick"
    Lmax = 4 if quick else 6
    wmax = 5 if quick else 7
    col = MinCollector("C13", tier, seed,
                    "A: every list of 1..3 rows with lengths 0..%d x every w/k 1..%d (minimizers: every k <= w) x content variants "
                    "(2 deterministic + 1 seeded) x alphabets/paths; B: all contents of 1..2 short rows over 2- and 4-letter alphabets; "
                    "C: long layouts for every k 1..31; D: flat 1-D and 2-D inputs; E: k-mer text<->code for every k; "
                    "V: the cases of A (content variant 0), A', C, D and the samples again with the same logical rows presented as an "
                    "unflattened view of a larger array (%d ragged view kinds: rows reversed / reordered / repeated / masked / sliced, columns "
                    "trimmed left / right / both, combinations; sliced 2-D and 1-D arrays), view kind cycling with (shape, w, alphabet) so that "
                    "every kind meets every function, path and window; F: count_kmers with the window total around the counting block size "
                    "(1e6, 2e6, 3e6: -1, +0, +1, +3/+5); G: the rolling functions (k-mers, minimizers, string match, motif scores) on inputs whose "
                    "number of windows / letters / k-mers over the concatenated rows is a multiple of 2**16 .. 2**21 or next to one; "
                    "H: histories - ONE scorer object (PWM, PositionWeightMatrix, KmerEncoder, Minimizers, StringMatcher, or the module-level "
                    "function) scores 2..3 inputs in a row (both strands of the same reads, other reads with the same total size, a different "
                    "size in between, the same input again): every result handed out earlier is re-read after every later call. "
                    "distinct = distinct (function, path, alphabet, rows, window, pattern/matrix); all non-trivial except all-rows-shorter-than-w "
                    "(kept: they exercise the 'none for a short sequence' clause)" % (Lmax, wmax, len(VIEWS)),
                    budget_s=(65 if quick else 630))
    col.bounds = {"A.rows": "1..3", "A.row_length": "0..%d" % Lmax, "A.w": "1..%d" % wmax, "A'.4rows": "lengths in {0,1,w-1,w,w+1}, w in %s" % ("{2}" if quick else "{2,3,4}"),
                  "sampling": "%d seeded cases: 4..6 rows, lengths 0..12, w 1..12" % (150 if quick else 3000),
                  "A.alphabets": {"get_kmers": ALPHABETS, "minimizers/match/motif/counts": ["ACGT", "ACG"]},
                  "B.exhaustive_contents": "AC: 1..2 rows (quick) / 1..3 rows (thorough) of length 0..3; ACGT: 1 row 0..4, 2 rows 0..2",
                  "C.k": "1..31 (capped so that |A|**k < 2**63), 2 layouts of 13-14 rows, total > 128 letters",
                  "D": "flat length 1..%d, 2-D 1..3 x 1..%d" % (Lmax + 2, Lmax), "E.k": "1..31, all texts if |A|**k <= 256 else 8 sampled + extremes",
                  "V.views": {"ragged": VIEWS, "2d": VIEWS_2D, "flat": VIEWS_FLAT, "per (shape, w, alphabet) in A": "1 (3-row shapes: every other (shape, w))" if quick else 2, "per (k, layout, alphabet) in C": "1 per k" if quick else 3,
                              "alphabets": ["ACGT (bit-packed, ascii->dna, generic-rolling)", "ACG (generic)", "all 7 in C"]},
                  "F.windows": "total windows in {1e6, 2e6} + {-1, 0, +1, +3|+5}, 3000001; k 1..3; ACGT / ACG / ACGTN; layouts: 10 rows with "
                               "300k-1.3M-letter rows, 12k-35k reads of 0..150 letters; axis None (and -1 for two); contiguous and 3 view kinds"}
    vrng = random.Random(seed + 1)       # view kinds for the sampled cases (keeps col.rng's sequence, i.e. the sampled rows, as before)
    rng = col.rng

    def stop():
        return col.out_of_time()

    # ---- E. codec for every k, every alphabet
    for alph in ALPHABETS:
        A = len(alph)
        for k in range(1, max_k(A) + 1):
            if A ** k <= 256:
                texts = ["".join(t) for t in itertools.product(alph, repeat=k)]
            else:
                texts = [alph[0] * k, alph[-1] * k, alph[0] * (k - 1) + alph[-1], alph[-1] + alph[0] * (k - 1), alph[1] + alph[-1] * (k - 1)]
                texts += ["".join(alph[rng.randrange(A)] for _ in range(k)) for _ in range(8)]
            check_kmer_codec(col, alph, k, texts)
        if stop():
            return col.result()

    # ---- F. scale: window totals around the counting block size
    big = []
    for base in (1000000, 2000000):
        for off in ((-1, 0, 1, 3 if base == 1000000 else 5) if not quick else (3 if base == 1000000 else 5,)):
            big.append(base + off)
    bi = 0
    for windows in big + ([] if quick else [3000001]):
        for alph in (("ACGT", "ACG") if quick else ("ACGT", "ACG", "ACGTN")):
            for k in ((1 + (bi % 3),) if quick else (1, 2, 3)):
                layout = ("long", "reads")[bi % 2]
                check_big_counts(col, alph, layout, windows, k, None, salt=bi)
                if not quick:
                    check_big_counts(col, alph, ("long", "reads")[(bi + 1) % 2], windows, k, None, salt=bi)
                bi += 1
        if stop():
            return col.result()
    for alph, layout, windows, k, axis, view, text in (
            ("ACGT", "reads", 1000003, 2, -1, None, False), ("ACG", "reads", 2000005, 2, -1, None, False),
            ("ACGT", "reads", 1000003, 2, None, "head", False), ("ACGT", "reads", 2000005, 3, None, "rev", False),
            ("ACG", "reads", 1000003, 2, None, "col-left", False), ("ACGT", "long", 2000005, 2, None, "col-left", True),
            ("ACG", "long", 2000005, 3, None, "head", False), ("ACGT", "long", 1000003, 1, None, "rev", True),
            ("ACGT", "reads", 2000005, 2, -1, "col-left", False), ("ACGT", "reads", 1000003, 3, None, None, True))[:(6 if quick else 10)]:
        check_big_counts(col, alph, layout, windows, k, axis, view=view, text=text, salt=3)

    # ---- G. scale for the rolling functions: window / letter / k-mer totals over the concatenation at multiples of 2**16 .. 2**21
    P = 65536
    mini_cfg = (("ACGT", 3, 6), ("ACG", 2, 9))
    other_cfg = (("kmers", "ACGT", 6), ("kmers", "ACG", 5), ("kmers-rolling", "ACGT", 4), ("match", "ACGT", 6), ("match-ascii", "ACGT", 5),
                 ("motif", "ACGT", 6), ("motif-old", "ACG", 5), ("kmers", "ACGTN", 3), ("motif", "ACG", 4))
    layouts = ("reads", "long", "one")
    gi = 0
    if quick:
        plan = [("minimizers", a, k, w, N, al) for (a, k, w), N, al in (
            (mini_cfg[0], 2 * P, "windows"), (mini_cfg[0], P, "windows"), (mini_cfg[0], 2 * P - 1, "windows"), (mini_cfg[0], 2 * P + 1, "windows"),
            (mini_cfg[0], 4 * P, "windows"), (mini_cfg[1], 2 * P, "windows"), (mini_cfg[1], 2 * P, "kmers"), (mini_cfg[0], 2 * P, "letters"))]
        plan += [(f, a, None, w, N, al) for f, a, w in other_cfg[:7] for N, al in ((2 * P, "windows"), (P, "windows"), (2 * P, "letters"))]
    else:
        plan = []
        for N0 in (P, 2 * P, 3 * P, 4 * P, 8 * P, 16 * P, 32 * P):
            for off in ((-1, 0, 1) if N0 <= 4 * P else (0,)):
                for ci, (a, k, w) in enumerate(mini_cfg):
                    if N0 <= 8 * P or ci == 0:
                        plan += [("minimizers", a, k, w, N0 + off, al) for al in (("windows", "kmers", "letters") if off == 0 and N0 <= 4 * P else ("windows",))]
                for f, a, w in other_cfg:
                    plan += [(f, a, None, w, N0 + off, al) for al in (("windows", "letters") if off == 0 else ("windows",))]
    for f, a, k, w, N, al in plan:
        check_big_rolling(col, f, a, layouts[gi % 3] if N <= 4 * P or gi % 3 else "reads", N, al, w, k=k, salt=gi % 5)
        gi += 1
        if gi % 10 == 0 and stop():
            return col.result()
    col.bounds["G.sizes"] = ("windows of the function's size over the concatenated rows (also: letters in total, k-mers over the concatenation) = "
                             "2**16 * {1, 2, 4}, 2**17 +- 1 (quick) / 2**16 * {1, 2, 3, 4} + {-1, 0, 1}, 2**16 * {8, 16, 32} (thorough); get_minimizers (k,w) = "
                             "(3,6) ACGT, (2,9) ACG; get_kmers bit-packed / generic / KmerEncoder.rolling_window, match_string alphabet / ascii, "
                             "get_motif_scores, rolling PositionWeightMatrix; layouts: reads of 0..150 letters, a few long rows, one row")

    # ---- H. histories on one scorer object: every shape of 1..3 rows x w x alphabet; object kind and history kind cycle
    hshapes = [t for n in (1, 2, 3) for t in itertools.product(range(Lmax + 1), repeat=n)]
    hcnt = 0
    for si, lengths in enumerate(hshapes):
        tot = sum(lengths)
        for w in range(1, wmax + 1):
            if tot < w:
                continue
            for ai, alph in enumerate(("ACGT", "ACG")):
                A = len(alph)
                rows = content(lengths, alph, (si + w) % 2)
                for oi in range(2 if quick else 4):
                    hcnt += 1
                    obj = HIST_OBJECTS[(hcnt + (hcnt // len(HIST_OBJECTS)) * 3) % len(HIST_OBJECTS)]
                    hist = HISTORIES[(hcnt // 2 + si + w) % len(HISTORIES)]
                    if obj == "api-counts" and A ** w > 64:
                        obj = "pwm-api"
                    x = hcnt // 7
                    text = alph == "ACGT" and x % 2 == 1 and obj in ("pwm-api", "pwm-flat", "pwm-rolling", "matcher", "api-match", "api-kmers", "api-counts")
                    style = ("digits", "digits", "floats", "ints")[x % 4]
                    k = 1 + (si + hcnt) % w
                    if obj == "pwm-flat":
                        check_history(col, obj, hist if hist != "relayout" else "strands", alph, ["".join(rows)], w, kind="flat", text=text, style=style)
                    else:
                        check_history(col, obj, hist, alph, rows, w, k=k, text=text, style=style)
        if si % 5 == 0 and stop():
            return col.result()
    # 1-D and 2-D inputs (strands / sizes / again)
    for alph in ("ACGT", "ACG"):
        for n in (1, 2, 3):
            for L in range(1, Lmax + 1):
                rows = content([L] * n, alph, 1)
                for w in range(1, min(L, wmax) + 1):
                    for oi in range(2 if quick else 5):
                        hcnt += 1
                        obj = [o for o in HIST_OBJECTS if o not in ("api-counts", "pwm-flat")][hcnt % 9]
                        hist = ("strands", "sizes", "strands3", "again")[(hcnt // 3) % 4]
                        kind = "2d" if n > 1 else "flat"
                        if obj == "pwm-api" and kind == "2d":      # get_motif_scores takes ragged and 1-D input only
                            kind = "flat"
                        check_history(col, obj, hist, alph, rows if kind == "2d" else rows[:1], w, k=1 + hcnt % w, kind=kind,
                                      style=("digits", "floats")[hcnt % 2])
    col.bounds["H.histories"] = {"objects": HIST_OBJECTS, "histories": HISTORIES, "shapes": "1..3 rows of 0..%d letters, w 1..%d, ACGT and ACG; "
                                 "1..3 x 1..%d as 2-D / 1-D" % (Lmax, wmax, Lmax), "per (shape, w, alphabet)": 2 if quick else 4}

    # ---- C. long layouts, every k
    for alph in ALPHABETS:
        A = len(alph)
        for k in range(1, max_k(A) + 1):
            for li, lengths in enumerate(long_layouts(k)):
                rows = content(lengths, alph, li, rng if li == 1 else None)
                check_kmers(col, alph, rows, k, "api")
                if A == 4 or (not quick and k % 3 == 1):
                    check_kmers(col, alph, rows, k, "rolling", render=False)
                if alph in ("ACGT", "ACG"):
                    if alph == "ACGT":
                        check_kmers(col, alph, rows, k, "text", render=False)
                    for p in patterns_for(rows, k, alph, False)[:3]:
                        check_match(col, alph, rows, p, text=(alph == "ACGT" and li == 0))
                    check_motif(col, alph, rows, k, "digits" if li == 0 else "floats", text=(li == 1 and alph == "ACGT"))
                    check_motif(col, alph, rows, k, "ints", old=True)
                    ws = sorted(set([k, k + 1, k + 2, 31, 34] if quick else [k, k + 1, k + 2, k + 5, 31, 32, 40]))
                    for w in ws:
                        if w >= k:
                            wl = long_layouts(w)[li]
                            check_minimizers(col, alph, content(wl, alph, li, rng if li == 1 else None), k, w)
                    if A ** k <= 256:
                        check_counts(col, alph, rows, k, None)
                        check_counts(col, alph, rows, k, -1)
                # V: the same rows as an unflattened view; the kind cycles with (k, layout, alphabet)
                for vi in range((1 if li == k % 2 else 0) if quick else 3):
                    view = VIEWS[(k + li * 8 + ALPHABETS.index(alph) * 3 + vi * 5) % len(VIEWS)]
                    vrows = view_rows(rows, view)
                    check_kmers(col, alph, vrows, k, "api", render=False, view=view)
                    if A == 4:
                        check_kmers(col, alph, vrows, k, "rolling", render=False, view=view)
                    if alph in ("ACGT", "ACG"):
                        if alph == "ACGT":
                            check_kmers(col, alph, vrows, k, "text", render=False, view=view)
                        for p in patterns_for(vrows, k, alph, False)[:1]:
                            check_match(col, alph, vrows, p, text=(alph == "ACGT" and (k + li) % 2 == 0), view=view)
                        check_motif(col, alph, vrows, k, "digits" if li == 0 else "floats", text=(li == 1 and alph == "ACGT"), view=view)
                        if (k + vi) % 2:
                            check_motif(col, alph, vrows, k, "ints", old=True, view=view)
                        for w in (k + 1, 34 - k % 2):
                            if w >= k:
                                check_minimizers(col, alph, view_rows(content(long_layouts(w)[li], alph, li), view), k, w, view=view)
                        if A ** k <= 256:
                            check_counts(col, alph, vrows, k, None if (k + li + vi) % 2 else -1, view=view, text=(alph == "ACGT" and k % 2 == 0))
            if stop():
                return col.result()

    # ---- D. flat and 2-D inputs
    for alph in ("ACGT", "ACG"):
        A = len(alph)
        for L in range(1, Lmax + 3):
            rows = content([L], alph, 1)
            for w in range(1, L + 1):
                check_kmers(col, alph, rows, w, "api", kind="flat")
                check_kmers(col, alph, rows, w, "rolling", kind="flat", render=False)
                for p in patterns_for(rows, w, alph, False)[:2]:
                    check_match(col, alph, rows, p, text=False, kind="flat")
                    check_match(col, alph, rows, p, text=True, kind="flat", pat_as="array")
                check_motif(col, alph, rows, w, "digits", kind="flat")
                for k in range(1, w + 1):
                    check_minimizers(col, alph, rows, k, w, kind="flat")
                # V: sliced 1-D arrays (seq[::-1], seq[::2], seq[2:], seq[:-2], seq[1:-2])
                for vi in range(2 if quick else len(VIEWS_FLAT)):
                    view = VIEWS_FLAT[(L + w + vi) % len(VIEWS_FLAT)]
                    check_kmers(col, alph, rows, w, "api" if vi % 2 == 0 else "rolling", kind="flat", render=False, view=view)
                    for p in patterns_for(rows, w, alph, False)[:1]:
                        check_match(col, alph, rows, p, text=(vi % 2 == 1), kind="flat", view=view)
                    check_motif(col, alph, rows, w, "digits", kind="flat", view=view)
                    check_minimizers(col, alph, rows, 1 + (L + vi) % w, w, kind="flat", view=view)
        for n in (1, 2, 3):
            for L in range(1, Lmax + 1):
                rows = content([L] * n, alph, 0)
                for w in range(1, min(L, wmax) + 1):
                    check_kmers(col, alph, rows, w, "api", kind="2d")
                    check_kmers(col, alph, rows, w, "rolling", kind="2d", render=False)
                    for p in patterns_for(rows, w, alph, False)[:3]:
                        check_match(col, alph, rows, p, text=False, kind="2d")
                    for k in range(1, w + 1):
                        check_minimizers(col, alph, rows, k, w, kind="2d")
                    # V: sliced (non-contiguous) 2-D arrays
                    for vi in range(3 if quick else len(VIEWS_2D)):
                        view = VIEWS_2D[(n * 5 + L + w * 7 + vi) % len(VIEWS_2D)]
                        check_kmers(col, alph, rows, w, "api" if vi % 2 == 0 else "rolling", kind="2d", render=False, view=view)
                        for p in patterns_for(rows, w, alph, False)[:1]:
                            check_match(col, alph, rows, p, text=(vi % 2 == 1), kind="2d", view=view)
                        check_minimizers(col, alph, rows, 1 + (L + vi) % w, w, kind="2d", view=view)
        if stop():
            return col.result()
    for n in (1, 2, 3):
        for L in range(1, Lmax + 1):
            rows = [[(i * 3 + r * 5 + i * i) % 7 + 1 for i in range(L)] for r in range(n)]
            for w in range(1, L + 1):
                check_util_rolling(col, rows, w, "2d")
                for vi in range(2 if quick else len(VIEWS_2D)):
                    check_util_rolling(col, rows, w, "2d", view=VIEWS_2D[(n * 5 + L + w * 7 + vi) % len(VIEWS_2D)])
    for lengths in ([3], [2, 3], [3, 1, 0, 2], [0, 4], [1, 1, 1]):
        rows = [[(i * 3 + r * 5) % 7 + 1 for i in range(L)] for r, L in enumerate(lengths)]
        for w in (1, 2, 3):
            if sum(lengths) >= w:
                check_util_rolling(col, rows, w, "ragged")
                for vi in range(2 if quick else len(VIEWS)):
                    view = VIEWS[(len(lengths) * 3 + w * 5 + vi) % len(VIEWS)]
                    check_util_rolling(col, view_rows(rows, view), w, "ragged", view=view)

    # ---- B. exhaustive contents
    def all_rows(alph, maxlen):
        return ["".join(t) for L in range(maxlen + 1) for t in itertools.product(alph, repeat=L)]

    blocks = [("AC", [list(t) for n in ((1, 2) if quick else (1, 2, 3)) for t in itertools.product(all_rows("AC", 3), repeat=n)], 4),
              ("ACGT", [[r] for r in all_rows("ACGT", 4)], 4),
              ("ACGT", [list(t) for t in itertools.product(all_rows("ACGT", 2), repeat=2)], 3)]
    for alph, lst, wtop in blocks:
        for i, rows in enumerate(lst):
            tot = sum(len(r) for r in rows)
            for w in range(1, wtop + 1):
                if tot < w:
                    continue
                check_kmers(col, alph, rows, w, "api", render=False)
                if len(rows) > 1 or quick is False:
                    for k in range(1, w + 1):
                        check_minimizers(col, alph, rows, k, w)
                pats = patterns_for(rows, w, alph, True)
                for p in (pats if len(rows) > 1 else pats[:1]):
                    check_match(col, alph, rows, p, text=(alph == "ACGT"))
                if len(rows) > 1:
                    check_motif(col, alph, rows, w, "digits")
            if i % 50 == 0 and stop():
                return col.result()

    # ---- A. every shape
    shapes = [t for n in (1, 2, 3) for t in itertools.product(range(Lmax + 1), repeat=n)]
    vcnt = {}
    # a few 4-row shapes around the window size
    for si, lengths in enumerate(shapes):
        tot = sum(lengths)
        for w in range(1, wmax + 1):
            if tot < w:
                continue
            for variant in (0, 1, 2):
                if variant == 2 and quick and len(lengths) == 3:
                    continue
                for alph in ALPHABETS:
                    A = len(alph)
                    rows = content(lengths, alph, variant, rng if variant == 2 else None)
                    if variant == 0 or A <= 4:
                        check_kmers(col, alph, rows, w, "api", render=(variant == 0))
                    if alph in ("ACGT", "ACG"):
                        if variant == 0:
                            check_kmers(col, alph, rows, w, "rolling", render=False)
                        if variant == 1 and alph == "ACGT":
                            check_kmers(col, alph, rows, w, "text", render=False)
                        for k in range(1, w + 1):
                            if variant == 0 or k in (1, 2, w):
                                check_minimizers(col, alph, rows, k, w)
                        pats = patterns_for(rows, w, alph, not quick and variant == 0)
                        for pi, p in enumerate(pats):
                            check_match(col, alph, rows, p, text=(alph == "ACGT" and (variant + pi) % 2 == 0),
                                        pat_as="array" if (variant == 1 and pi == 0) else "str")
                        check_motif(col, alph, rows, w, ("digits", "floats", "ints")[variant], text=(variant == 1 and alph == "ACGT"))
                        if variant == 0:
                            check_motif(col, alph, rows, w, "ints", old=True)
                        if A ** w <= (64 if quick else 256) and variant < 2:
                            check_counts(col, alph, rows, w, None if variant == 0 else -1)
            # V: the variant-0 rows as an unflattened view; the kind cycles with (shape, w, alphabet): bit-packed and generic path
            for ai, alph in enumerate(("ACGT", "ACG")):
                A = len(alph)
                rows0 = content(lengths, alph, 0)
                for vi in range((1 if len(lengths) < 3 or (si + w + ai) % 2 == 0 else 0) if quick else 2):
                    # per (w, alphabet) the kinds follow each other over the shapes that are taken: every kind meets every window
                    # and alphabet, and (16 kinds against 5 / 7 row lengths) every length of the last and the first rows
                    vcnt[w, ai] = vcnt.get((w, ai), -1) + 1
                    view = VIEWS[(vcnt[w, ai] + w * 3 + ai * 7 + vi * 8) % len(VIEWS)]
                    rows = view_rows(rows0, view)
                    x = si + w + vi
                    check_kmers(col, alph, rows, w, "api", render=False, view=view)
                    if alph == "ACGT":
                        check_kmers(col, alph, rows, w, "text" if x % 2 else "rolling", render=False, view=view)
                    for k in sorted(set([1 + x % w, w] if quick else [1, 1 + x % w, w])):
                        check_minimizers(col, alph, rows, k, w, view=view)
                    pats = patterns_for(rows, w, alph, False)
                    for pi, p in enumerate(pats[:2] if quick else pats[:4]):
                        check_match(col, alph, rows, p, text=(alph == "ACGT" and (x + pi) % 2 == 0),
                                    pat_as="array" if (x + pi) % 3 == 0 else "str", view=view)
                    check_motif(col, alph, rows, w, ("digits", "floats", "ints")[x % 3], text=(x % 2 == 1 and alph == "ACGT"), view=view)
                    if x % 3 == 0:
                        check_motif(col, alph, rows, w, "ints", old=True, view=view)
                    if A ** w <= (64 if quick else 256):
                        check_counts(col, alph, rows, w, None if x % 2 else -1, view=view, text=(alph == "ACGT" and x % 4 < 2))
        if si % 5 == 0 and stop():
            return col.result()

    # ---- A'. 4 rows, every length in {0, 1, w-1, w, w+1}
    for w in ((2,) if quick else (2, 3, 4)):
        for lengths in itertools.product(sorted(set([0, 1, w - 1, w, w + 1])), repeat=4):
            if sum(lengths) < w:
                continue
            for alph in ("ACGT", "ACG"):
                rows = content(lengths, alph, 1)
                check_kmers(col, alph, rows, w, "api", render=False)
                for p in patterns_for(rows, w, alph, False)[:(1 if quick else 3)]:
                    check_match(col, alph, rows, p, text=False)
                if not quick:
                    for k in sorted(set([1, 2, w])):
                        if k <= w:
                            check_minimizers(col, alph, rows, k, w)
                    check_motif(col, alph, rows, w, "digits")
                view = VIEWS[(sum((i + 2) * L for i, L in enumerate(lengths)) + w) % len(VIEWS)]
                vrows = view_rows(rows, view)
                check_kmers(col, alph, vrows, w, "api", render=False, view=view)
                if not quick:
                    check_motif(col, alph, vrows, w, "digits", view=view)
                    check_minimizers(col, alph, vrows, 1 + sum(lengths) % w, w, view=view)
                    for p in patterns_for(vrows, w, alph, False)[:1]:
                        check_match(col, alph, vrows, p, text=(alph == "ACGT"), view=view)
        if stop():
            return col.result()

    # ---- above the bounds: seeded sampling (4..6 rows, lengths 0..12, w 1..12) until a fixed count
    nsamp = 150 if quick else 3000
    for _ in range(nsamp):
        n = rng.randint(4, 6)
        w = rng.randint(1, 12)
        lengths = [rng.choice([0, 1, w - 1, w, w + 1, rng.randint(0, 12)]) for _ in range(n)]
        if sum(lengths) < w:
            continue
        alph = rng.choice(["ACGT", "ACGT", "ACG", "ACTG", "ACGTN"])
        rows = content(lengths, alph, 2, rng)
        check_kmers(col, alph, rows, w, "api", render=False)
        if alph in ("ACGT", "ACG"):
            k = rng.randint(1, w)
            check_minimizers(col, alph, rows, k, w)
            for p in patterns_for(rows, w, alph, False)[:2]:
                check_match(col, alph, rows, p, text=rng.random() < 0.5)
            check_motif(col, alph, rows, w, rng.choice(["digits", "floats"]))
        view = vrng.choice(VIEWS)
        vrows = view_rows(rows, view)
        check_kmers(col, alph, vrows, w, "text" if alph == "ACGT" and vrng.random() < 0.3 else "api", render=False, view=view)
        if alph in ("ACGT", "ACG"):
            check_minimizers(col, alph, vrows, vrng.randint(1, w), w, view=view)
            for p in patterns_for(vrows, w, alph, False)[:1]:
                check_match(col, alph, vrows, p, text=vrng.random() < 0.5, view=view)
            check_motif(col, alph, vrows, w, vrng.choice(["digits", "floats"]), text=(alph == "ACGT" and vrng.random() < 0.5), view=view)
        if stop():
            break
    return col.result()


def replay(case):
    col = Collector("C13", "quick", 0, "replay")
    fn = case["fn"]
    if fn == "kmers":
        check_kmers(col, case["alph"], case["rows"], case["k"], case["path"], case["kind"], view=case.get("view"))
    elif fn == "codec":
        check_kmer_codec(col, case["alph"], case["k"], case["texts"])
    elif fn == "minimizers":
        check_minimizers(col, case["alph"], case["rows"], case["k"], case["w"], case["kind"], view=case.get("view"))
    elif fn == "match":
        check_match(col, case["alph"], case["rows"], case["pat"], case["text"], case["kind"], case.get("pat_as", "str"), view=case.get("view"))
    elif fn == "motif":
        check_motif(col, case["alph"], case["rows"], case["w"], case["style"], case["text"], case["kind"], case["old"], view=case.get("view"))
    elif fn == "counts":
        check_counts(col, case["alph"], case["rows"], case["k"], case["axis"], view=case.get("view"), text=case.get("text", False))
    elif fn == "bigcounts":
        check_big_counts(col, case["alph"], case["layout"], case["windows"], case["k"], case["axis"], view=case.get("view"),
                         text=case.get("text", False), salt=case.get("salt", 0))
    elif fn == "util":
        check_util_rolling(col, case["rows"], case["w"], case["kind"], view=case.get("view"))
    elif fn == "bigroll":
        check_big_rolling(col, case["f"], case["alph"], case["layout"], case["N"], case["align"], case["w"], k=case.get("k"), salt=case.get("salt", 0))
    elif fn == "history":
        check_history(col, case["obj"], case["hist"], case["alph"], case["rows"], case["w"], k=case.get("k"), kind=case["kind"],
                      text=case.get("text", False), style=case.get("style", "digits"))
    else:
        return False, "unknown case kind %r" % (fn,)
    if col.failures:
        return False, "; ".join(f["signature"] + ": " + f["message"] for f in col.failures)
    return True, "ok"
